from common import COMMON_ASSUME

PROP = dict(
    module="ClientCall",
    mc=[
        dict(module="MCClientCall", cfg=dict(quick="MCClientCall_quick.cfg", thorough="MCClientCall_thorough.cfg"),
             timeout=dict(quick=600, thorough=3000), workers=6),
        dict(module="MCClientDrain", cfg=dict(quick="MCClientDrain_quick.cfg", thorough="MCClientDrain_thorough.cfg"), timeout=300, workers=2),
        # as-built variants of the model: each must reproduce its design-level counterexample (non-vacuity)
        dict(module="MCClientCall", cfg="MCClientCall_asbuilt.cfg", expect_violation="InvReleased", timeout=300, workers=2),      # D9
        dict(module="MCClientCall", cfg="MCClientCall_asbuilt_d9b.cfg", expect_violation="InvReleased", timeout=300, workers=2),  # D9b
        dict(module="MCClientCall", cfg="MCClientCall_asbuilt_d18.cfg", expect_violation="InvReleased", timeout=300, workers=2),  # D18
        dict(module="MCClientDrain", cfg="MCClientDrain_asbuilt.cfg", expect_violation="InvDrained", timeout=300, workers=2),     # D16
        # mutant: the call cancels its own context before closing the body => with reuse the drain is cut short, body closed undrained
        dict(module="MCClientCall", cfg="MCClientCall_asbuilt_cancelfirst.cfg", expect_violation="InvReleased", timeout=300, workers=2),
        # mutant: copying the body into a failing destination marks its end as seen => closed undrained with reuse
        dict(module="MCClientCall", cfg="MCClientCall_asbuilt_copyend.cfg", expect_violation="InvReleased", timeout=300, workers=2),
        # liveness form of D9: with the pre-fix behaviour the writer goroutine never dies (temporal counterexample)
        dict(module="MCClientCall", cfg="MCClientCall_asbuilt_live.cfg", expect_violation="Temporal property WriterDies", timeout=600, workers=2),
    ],
    gen=dict(module="GenClientCall", cfg=dict(quick="GenClientCall_quick.cfg", thorough="GenClientCall_thorough.cfg"), timeout=600),
    level_text="ClientCall models Runtime.Submit as four processes (caller, multipart writer goroutine, transport/server, clock) with "
               "explicit resources (files, goroutine, pipe ends, response body, drained/eofSeen, context) and script-controlled fault "
               "actions (params/auth/URL error, source read error or short read at each offset, transport error before/after the body, "
               "server close/stall/truncate in status line, headers and body, cancel, deadline), crossed with payload kinds and reuse. "
               "TLC checks safety at settled states (everything released, result sound, never blocked past the deadline) and liveness "
               "(<>returned, <>[]~writerAlive, <>[]files closed) under weak fairness for every script of the bounded space x every "
               "interleaving; as-built constants reproduce D9/D9b/D18/D16 as counterexamples. GenClientCall exports every script; the "
               "driver realises each on the real Submit (scripted RoundTripper / raw TCP server, instrumented sources, contexts) and "
               "TLC validates each observation against the terminal states of the model for that script plus the real-time bound.",
    level_note="bounded exhaustive at model level (FileLen=2, RespLen=2 units, <=1 fault + cancel quick / <=2 faults thorough); real code "
               "bound by replay of every exported script and trace validation of the observed outcome; wall-clock clause with 1.5 s slack; "
               "HTTP/1.1 plaintext only",
    design_ref="DESIGN.md 4.12",
    driver="c12",
    trace=dict(module="TraceClientCall", cfg="TraceClientCall.cfg"),
    drive_timeout=dict(quick=900, thorough=3000),
    rule="case = one fault script (payload kind x reuse x auth/reader behaviour x fault placements x cancel point) rendered to a concrete "
         "call of client.Runtime.Submit (scripted RoundTripper or real http.Transport against a raw TCP server; byte offsets, chunk "
         "sizes, timeout/context arrangement), or one Read*/Close history on KeepAliveTransport's body. Exhaustive: every script "
         "exported by GenClientCall, every byte offset of the wire response x {close,truncate,stall}, every Read-size sequence of "
         "length <=3 (4 thorough) over {0,1,4,100} x small streams. Seeded: random two-fault scripts with random renderings, random "
         "large streams. Non-trivial: the script contains a fault or a cancel (call) / any history (drain); distinct by hash of the case.",
    assumptions=COMMON_ASSUME + [
        "real-time clause: elapsed <= effective deadline + 1.5 s slack (targets hangs, not millisecond accuracy); a case exceeding deadline+0.7 s is re-measured up to 3 times (a genuine hang repeats)",
        "maximal progress: computation steps are instantaneous w.r.t. the deadline (fault-free calls use a 10 s deadline so it never fires spuriously; stall scripts use 150-300 ms)",
        "RoundTrippers honour their contract (always close the request body, observe the request context); the response reader propagates body read errors",
        "upload sources and response bodies have sticky terminal conditions; a Read on a non-empty buffer returns data or an error",
        "goroutines are attributed to a call through the 'created by ... in goroutine N' line of runtime.Stack (Go >= 1.21); quiescence wait <= 3 s",
        "an io.Reader payload (not a file parameter) is not a 'file handed over for upload': its closing on build errors is not checked",
    ],
)
