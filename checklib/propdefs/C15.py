from common import COMMON_ASSUME

PROP = dict(
    module="Codecs",
    mc=[
        dict(module="MCCodecs", cfg=dict(quick="MCCodecs_quick.cfg", thorough="MCCodecs_thorough.cfg"),
             timeout=dict(quick=600, thorough=3000)),
        # non-vacuity: the model as the code was before the D10/D22 fixes (typed-nil reflect panics, nil payload
        # returns before the closer is installed) must violate the property
        dict(module="MCCodecs", cfg="MCCodecs_asbuilt.cfg", expect_violation="PropertyHolds", timeout=300),
        # non-vacuity of Part A2: a buffer shared between successive Consume calls must violate "never alias"
        dict(module="MCCodecs", cfg="MCCodecs_mut_pooled.cfg", expect_violation="PropertyHolds", timeout=300),
        # non-vacuity of the error-identity dimension: taking io.ErrUnexpectedEOF for the end of the stream must violate
        dict(module="MCCodecs", cfg="MCCodecs_mut_ueof.cfg", expect_violation="PropertyHolds", timeout=300),
        # non-vacuity of the source-reuse steps: taking a *bytes.Buffer reader's bytes without copying must violate
        dict(module="MCCodecs", cfg="MCCodecs_mut_zerocopy.cfg", expect_violation="PropertyHolds", timeout=300),
    ],
    gen=dict(module="GenCodecs", cfg=dict(quick="GenCodecs_quick.cfg", thorough="GenCodecs_thorough.cfg"),
             workers=1, timeout=1500),
    level_text="Codecs.tla (EXTENDS Streams) models the byte-stream and text consumers/producers branch by branch in the code's "
               "dispatch order over scripted readers (any chunking, zero-length reads, data+EOF, error at any offset and of any identity - io.ErrUnexpectedEOF, wrapped EOF, closed pipe, cancelled context, custom -, sticky) and "
               "scripted writers (accept k bytes, then fail), for every destination / source kind (interfaces, *string, *[]byte, "
               "named types, *interface{}, non-pointers, typed-nil, nil, unsupported) x closing option, and states C15 declaratively "
               "(bytes stored / written are exactly the bytes read / the source bytes; a read, write or (un)marshal error is never a "
               "success; successive Consume calls never touch what an earlier call stored, nor does the caller changing one stored value (history "
               "state machine, 'never alias'); the stream is closed iff requested and closable; a closable source payload is always closed; unsupported, nil "
               "and typed-nil values yield an error, never a panic). TLC checks model |= property for every configuration (14 k quick, "
               "195 k thorough), exports every configuration plus the value grammar of the JSON / XML / YAML / text / byte-stream round "
               "trip (x feeding pattern x truncated document x failing writer), and validates the outcome of every real Consume / "
               "Produce call, plus seeded random cases up to 1 MiB (SHA-256 compared), against the property.",
    level_note="stream-behaviour half: bounded exhaustive at model level, every modelled configuration executed on the real code; "
               "value round trip: the model is the identity over an enumerated grammar (TLC contributes enumeration and comparison "
               "only, DESIGN 4.15); scripted streams, instrumented payload types and the Go<->abstract value mapping are trusted",
    design_ref="DESIGN.md 4.15",
    driver="c15",
    trace=dict(module="TraceCodecs", cfg="TraceCodecs.cfg"),
    rule="case = one codec call: (consume) reader script x reader kind (plain, closable, the body runtime.HasBody leaves in a request) x ClosesStream x destination kind x pre-population x "
         "writer limit / unmarshal error; (produce) source kind x delivery script x writer kind x writer limit x ClosesStream x "
         "marshal error; (seq) a history of 2..3 (seeded: up to 12) ByteStreamConsumer calls - reader a scripted stream, *bytes.Buffer, *bytes.Reader or "
         "*strings.Reader -, caller-side changes of stored []byte values and re-use of the sources afterwards, all "
         "destinations re-read after every step; (rt) codec x abstract value (incl. typed JSON destinations with interface{} positions "
         "holding numbers beyond float64) x feeding pattern (whole / 1 / 7 byte chunks, zero-length reads, data+EOF) x "
         "document cut + read error x failing writer. Exhaustive part: all configurations exported by TLC (GenCodecs: contents "
         "<=2/3 bytes, <=3/4 chunks; ~1.4 k JSON, ~600 YAML, ~450 XML values). Seeded part: 300/1500 random stream cases of 65 B "
         "to 1 MiB. Non-trivial: non-empty content or a fault; distinct by hash of the case.",
    assumptions=COMMON_ASSUME + [
        "readers have sticky terminal conditions and writers obey the io.Writer contract (no short write without error)",
        "EmptyTextNoop (allow-both): on empty input the text consumer may return nil and leave any destination untouched",
        "kind priority (ReaderFrom before Writer, WriterTo before Reader, ...) is not part of the statement and is not checked",
        "typed-nil values of types that implement the codec interfaces themselves (e.g. (*bytes.Buffer)(nil)) are outside the space: "
        "the panic would be the callee's",
        "for struct / slice sources 'the source bytes' are the encoding/json reference encoding of the value (TextSliceAsJSON: the text "
        "producer writes a []byte as a JSON base64 string)",
        "XML values are restricted to valid XML characters without carriage returns; YAML numbers to small integers",
    ],
    exhaustive=False,
)
