from common import COMMON_ASSUME

PROP = dict(
    module="DocsMW",
    mc=[
        dict(module="MCDocsMW", cfg=dict(quick="MCDocsMW_quick.cfg", thorough="MCDocsMW_thorough.cfg"),
             timeout=dict(quick=600, thorough=2400)),
        dict(module="MCDocsMW", cfg=dict(quick="MCDocsMW_deep_quick.cfg", thorough="MCDocsMW_deep_thorough.cfg"),
             timeout=dict(quick=600, thorough=2400)),
        dict(module="MCDocsMW", cfg="MCDocsMW_mutant_escapedroute.cfg", expect_violation="RoutingHolds", timeout=300),
        dict(module="MCDocsMW", cfg="MCDocsMW_asbuilt_d13.cfg", expect_violation="EscapingHolds", timeout=300),
    ],
    level_text="DocsMW models path.Clean/Join/Split, the option defaulting of Spec, Redoc, RapiDoc, SwaggerUI and the OAuth2 callback, "
               "uiOptionsForHandler's derivation of the spec route from the UI's SpecURL, the handler chain of the three API-handler "
               "flavours, and html/template's escaping in the three contexts the templates use, next to the declarative reading of C20 "
               "(the spec / page is answered exactly at the configured document path, everything else reaches the next handler "
               "unmodified or 404, option values never reach the page raw and read back exactly, the page references the location the "
               "spec is served at, operations elsewhere stay reachable). TLC checks model |= property for every configuration of the "
               "option lattice x every request path of <=3 segments over a pool and every option value of <=3/4 bytes over an alphabet "
               "with the HTML metacharacters, and validates every request served by the real middlewares against the declarative "
               "property.",
    level_note="bounded exhaustive at model level; the real code is bound by trace validation of the executed requests only; the "
               "driver locates option values in the page by sentinels / template-specific patterns (trusted)",
    design_ref="DESIGN.md 4.20",
    driver="c20",
    trace=dict(module="TraceDocsMW", cfg="TraceDocsMW.cfg"),
    rule="case = one configuration (kind of middleware or API-handler flavour, base path, path, document, spec URL shape, OAuth callback "
         "URL, with/without next, default/custom template, option values with HTML metacharacters) + requests around every document "
         "path (exact, trailing slash, dot segments, prefixes, extensions, escapes, other methods, bodies) and random ones; spec URLs "
         "with characters that URLs percent-encode (spaces, non-ASCII; given raw or encoded); multi-instance cases: 2-4 middlewares / "
         "API handlers built one after the other in one process and all alive, requested in a shuffled order, each judged against "
         "its own configuration. "
         "Non-trivial: some request was answered by a document handler and some was passed on; distinct by hash of the case.",
    assumptions=COMMON_ASSUME + [
        "for the API-handler flavours the description's basePath starts with '/'; the claim about the spec location covers SpecURLs that are "
        "absolute (URL or path) and name a document; for relative or document-less SpecURLs the code's own route is accepted",
        "option values are rendered through the default templates or the driver's custom template; payload alphabet: letters and < > & \" ' + / \\ space = ;",
    ],
)
