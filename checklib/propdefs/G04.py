from common import COMMON_ASSUME

# Growth check (triage of mechanical mutant C10[5]): the Accept header of the client's requests.  Not one of the
# listed properties: it is not in READY / MANIFEST.json; `./check G04` works like for the C-properties.
PROP = dict(
    module="ClientAccept",
    mc=[
        dict(module="MCClientAccept", cfg=dict(quick="MCClientAccept_quick.cfg", thorough="MCClientAccept_thorough.cfg"),
             timeout=dict(quick=300, thorough=600), workers=4),
        # non-vacuity: mutants of the model must violate
        dict(module="MCClientAccept", cfg="MCClientAccept_mut_dropproduces.cfg", expect_violation="Holds", timeout=300, workers=1),
        dict(module="MCClientAccept", cfg="MCClientAccept_mut_producesafterparams.cfg", expect_violation="Holds", timeout=300, workers=1),
        dict(module="MCClientAccept", cfg="MCClientAccept_mut_otelfirst.cfg", expect_violation="Holds", timeout=300, workers=1),
    ],
    level_text="ClientAccept states what the request's Accept header is: one value per entry of the operation's produces list, in order "
               "(createHttpRequest: SetHeaderParam(Accept, produces...)), replaced by an Accept header parameter of the params writer and, "
               "last, of the auth writer in force (named reading CallerAcceptReplaces); no produces and no caller value => no Accept value "
               "(NoProducesNoAccept); identical through CreateHttpRequest, Submit, WithOpenTelemetry and WithOpenTracing. TLC checks the "
               "transcribed steps against the statement for all produces lists x writer settings x entry points, and validates the header "
               "of every request the real client builds/sends (recording RoundTripper) in histories on one Runtime.",
    level_note="growth check; bounded exhaustive at model level; real code bound by trace validation of the executed cases only",
    design_ref="DESIGN.md 6 (growth); mutants/C10.triage.md [5]",
    driver="g04",
    trace=dict(module="TraceClientAccept", cfg="TraceClientAccept.cfg"),
    rule="case = a history of operations on ONE Runtime, each with a produces list, an optional Accept set by the params writer and by the "
         "auth writer (operation AuthInfo or Runtime.DefaultAuthentication), built through all four entry points; exhaustive: all produces "
         "lists of <=2 entries over 6 media types (+ longer / repeated) x 4 params settings x 4 auth settings x placement, each as a "
         "3-step history; seeded: random histories of 1-5 operations. Non-trivial: produces or a caller value present.",
    assumptions=COMMON_ASSUME + [
        "media types are transportable header values; the observation is the list of values of the Accept header field of the *http.Request (net/http sends one header line per value)",
    ],
)
