from common import COMMON_ASSUME

PROP = dict(
    module="Credentials",
    mc=[
        dict(module="MCCredentials", cfg=dict(quick="MCCredentials_quick.cfg", thorough="MCCredentials_thorough.cfg"),
             timeout=dict(quick=600, thorough=3000)),
        # the tree as found (finding D27: Request.FormValue lets an empty access_token query parameter hide a multipart form token)
        dict(module="MCCredentials", cfg="MCCredentials_asbuilt.cfg", expect_violation="Holds", timeout=300),
        # non-vacuity: mutants of the model must violate
        dict(module="MCCredentials", cfg="MCCredentials_mut_lastcolon.cfg", expect_violation="Holds", timeout=300),
        dict(module="MCCredentials", cfg="MCCredentials_mut_queryfirst.cfg", expect_violation="Holds", timeout=300),
        dict(module="MCCredentials", cfg="MCCredentials_mut_defaultalways.cfg", expect_violation="Holds", timeout=300),
        dict(module="MCCredentials", cfg="MCCredentials_mut_staticbeforeauth.cfg", expect_violation="Holds", timeout=300),
        dict(module="MCCredentials", cfg="MCCredentials_mut_composebreak.cfg", expect_violation="Holds", timeout=300),
        # history on one Runtime: the configuration (default credential, Debug) is replaced between requests; the model's memory stays empty
        dict(module="MCCredentialsSession", cfg=dict(quick="MCCredentialsSession_quick.cfg", thorough="MCCredentialsSession_thorough.cfg"),
             timeout=dict(quick=600, thorough=3000)),
        # non-vacuity: a Runtime that remembers its first default / sends the header redacted for the debug dump / lets static query
        # parameters beat the auth writer's must violate
        dict(module="MCCredentialsSession", cfg="MCCredentialsSession_mut_stickydefault.cfg", expect_violation="Holds", timeout=300),
        dict(module="MCCredentialsSession", cfg="MCCredentialsSession_mut_redactsent.cfg", expect_violation="Holds", timeout=300),
        dict(module="MCCredentialsSession", cfg="MCCredentialsSession_mut_staticbeforeauth.cfg", expect_violation="Holds", timeout=300),
        # the default wrapper stored into the caller's operation value: re-submission carries a stale / foreign credential, and the value changed
        dict(module="MCCredentialsSession", cfg="MCCredentialsSession_mut_authintoop.cfg", expect_violation="Holds", timeout=300),
        dict(module="MCCredentialsSession", cfg="MCCredentialsSession_mut_authintoop_opchanged.cfg", expect_violation="OperationUnchanged", timeout=300),
    ],
    level_text="Credentials models what the client writers (BasicAuth, APIKeyAuth, BearerToken, Compose, the default-authentication wrapper) put "
               "on the wire and how the server authenticators (BasicAuth*, APIKeyAuth*, BearerAuth*, plain and Ctx) read it back (base64 + cut "
               "at the first ':', canonical header keys, Bearer prefix, header > access_token query > form body), next to C14 stated on one "
               "run of an authenticator (callback arguments = written credential, scopes passed, applies iff a credential of that kind is "
               "carried, principal/error are the callback's, realm / scheme markers). TLC checks code |= property for all users/passwords/"
               "tokens over an 8-class alphabet and all combinations of operation auth, default auth, preset Authorization header and "
               "token placements x static query parameters of the base path / path pattern named like a query key x every authenticator. "
               "History is a first-class dimension: two Runtimes modelled as state machines (state = their configurations: default credential, "
               "Debug; memories that must stay empty) make sequences of requests with a configuration REPLACED in between, with fresh "
               "ClientOperation values or the caller's SAME value submitted again (through either Runtime; it must come back unchanged), "
               "each judged for the configuration in force of the sending Runtime when it is made. TLC validates every authenticator run on requests built by the real "
               "client (directly and really sent through a httptest.Server, Debug on or off) against the property; the trace spec is "
               "the same state machine driven by configure / request events.",
    level_note="bounded exhaustive at model level; real code bound by trace validation of the executed cases only; base64 is abstract in "
               "the model (the real encoding is exercised by the driver)",
    design_ref="DESIGN.md 4.14",
    driver="c14",
    trace=dict(module="TraceCredentials", cfg="TraceCredentials.cfg"),
    rule="case = a session of 1-7 steps on two client.Runtimes; step = Runtime A|B + configuration set on it before the request "
         "(DefaultAuthentication, Debug, base path with static query parameters) + fresh or re-submitted ClientOperation value + one request description (operation writers incl. Compose, default writers, preset Authorization/header/query/form "
         "parameters, form media type, transport direct|httptest.Server) with a list of authenticators each run on a fresh copy of the "
         "request; exhaustive part: every user (no ':') x password, key and token of <=2 atoms over {a : space non-ASCII + % = &} per "
         "scheme and placement; all operation-auth sequences of <=2 writers over a 6-writer pool x 4 defaults x 8 preset subsets x "
         "urlencoded/multipart x 32 authenticators (plain/Ctx, accepting/rejecting callback); static query parameters (base, pattern, both) "
         "named api_key / k / access_token x 6 operation auths x 3 defaults x params-writer value x transports; Debug on x 6 header-"
         "credential operation auths x 4 defaults x preset header x media x transports; sessions: every ordered pair of 7 defaults "
         "(absent, bearer, refreshed bearer, query key, header key, basic, new password) x 5 requests, Debug / base path switched "
         "between requests; the same operation value submitted twice on one Runtime for every ordered pair of defaults (incl. equal, none) "
         "and A,B,A over two Runtimes x 5 requests x 3 transport mixes, two kept values interleaved with fresh ones; seeded part: arbitrary-byte credentials, random configuration, 600 (thorough 6000) random sessions. "
         "Non-trivial: some authenticator's callback was consulted; distinct by hash of the case.",
    assumptions=COMMON_ASSUME + [
        "header-borne keys and tokens are transportable header values (no CR/LF/control bytes, no leading or trailing blanks); user names contain no ':'",
        "the params writer never sets a Basic or Bearer Authorization header itself; API-key header names are valid header tokens other than Authorization",
        "forms are sent with POST; authenticators are invoked as the middleware does (ScopedAuthRequest), basic/apikey also with the bare request",
        "a static query parameter occurs at most once per source (base path, path pattern); a lone static parameter named like a key is a credential the request carries",
    ],
)
