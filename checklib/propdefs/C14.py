from common import COMMON_ASSUME

PROP = dict(
    module="Credentials",
    mc=[
        dict(module="MCCredentials", cfg=dict(quick="MCCredentials_quick.cfg", thorough="MCCredentials_thorough.cfg"),
             timeout=dict(quick=600, thorough=3000)),
        # the tree as found (finding D27: Request.FormValue lets an empty access_token query parameter hide a multipart form token)
        dict(module="MCCredentials", cfg="MCCredentials_asbuilt.cfg", expect_violation="Holds", timeout=300),
        # non-vacuity: mutants of the model must violate
        dict(module="MCCredentials", cfg="MCCredentials_mut_lastcolon.cfg", expect_violation="Holds", timeout=300),
        dict(module="MCCredentials", cfg="MCCredentials_mut_queryfirst.cfg", expect_violation="Holds", timeout=300),
        dict(module="MCCredentials", cfg="MCCredentials_mut_defaultalways.cfg", expect_violation="Holds", timeout=300),
    ],
    level_text="Credentials models what the client writers (BasicAuth, APIKeyAuth, BearerToken, Compose, the default-authentication wrapper) put "
               "on the wire and how the server authenticators (BasicAuth*, APIKeyAuth*, BearerAuth*, plain and Ctx) read it back (base64 + cut "
               "at the first ':', canonical header keys, Bearer prefix, header > access_token query > form body), next to C14 stated on one "
               "run of an authenticator (callback arguments = written credential, scopes passed, applies iff a credential of that kind is "
               "carried, principal/error are the callback's, realm / scheme markers). TLC checks code |= property for all users/passwords/"
               "tokens over an 8-class alphabet and all combinations of operation auth, default auth, preset Authorization header and "
               "token placements x every authenticator, and validates every authenticator run on requests built by the real client "
               "(directly and through a real httptest.Server) against the property.",
    level_note="bounded exhaustive at model level; real code bound by trace validation of the executed cases only; base64 is abstract in "
               "the model (the real encoding is exercised by the driver)",
    design_ref="DESIGN.md 4.14",
    driver="c14",
    trace=dict(module="TraceCredentials", cfg="TraceCredentials.cfg"),
    rule="case = one request description (operation writers incl. Compose, default writers, preset Authorization/header/query/form "
         "parameters, form media type, transport direct|httptest.Server) with a list of authenticators each run on a fresh copy of the "
         "request; exhaustive part: every user (no ':') x password, key and token of <=2 atoms over {a : space non-ASCII + % = &} per "
         "scheme and placement; all operation-auth sequences of <=2 writers over a 6-writer pool x 4 defaults x 8 preset subsets x "
         "urlencoded/multipart x 32 authenticators (plain/Ctx, accepting/rejecting callback); seeded part: arbitrary-byte credentials. "
         "Non-trivial: some authenticator's callback was consulted; distinct by hash of the case.",
    assumptions=COMMON_ASSUME + [
        "header-borne keys and tokens are transportable header values (no CR/LF/control bytes, no leading or trailing blanks); user names contain no ':'",
        "the params writer never sets a Basic or Bearer Authorization header itself; API-key header names are valid header tokens other than Authorization",
        "forms are sent with POST; authenticators are invoked as the middleware does (ScopedAuthRequest), basic/apikey also with the bare request",
    ],
)
