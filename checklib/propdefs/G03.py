from common import COMMON_ASSUME

PROP = dict(
    module="ServePipeline",
    mc=[dict(module="MCServePipeline", cfg="MCServePipeline_quick.cfg", timeout=900)],
    gen=[dict(module="GenServePipeline", cfg="GenServePipeline_solo.cfg", timeout=600)],
    driver="g03",
    trace=dict(module="TraceEndToEnd", cfg="TraceEndToEnd.cfg"),
    design_ref="DESIGN.md 9.3 (growth)",
    level_text="Growth check (not a listed property): every consistent set of defects of a request (unknown path, wrong method, bad / "
               "missing credentials, unadmitted content type, unacceptable Accept, bad parameter, failing handler) on every operation "
               "of the C09 test API is submitted by a real client.Runtime to an httptest.Server; the status, media type and data the "
               "client's response reader receives must be those the ServePipeline model computes (refusal precedence routing > security "
               "> content type > accept > parameters > handler).",
    level_note="one exchange per request kind exported by GenServePipeline (solo mode); unparsable Content-Type cannot be produced "
               "through the client transport and is skipped",
    rule="case = one client/server exchange; non-trivial: the exchange is refused (status other than 200); distinct by hash",
    assumptions=COMMON_ASSUME,
)
