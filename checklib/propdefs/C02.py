from common import COMMON_ASSUME

PROP = dict(
    module="Security",
    mc=[
        dict(module="MCSecurity", cfg=dict(quick="MCSecurity_quick.cfg", thorough="MCSecurity_thorough.cfg"),
             timeout=dict(quick=600, thorough=3000), workers=6),
        # as-built model of defect D14 (scheme without authenticator skipped inside an AND): must violate
        dict(module="MCSecurity", cfg="MCSecurity_asbuilt.cfg", expect_violation="PropertyHolds", timeout=300, workers=4),
    ],
    gen=dict(module="GenSecurity", cfg=dict(quick="GenSecurity_quick.cfg", thorough="GenSecurity_thorough.cfg"), timeout=900),
    level_text="Security.tla states C02 declaratively (DoneOK: admission only through a satisfied alternative accepted by the "
               "authorizer, principal/scopes from that alternative, anonymous only when no consulted scheme rejected, refusal with "
               "the rejecting scheme's error / 401 / the authorizer's error and nothing else runs, OR-completeness) next to a "
               "faithful step-by-step model of newSecureAPI / Context.Authorize / RouteAuthenticators.Authenticate / "
               "RouteAuthenticator.Authenticate (one action per authenticator call, evaluation order nondeterministic). TLC checks "
               "model |= property for every requirement list of <=2 (quick) / <=3 (thorough) alternatives over 3 schemes x 4^3 outcome "
               "vectors x registrations (all / all but one) x 4 authorizer modes x every order x 4 request variants, exports the "
               "same lattice as scripts (GenSecurity), and validates every request the driver sends through the real untyped API "
               "handler (every script, every evaluation order, otherwise-broken requests) against the declarative property.",
    level_note="bounded exhaustive at model level; the real code is bound by trace validation of the executed requests only "
               "(lattice of 2 schemes/<=2 alternatives in quick, 3 schemes/<=2 and 2 schemes/<=3 alternatives in thorough, "
               "plus seeded structures of up to 5 schemes and 4 alternatives); evaluation orders are set by permuting the "
               "router's RouteAuthenticator.Schemes; what the handler can read is observed on the request handed to the "
               "API's error responder; scripted authenticators/authorizer trusted",
    design_ref="DESIGN.md 4.2",
    driver="c02",
    trace=dict(module="TraceSecurity", cfg="TraceSecurity.cfg"),
    rule="case = one API (requirement structure declared globally / per operation / overriding a global decoy, registrations, "
         "authorizer mode, authorizer registered before NewContext / after it / replacing a permissive one, always before the "
         "handler is built) built once; requests = outcome vector x evaluation order x variant (good, missing required query "
         "parameter, unsupported Content-Type, unacceptable Accept, form body with fields named like the query api keys, valid / invalid). Exhaustive part: every script of the GenSecurity lattice "
         "in every evaluation order; plus 5 hand-written corner structures x all outcome vectors, and seeded random "
         "structures (400 / 4000). Non-trivial: at least one authenticator was consulted in the case; distinct by hash of the case.",
    assumptions=COMMON_ASSUME + [
        "an authenticator's outcome for a request does not change between two consultations within the same request",
        "'yielding a non-nil principal' is read per alternative (LastPrincipalWins): an alternative in which one scheme accepts "
        "with a nil principal may or may not admit, depending on the evaluation order",
        "'a scheme rejected credentials' is read as 'a consulted scheme did' (ShortCircuit)",
    ],
    exhaustive=True,
)
