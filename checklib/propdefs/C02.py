from common import COMMON_ASSUME

PROP = dict(
    module="Security",
    mc=[
        dict(module="MCSecurity", cfg=dict(quick="MCSecurity_quick.cfg", thorough="MCSecurity_thorough.cfg"),
             timeout=dict(quick=600, thorough=3000), workers=6),
        # as-built model of defect D14 (scheme without authenticator skipped inside an AND): must violate
        dict(module="MCSecurity", cfg="MCSecurity_asbuilt.cfg", expect_violation="PropertyHolds", timeout=300, workers=4),
    ],
    gen=dict(module="GenSecurity", cfg=dict(quick="GenSecurity_quick.cfg", thorough="GenSecurity_thorough.cfg"), timeout=900),
    level_text="placeholder",
    level_note="placeholder",
    design_ref="DESIGN.md 4.2",
    driver="c02",
    trace=dict(module="TraceSecurity", cfg="TraceSecurity.cfg"),
    rule="placeholder",
    assumptions=COMMON_ASSUME,
    exhaustive=True,
)
