from common import COMMON_ASSUME

PROP = dict(
    module="Respond",
    mc=[
        dict(module="MCRespond", cfg=dict(quick="MCRespond_quick.cfg", thorough="MCRespond_thorough.cfg"),
             timeout=dict(quick=600, thorough=1800), workers=6),
        # model of the tree before the D7 fix (producer looked up by the raw format): must violate (non-vacuity)
        dict(module="MCRespond", cfg="MCRespond_asbuilt.cfg", expect_violation="PropertyHolds", timeout=300, workers=4),
    ],
    level_text="Respond.tla states C08 declaratively (AllowedValue / AllowedResponder / AllowedError: status = lowest declared 2xx, "
               "Content-Type = a negotiated offer exactly as declared, body written once by the producer registered for that "
               "offer's media type with parameters ignored, no body for HEAD/204, the Responder handed that same producer, "
               "errors handed to the API's error responder with the negotiated or JSON content type, basic-auth challenge with "
               "the configured realm) next to a branch-by-branch model of Context.Respond with ResponseFormat memoisation, the "
               "offers reordering, the producer table of AddRoute, SuccessResponse and a transcription of the negotiation loop. "
               "TLC checks model |= property for every produces set of <=2 (quick) / <=3 (thorough) entries of a 5-entry pool in "
               "every order x 2 defaults x 3 registries x 7 declared-code sets x 10 Accept shapes x 4 methods x 4 outcomes x "
               "memoised/unmemoised format, and validates every response the driver obtains from the real code through the "
               "untyped handler and through the generated-server call sequence.",
    level_note="bounded exhaustive at model level; the real code is bound by trace validation of the executed requests only; "
               "Accept headers are rendered from abstract ranges (C07 covers the header grammar); ties between equally "
               "acceptable declared offers are left open (the router holds produces in map order), the API default type only wins when "
               "strictly better; the order of route.Produces is set "
               "through the slice the looked-up route shares with the router; instrumented producers / Responder / error "
               "responder trusted",
    design_ref="DESIGN.md 4.8",
    driver="c08",
    trace=dict(module="TraceRespond", cfg="TraceRespond.cfg"),
    rule="case = one API (error responder assigned before NewContext / after it / replacing an earlier one; produces set declared on the operation or globally, held by the router in a given order, API default "
         "producer, registered producers, declared response codes, optional basic authentication with a realm); event = one "
         "request (entry point untyped handler / generated-style RouteInfo+Authorize+BindValidRequest+Respond, method, Accept, "
         "handler outcome value / nil / Responder / error of class API, plain, composite; unknown path, wrong method, "
         "unacceptable Accept, missing or wrong credentials). Exhaustive part: every produces set of <=2/<=3 pool entries in "
         "every order x default x registry, declared codes rotating (2 of 7 sets per API, 4 in thorough), each with 10 Accept shapes x 4 outcomes x "
         "2 (4) methods x 2 entry points, every method declaring its own codes, half of the APIs without operation ids, all "
         "requests of a case served in sequence by one Context; secured APIs: basic alone, basic OR api key in both orders, "
         "basic AND api key (4 realms x 3 authenticator kinds x credentials of both schemes); APIs without default producer "
         "(no produces: HEAD/204 only; text-only). Seeded: "
         "300/3000 larger APIs with other parameter spellings and random Accept headers. Non-trivial: a producer was called "
         "or a Responder was handed one in the case.",
    assumptions=COMMON_ASSUME + [
        "whenever a body is written or a Responder served, the negotiated or the default type has a registered producer "
        "(Respond panics otherwise); HEAD requests and 204 responses are also driven on APIs without any producer",
        "among equally acceptable offers the API's default type yields to the declared types (DefaultOfferLast)",
        "a negotiated type without registered producer is written by the default producer (what the code does; statement silent)",
        "an operation declaring no 2xx response answers 500 through the error responder (what the code does; statement silent)",
    ],
    exhaustive=True,
)
