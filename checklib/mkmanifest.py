#!/usr/bin/env python3
"""Regenerate MANIFEST.json from props.py (single source of truth)."""
import json
import os
import sys

sys.path.insert(0, os.path.dirname(os.path.abspath(__file__)))
from props import PROPS, NOT_APPLICABLE, HOOK_COMMITS, READY  # noqa: E402

VERIF = os.path.dirname(os.path.dirname(os.path.abspath(__file__)))
ids = [json.loads(l)["id"] for l in open(os.path.join(VERIF, "properties.jsonl"))]
checks = []
for pid in ids:
    if pid not in PROPS or pid not in READY:
        continue
    p = PROPS[pid]
    checks.append(dict(
        property_id=pid,
        quick_cmd=f"./check {pid} --tier quick",
        thorough_cmd=f"./check {pid} --tier thorough",
        evidence_file=f"/verif/evidence/{pid}.json",
        replay_cmd_template=f"./check {pid} --replay {{path}}",
        engine="tla-mbv",
        level_claimed=dict(category="model_checking", text=p["level_text"], design_ref=p.get("design_ref", "")),
        level_note=p["level_note"],
        technique=p.get("technique", "TLA+ spec model-checked with TLC; traces of the real code validated against the spec by TLC"),
    ))
na = [dict(property_id=i, reason=NOT_APPLICABLE.get(i, "check not built yet in this session; planned (see DESIGN.md)"))
      for i in ids if i not in PROPS or i not in READY]
m = dict(
    version=1,
    setup_cmd="cd /verif/harness && cp /repo/go.sum . && GOFLAGS=-mod=mod GOPROXY=off GOSUMDB=off GOTOOLCHAIN=local go build -tags verif -o /dev/null ./cmd/...",
    hooks=dict(guard="verif", enable="go build -tags verif (harness module with replace github.com/go-openapi/runtime => /repo)",
               baseline_off_cmd="cd /repo && go test -json -vet=off -count=1 -timeout 25m ./...",
               source_commits=HOOK_COMMITS, add_only=True),
    engines=[dict(name="tla-mbv", path="/verif/check", serves_properties=[c["property_id"] for c in checks],
                  kind_free_text="TLA+ specifications (specs/*.tla) model-checked with TLC; Go drivers (harness/) execute the real "
                                 "code and record ndjson traces; TLC validates every trace against the same specification "
                                 "(Trace<Module>.tla via TraceCommon.tla); TLC-exported scripts/schedules are replayed into the real code")],
    checks=checks,
    not_applicable=na,
    notes="Exit 2 of a check = infrastructure failure (no verdict). known_findings.json lists repaired/open defects.",
)
json.dump(m, open(os.path.join(VERIF, "MANIFEST.json"), "w"), indent=1)
print(f"{len(checks)} checks, {len(na)} not_applicable")
