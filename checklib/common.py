"""Shared constants for property definitions."""

COMMON_ASSUME = [
    "TLC 1.8 and the CommunityModules Json/IOUtils overrides are correct",
    "the Go driver's generators/renderers (abstract case -> concrete input) and instrumented callbacks are correct",
    "nothing is claimed about code paths the driver never executes; exhaustive claims are bounded by the stated constants",
]
