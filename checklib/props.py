"""Per-property configuration: one file per property under propdefs/ (PROP = dict(...))."""
import glob
import importlib.util
import os
import sys

_here = os.path.dirname(os.path.abspath(__file__))
sys.path.insert(0, _here)

# commits in /repo that add build-tag-guarded hooks (MANIFEST.hooks.source_commits)
HOOK_COMMITS = ["350c2fb"]

# properties whose check is finished and reviewed: only these are listed as checks in MANIFEST.json
READY = ["C01", "C02", "C03", "C04", "C05", "C06", "C07", "C08", "C09", "C10", "C11", "C12", "C13", "C14", "C15", "C16", "C17", "C18", "C19", "C20"]

# properties deliberately not claimed (id -> reason); anything else missing from PROPS is "not built yet"
NOT_APPLICABLE = {}

PROPS = {}
for _f in sorted(glob.glob(os.path.join(_here, "propdefs", "[CG]*.py"))):
    _pid = os.path.basename(_f)[:-3]
    _spec = importlib.util.spec_from_file_location("propdef_" + _pid, _f)
    _m = importlib.util.module_from_spec(_spec)
    _spec.loader.exec_module(_m)
    PROPS[_pid] = _m.PROP
