SPECIFICATION Spec
CONSTANTS
  Variant = "otelfirstscheme"
  Atoms <- AtomsAll
  MaxVal = 1
  MaxVal2 = 1
  MaxSegs = 2
  LitPool <- LitEscaped
  Schemes <- SchemesAll
  MaxSchemes = 2
  MaxHistory = 2
  MaxBaseQ = 2
  MaxPatQ = 1
INVARIANTS PathHolds OrderIndependent QueryHolds SchemeHolds RawQueryRoundTrip
CHECK_DEADLOCK FALSE
