SPECIFICATION Spec
CONSTANTS
  SharedField = "none"
  NReqs = 2
  MaxSwitches = 2
  Mode = "good"
POSTCONDITION Written
CHECK_DEADLOCK FALSE
