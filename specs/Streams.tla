------------------------------- MODULE Streams -------------------------------
(***************************************************************************)
(* Byte streams of go-openapi/runtime (root package).                      *)
(*                                                                         *)
(* Section 1  scripted streams: the environment.  A reader is a script     *)
(*            (content cut into chunks, zero-length reads allowed, a       *)
(*            terminal condition eof/err delivered alone or together with  *)
(*            the last data chunk) with a STICKY terminal condition.       *)
(*            Re-used by Codecs (C15).                                     *)
(* Section 2  bufio.Reader as used by request.go (Peek(1) / Read).         *)
(* Section 3  PeekBody, faithful model of request.go: HasBody,             *)
(*            newPeekingReader, peekingReader.HasContent/Read/Close, with  *)
(*            nested wrapper layers when HasBody is called again.          *)
(*            Step(s, a) is the state machine.                             *)
(* Section 4  PeekBody, the property C17 stated declaratively over the     *)
(*            caller-visible history only (ObsAllowed / AbsNext): nothing  *)
(*            is said about wrappers or buffers.                           *)
(* MCStreams checks  Section 3 |= Section 4  plus the state invariants     *)
(* (NothingLost, DrainDelivers); TraceStreams checks every action of the   *)
(* real code against Section 4; TraceStreamsStrict checks that Section 3   *)
(* predicts the real code exactly (faithfulness of the model).             *)
(***************************************************************************)
EXTENDS Integers, Sequences, FiniteSets

CONSTANTS BufSize,          \* len(b.buf) of bufio.NewReader: 4096 in the code; small in MC so that
                            \* the "large read bypasses the buffer" branch is explored
          MaxEmptyReads,    \* bufio's maxConsecutiveEmptyReads (100)
          NilCloseGuarded   \* TRUE: (*peekingReader)(nil).Close() returns (normative, after the D12 fix)
                            \* FALSE: as-built, nil pointer dereference

Min(a, b) == IF a < b THEN a ELSE b
Take(s, n) == SubSeq(s, 1, n)
Drop(s, n) == SubSeq(s, n + 1, Len(s))

RECURSIVE SumSeq(_)
SumSeq(s) == IF s = <<>> THEN 0 ELSE Head(s) + SumSeq(Tail(s))

ErrClasses == {"none", "eof", "err", "ueof", "closed", "already", "noprogress", "cerr", "other"}

(***************************************************************************)
(* Section 1: scripted reader.                                             *)
(*   script  sc = [content, chunks, term, withData]                        *)
(*   state   rd = [pos, inChunk, off, closed, closes, reads]               *)
(* A Read with a buffer smaller than the current chunk delivers a part of  *)
(* it; the terminal condition accompanies the last part of the last chunk  *)
(* iff withData.  After the last chunk every Read returns (0, term):       *)
(* sticky.  After Close every Read returns (0, "closed") like an           *)
(* http body.  Besides the sticky terminal condition a script may carry    *)
(* one-shot conditions in the middle (conds, see below).                   *)
(***************************************************************************)
(* Optional script fields (absent = none): conds[i] in {"none","eof","err"}  *)
(* is a ONE-SHOT condition returned together with the last part of chunk i  *)
(* (alone if the chunk is empty) and never repeated: the next Read goes on  *)
(* with chunk i+1.  closeErr: Close returns an error (the stream is closed  *)
(* nevertheless).                                                           *)
CondAt(sc, i) == IF "conds" \in DOMAIN sc THEN sc.conds[i] ELSE "none"
CloseFails(sc) == IF "closeErr" \in DOMAIN sc THEN sc.closeErr ELSE FALSE

WellFormedScript(sc) ==
  /\ SumSeq(sc.chunks) = Len(sc.content)
  /\ sc.term \in {"eof", "err"}
  /\ sc.withData => (Len(sc.chunks) > 0 /\ sc.chunks[Len(sc.chunks)] > 0)
  /\ "conds" \in DOMAIN sc => /\ Len(sc.conds) = Len(sc.chunks)
                               /\ \A i \in 1..Len(sc.conds) : sc.conds[i] \in {"none", "eof", "err"}
                               /\ sc.withData => sc.conds[Len(sc.conds)] = "none"    \* one condition per Read

RdInit == [pos |-> 1, inChunk |-> 0, off |-> 0, closed |-> FALSE, closes |-> 0, reads |-> 0]

RdRead(sc, rd, k) ==
  LET rd1 == [rd EXCEPT !.reads = @ + 1] IN
  IF rd.closed THEN [n |-> 0, bytes |-> <<>>, err |-> "closed", rd |-> rd1]
  ELSE IF rd.pos > Len(sc.chunks) THEN [n |-> 0, bytes |-> <<>>, err |-> sc.term, rd |-> rd1]
  ELSE IF k = 0 THEN [n |-> 0, bytes |-> <<>>, err |-> "none", rd |-> rd1]
  ELSE LET c    == sc.chunks[rd.pos] - rd.inChunk
           m    == Min(c, k)
           done == m = c
           last == rd.pos = Len(sc.chunks)
       IN [n |-> m, bytes |-> SubSeq(sc.content, rd.off + 1, rd.off + m),
           err |-> IF done /\ last /\ sc.withData THEN sc.term
                   ELSE IF done THEN CondAt(sc, rd.pos) ELSE "none",
           rd |-> [rd1 EXCEPT !.off = @ + m,
                              !.pos = IF done THEN @ + 1 ELSE @,
                              !.inChunk = IF done THEN 0 ELSE @ + m]]

RdClose(rd) == [rd EXCEPT !.closed = TRUE, !.closes = @ + 1]

(* the one-shot conditions of a script as the caller of the raw stream     *)
(* meets them: <<[pos, kind]>>, pos = number of bytes delivered before     *)
RECURSIVE CondListFrom(_, _, _)
CondListFrom(sc, i, off) ==
  IF i > Len(sc.chunks) THEN <<>>
  ELSE LET o == off + sc.chunks[i] IN
       (IF CondAt(sc, i) # "none" THEN <<[pos |-> o, kind |-> CondAt(sc, i)]>> ELSE <<>>) \o CondListFrom(sc, i + 1, o)
CondList(sc) == CondListFrom(sc, 1, 0)

Remaining(sc, rd) == Drop(sc.content, rd.off)

(***************************************************************************)
(* Section 2 + 3: wrapper layers.                                          *)
(*   layer = [kind |-> "peek" | "nilpeek", buf, err, closed]               *)
(*   "nilpeek" is the typed-nil *peekingReader that HasBody stores in      *)
(*   r.Body when r.Body was nil.  layers[i] reads from layers[i-1];        *)
(*   layer 0 is the scripted reader.                                       *)
(* Every operator returns a record carrying the updated layers and rd.     *)
(***************************************************************************)
NewLayer == [kind |-> "peek", buf |-> <<>>, err |-> "none", closed |-> FALSE]
NilLayer == [kind |-> "nilpeek", buf |-> <<>>, err |-> "none", closed |-> FALSE]

R(n, bytes, err, layers, rd) == [n |-> n, bytes |-> bytes, err |-> err, layers |-> layers, rd |-> rd]

(* peekingReader.Read -> bufio.Reader.Read on layer i with a buffer of k bytes *)
RECURSIVE LayerRead(_, _, _, _, _)
LayerRead(sc, layers, rd, i, k) ==
  IF i = 0 THEN LET r == RdRead(sc, rd, k) IN R(r.n, r.bytes, r.err, layers, r.rd)
  ELSE LET L == layers[i] IN
    IF L.kind = "nilpeek" THEN R(0, <<>>, "eof", layers, rd)            \* if p == nil { return 0, io.EOF }
    ELSE IF L.closed THEN R(0, <<>>, "ueof", layers, rd)                \* if p.underlying == nil { ErrUnexpectedEOF }
    ELSE IF k = 0 THEN                                                  \* bufio: n == 0
      IF L.buf # <<>> THEN R(0, <<>>, "none", layers, rd)
      ELSE R(0, <<>>, L.err, [layers EXCEPT ![i].err = "none"], rd)     \* return 0, b.readErr()
    ELSE IF L.buf = <<>> THEN
      IF L.err # "none" THEN R(0, <<>>, L.err, [layers EXCEPT ![i].err = "none"], rd)
      ELSE IF k >= BufSize THEN                                         \* large read, empty buffer: read directly into p
        LayerRead(sc, layers, rd, i - 1, k)                             \* n, b.err = b.rd.Read(p); return n, b.readErr()
      ELSE LET r == LayerRead(sc, layers, rd, i - 1, BufSize) IN        \* one read into b.buf
        IF r.n = 0 THEN R(0, <<>>, r.err, r.layers, r.rd)               \* return 0, b.readErr()
        ELSE LET m == Min(k, r.n) IN
             R(m, Take(r.bytes, m), "none",
               [r.layers EXCEPT ![i].buf = Drop(r.bytes, m), ![i].err = r.err], r.rd)
    ELSE LET m == Min(k, Len(L.buf)) IN                                 \* copy as much as we can
         R(m, Take(L.buf, m), "none", [layers EXCEPT ![i].buf = Drop(L.buf, m)], rd)

(* bufio.Reader.fill on an empty buffer: read until data or an error,      *)
(* at most MaxEmptyReads times                                             *)
RECURSIVE Fill(_, _, _, _, _)
Fill(sc, layers, rd, i, fuel) ==
  IF fuel = 0 THEN [layers |-> [layers EXCEPT ![i].err = "noprogress"], rd |-> rd]
  ELSE LET r == LayerRead(sc, layers, rd, i - 1, BufSize) IN
       IF r.err # "none" \/ r.n > 0
       THEN [layers |-> [r.layers EXCEPT ![i].buf = r.bytes, ![i].err = r.err], rd |-> r.rd]
       ELSE Fill(sc, r.layers, r.rd, i, fuel - 1)

(* peekingReader.HasContent on layer i *)
HasContent(sc, layers, rd, i) ==
  LET L == layers[i] IN
  IF L.kind = "nilpeek" THEN [b |-> FALSE, layers |-> layers, rd |-> rd]
  ELSE IF L.closed THEN [b |-> FALSE, layers |-> layers, rd |-> rd]     \* unreachable: only fresh layers are probed
  ELSE IF L.buf # <<>> THEN [b |-> TRUE, layers |-> layers, rd |-> rd]  \* Buffered() > 0
  ELSE LET f == IF L.err = "none" THEN Fill(sc, layers, rd, i, MaxEmptyReads)
                ELSE [layers |-> layers, rd |-> rd]
       IN IF f.layers[i].buf # <<>> THEN [b |-> TRUE, layers |-> f.layers, rd |-> f.rd]
          ELSE [b |-> FALSE, layers |-> [f.layers EXCEPT ![i].err = "none"], rd |-> f.rd]  \* Peek's readErr() consumes it

(* peekingReader.Close on layer i -> [err, panic, layers, rd] *)
RECURSIVE LayerClose(_, _, _, _)
LayerClose(layers, rd, i, closeFails) ==
  IF i = 0 THEN [err |-> IF closeFails THEN "cerr" ELSE "none", panic |-> FALSE, layers |-> layers, rd |-> RdClose(rd)]
  ELSE LET L == layers[i] IN
    IF L.kind = "nilpeek"
    THEN [err |-> "none", panic |-> ~NilCloseGuarded, layers |-> layers, rd |-> rd]
    ELSE IF L.closed THEN [err |-> "already", panic |-> FALSE, layers |-> layers, rd |-> rd]
    ELSE LayerClose([layers EXCEPT ![i].closed = TRUE, ![i].buf = <<>>, ![i].err = "none"], rd, i - 1, closeFails)
         \* p.underlying = nil FIRST, then return p.orig.Close(): closed whatever the stream's Close returns

(***************************************************************************)
(* Section 4: the property C17 over the caller-visible history.            *)
(*   p = [orig, term, conds, declared, bodyNil, delivered, everClosed,     *)
(*        probed,                                                          *)
(*        rawCloses, wrapCloses, lastHas]                                  *)
(*   a = [a |-> "has" | "read" | "close" | "drain", k]                     *)
(*   o = [b, n, bytes, err, panic, uc, ur]   (uc/ur: Close/Read calls      *)
(*        seen by the underlying stream so far)                            *)
(***************************************************************************)
AbsInit(sc, declared, bodyNil) ==
  [orig |-> sc.content, term |-> sc.term, conds |-> CondList(sc), declared |-> declared, bodyNil |-> bodyNil,
   delivered |-> 0, everClosed |-> FALSE, probed |-> FALSE,
   rawCloses |-> 0, wrapCloses |-> 0, lastHas |-> <<>>]

(* The original = the bytes, interleaved with the conditions the raw stream *)
(* reports: one-shot ones (p.conds, those not met yet) at their positions   *)
(* and the sticky terminal one after the last byte.  The next condition:    *)
Limit(p)    == IF p.conds # <<>> THEN p.conds[1].pos ELSE Len(p.orig)
CondKind(p) == IF p.conds # <<>> THEN p.conds[1].kind ELSE p.term
ConsumeCond(p) == IF p.conds # <<>> THEN Tail(p.conds) ELSE p.conds      \* a one-shot condition is met once

(* "at least one byte can be read" (before the stream reports a condition) *)
CanRead(p) == ~p.bodyNil /\ ~p.everClosed /\ p.delivered < Limit(p)

(* The answer is a function of the declared length and of the stream only:  *)
(* the request METHOD (GET, HEAD, POST, ... in any letter case) is not a    *)
(* parameter - the driver varies it over every case.                        *)
HasAnswer(p) == p.declared = "pos" \/ (p.declared = "absent" /\ CanRead(p))

(* PeekSwallowsCondition (named deviation, what bufio.Peek does): a probing *)
(* HasBody issued exactly where a ONE-SHOT condition is due (all bytes      *)
(* before it delivered) answers FALSE and uses that condition up - the      *)
(* error Peek got is not kept.  A sticky condition is simply met again.     *)
Swallows(p) == /\ p.declared = "absent" /\ ~p.bodyNil /\ ~p.everClosed
               /\ p.conds # <<>> /\ p.conds[1].pos = p.delivered

(* Close calls issued before any probe reach the stream directly (the      *)
(* caller's own business); of the Close calls issued after a probe exactly *)
(* the first reaches it.                                                   *)
Closes(raw, wrap) == raw + (IF wrap >= 1 THEN 1 ELSE 0)
ExpectedCloses(p) == IF p.bodyNil THEN 0 ELSE Closes(p.rawCloses, p.wrapCloses)

(* The caller cannot invoke methods on a nil Body: Read/Close/drain exist  *)
(* only once Body is non-nil (a stream, or the wrapper HasBody installed). *)
BodyPresent(p) == ~p.bodyNil \/ p.probed

ActEnabled(p, a) == a.a = "has" \/ BodyPresent(p)

ReadOK(p, k, o) ==
  IF p.everClosed
  THEN /\ o.n = 0 /\ o.bytes = <<>>                    \* never stale data ...
       /\ (k > 0 => o.err # "none")                    \* ... and the read fails (ZeroLenReadAfterClose: k = 0 may return nil)
  ELSE /\ o.n <= k /\ o.n = Len(o.bytes)
       /\ p.delivered + o.n <= Limit(p)                                  \* never past a condition not reported yet
       /\ o.bytes = SubSeq(p.orig, p.delivered + 1, p.delivered + o.n)   \* next bytes, in order, nothing fabricated
       /\ (o.err # "none" => /\ p.delivered + o.n = Limit(p)            \* a condition is reported at its position ...
                             /\ o.err = CondKind(p))                      \* ... and it is the original one

(* drain = Read(k) repeated until an error is returned *)
DrainOK(p, k, o) ==
  IF p.everClosed THEN o.n = 0 /\ o.bytes = <<>> /\ o.err # "none"
  ELSE /\ o.bytes = SubSeq(p.orig, p.delivered + 1, Limit(p))
       /\ o.err = CondKind(p)

ObsAllowed(p, a, o) ==
  /\ ~o.panic
  /\ CASE a.a = "has"   -> /\ o.b = HasAnswer(p)
                           /\ (p.lastHas # <<>> => o.b = p.lastHas[1])
                           /\ o.uc = ExpectedCloses(p)
       [] a.a = "read"  -> ReadOK(p, a.k, o) /\ o.uc = ExpectedCloses(p)
       [] a.a = "drain" -> DrainOK(p, a.k, o) /\ o.uc = ExpectedCloses(p)
       [] a.a = "close" -> o.uc = (IF p.bodyNil THEN 0
                                   ELSE IF p.probed THEN Closes(p.rawCloses, p.wrapCloses + 1)
                                   ELSE Closes(p.rawCloses + 1, p.wrapCloses))
       [] OTHER -> FALSE

Why(p, a, o) ==
  IF o.panic THEN "panic"
  ELSE CASE a.a = "has" -> IF o.b # HasAnswer(p) THEN "hasbody-answer"
                           ELSE IF p.lastHas # <<>> /\ o.b # p.lastHas[1] THEN "hasbody-repeat-differs"
                           ELSE "hasbody-closed-the-stream"
         [] a.a = "read" -> IF o.uc # ExpectedCloses(p) THEN "close-count"
                            ELSE IF p.everClosed THEN "read-after-close"
                            ELSE IF ~(o.n <= a.k /\ o.n = Len(o.bytes) /\ p.delivered + o.n <= Limit(p)
                                      /\ o.bytes = SubSeq(p.orig, p.delivered + 1, p.delivered + o.n))
                                 THEN "bytes-lost-reordered-or-fabricated"
                            ELSE "terminal-condition"
         [] a.a = "drain" -> IF o.uc # ExpectedCloses(p) THEN "close-count"
                             ELSE IF p.everClosed THEN "read-after-close"
                             ELSE IF o.bytes # SubSeq(p.orig, p.delivered + 1, Limit(p)) THEN "bytes-lost-reordered-or-fabricated"
                             ELSE "terminal-condition"
         [] a.a = "close" -> "close-count"
         [] OTHER -> "unknown-action"

AbsNext(p, a, o) ==
  CASE a.a = "has"   -> [p EXCEPT !.lastHas = IF Swallows(p) THEN <<>> ELSE <<o.b>>,   \* asking again may now differ
                                  !.conds = IF Swallows(p) THEN Tail(@) ELSE @,
                                  !.probed = @ \/ p.declared = "absent"]
    [] a.a = "read"  -> [p EXCEPT !.lastHas = <<>>, !.delivered = @ + o.n,
                                  !.conds = IF ~p.everClosed /\ o.err # "none" THEN ConsumeCond(p) ELSE @]
    [] a.a = "drain" -> [p EXCEPT !.lastHas = <<>>, !.delivered = @ + Len(o.bytes),
                                  !.conds = IF ~p.everClosed /\ o.err # "none" THEN ConsumeCond(p) ELSE @]
    [] a.a = "close" -> [p EXCEPT !.lastHas = <<>>, !.everClosed = TRUE,
                                  !.rawCloses = IF p.probed THEN @ ELSE @ + 1,
                                  !.wrapCloses = IF p.probed THEN @ + 1 ELSE @]

(***************************************************************************)
(* Section 3 (continued): the state machine of one request.                *)
(*   s = [sc, declared, bodyNil, rd, layers, p, ret, panicked]             *)
(*   declared: "pos"  r.ContentLength > 0                                  *)
(*             "zero" Content-Length header present, ContentLength <= 0    *)
(*             "absent" neither                                            *)
(***************************************************************************)
Obs(b, n, bytes, err, panic, rd) ==
  [b |-> b, n |-> n, bytes |-> bytes, err |-> err, panic |-> panic, uc |-> rd.closes, ur |-> rd.reads]

NoObs == [b |-> FALSE, n |-> 0, bytes |-> <<>>, err |-> "none", panic |-> FALSE, uc |-> 0, ur |-> 0]

InitState(sc, declared, bodyNil) ==
  [sc |-> sc, declared |-> declared, bodyNil |-> bodyNil, rd |-> RdInit, layers |-> <<>>,
   p |-> AbsInit(sc, declared, bodyNil), ret |-> NoObs, panicked |-> FALSE]

Top(s) == Len(s.layers)

Enabled(s, a) == ~s.panicked /\ ActEnabled(s.p, a)

(* HasBody *)
DoHasBody(s) ==
  IF s.declared = "pos" THEN [s EXCEPT !.ret = Obs(TRUE, 0, <<>>, "none", FALSE, s.rd)]
  ELSE IF s.declared = "zero" THEN [s EXCEPT !.ret = Obs(FALSE, 0, <<>>, "none", FALSE, s.rd)]
  ELSE IF s.bodyNil /\ s.layers = <<>>                     \* newPeekingReader(nil) = nil; r.Body = typed nil
       THEN [s EXCEPT !.layers = <<NilLayer>>, !.ret = Obs(FALSE, 0, <<>>, "none", FALSE, s.rd)]
  ELSE LET ls == Append(s.layers, NewLayer)
           h  == HasContent(s.sc, ls, s.rd, Len(ls))
       IN [s EXCEPT !.layers = h.layers, !.rd = h.rd, !.ret = Obs(h.b, 0, <<>>, "none", FALSE, h.rd)]

(* r.Body.Read(make([]byte, k)) *)
DoRead(s, k) ==
  LET r == LayerRead(s.sc, s.layers, s.rd, Top(s), k)
  IN [s EXCEPT !.layers = r.layers, !.rd = r.rd, !.ret = Obs(FALSE, r.n, r.bytes, r.err, FALSE, r.rd)]

(* r.Body.Close() *)
DoClose(s) ==
  LET r == LayerClose(s.layers, s.rd, Top(s), CloseFails(s.sc))
  IN [s EXCEPT !.layers = r.layers, !.rd = r.rd, !.panicked = r.panic,
               !.ret = Obs(FALSE, 0, <<>>, r.err, r.panic, r.rd)]

(* drain: Read(k) until an error, at most cap reads *)
RECURSIVE DrainLoop(_, _, _, _)
DrainLoop(s, k, cap, acc) ==
  IF cap = 0 THEN [s EXCEPT !.ret = Obs(FALSE, Len(acc), acc, "none", FALSE, s.rd)]
  ELSE LET t == DoRead(s, k) IN
       IF t.ret.err # "none"
       THEN [t EXCEPT !.ret = Obs(FALSE, Len(acc) + t.ret.n, acc \o t.ret.bytes, t.ret.err, FALSE, t.rd)]
       ELSE DrainLoop(t, k, cap - 1, acc \o t.ret.bytes)

DrainCap(s) == Len(s.sc.chunks) + Len(s.sc.content) + 2 * Len(s.layers) + 4

DoDrain(s, k) == DrainLoop(s, k, DrainCap(s), <<>>)

Apply(s, a) ==
  CASE a.a = "has"   -> DoHasBody(s)
    [] a.a = "read"  -> DoRead(s, a.k)
    [] a.a = "close" -> DoClose(s)
    [] a.a = "drain" -> DoDrain(s, a.k)

Step(s, a) == LET t == Apply(s, a) IN [t EXCEPT !.p = AbsNext(s.p, a, t.ret)]

(***************************************************************************)
(* State invariants of the faithful model (the "why" behind Section 4).    *)
(***************************************************************************)
RECURSIVE BufferedFrom(_, _)
BufferedFrom(layers, i) == IF i = 0 THEN <<>> ELSE layers[i].buf \o BufferedFrom(layers, i - 1)
Buffered(s) == BufferedFrom(s.layers, Len(s.layers))

(* nothing lost, reordered or fabricated: what was delivered, what sits in *)
(* the wrappers and what the stream still holds is the original sequence   *)
NothingLost(s) ==
  ~s.p.everClosed =>
     Take(s.sc.content, s.p.delivered) \o Buffered(s) \o Remaining(s.sc, s.rd) = s.sc.content

(* from every state, reading on yields the rest and the original end       *)
DrainDelivers(s, k) ==
  (~s.panicked /\ BodyPresent(s.p) /\ k > 0) => ObsAllowed(s.p, [a |-> "drain", k |-> k], DoDrain(s, k).ret)

CloseCountOK(s) == s.rd.closes = ExpectedCloses(s.p)
=============================================================================
