--------------------------- MODULE MCClientDrain ---------------------------
(* KeepAliveTransport's body: every sequence of up to MaxReads Read sizes   *)
(* from Sizes followed by Close, over every small underlying stream.        *)
EXTENDS ClientCall

CONSTANTS Lens, Chunks, Sizes, MaxReads

VARIABLES u, d, nreads
vars == <<u, d, nreads>>

Streams == { [len |-> l, chunk |-> ch, eofWithData |-> e, failAt |-> f] :
               l \in Lens, ch \in Chunks, e \in BOOLEAN, f \in {-1} \cup Lens }

Init == u = [len |-> 0, chunk |-> 1, eofWithData |-> FALSE, failAt |-> -2] /\ d = DInit /\ nreads = 0

Pick  == u.failAt = -2 /\ \E x \in { y \in Streams : y.failAt <= y.len } : u' = x /\ UNCHANGED <<d, nreads>>
Read  == u.failAt # -2 /\ ~d.closed /\ nreads < MaxReads /\ \E n \in Sizes : d' = DRead(d, n, u) /\ nreads' = nreads + 1 /\ UNCHANGED u
Close == u.failAt # -2 /\ ~d.closed /\ d' = DClose(d, u) /\ UNCHANGED <<u, nreads>>

Next == Pick \/ Read \/ Close
Spec == Init /\ [][Next]_vars

InvDrained == DrainedAtClose(d)
\* reads pass the stream through unchanged: position never beyond the stop, end flag only at the stop
InvPos     == u.failAt # -2 => d.pos <= UStop(u) /\ (d.seen /\ ~ZeroLenReadSetsEOF => d.pos = UStop(u))
=============================================================================
