-------------------------- MODULE GenClientTracing --------------------------
(* TG: exports, as ndjson, (a) every termination script of the sequential   *)
(* model - flavor x every sequence of 1, 2 (and 3) Submits of one operation *)
(* value, each Submit = context kind x the stage at which the inner         *)
(* transport fails (or success) x status - and (b) every interleaving of    *)
(* the harness gates (params writer, RoundTrip, reader) of n callers, n in  *)
(* Ns, for replay on the real tracing transports.  Every exported sequence  *)
(* is first run through the model (RunCall): it returns and satisfies Prop. *)
EXTENDS ClientTracing, Json, IOUtils, SequencesExt

CONSTANTS Sts1, Sts2, Sts3, Ends3, Ns
VARIABLE x

S1 == CallScripts(Ctxs, Ends, Sts1)
S2 == CallScripts(Ctxs, Ends, Sts2)
S3 == CallScripts(Ctxs, Ends3, Sts3)
Seqs == { <<a>> : a \in S1 } \cup { <<a, b>> : a \in S2, b \in S2 } \cup { <<a, b, d>> : a \in S3, b \in S3, d \in S3 }
SeqCases == { [kind |-> "seq", flavor |-> f, calls |-> s] : f \in Flavors, s \in Seqs }

\* the model on an exported sequence: every call returns and its observation satisfies the property
RECURSIVE SeqOK(_, _, _, _)
SeqOK(E, c, g, s) ==
  s = <<>> \/ LET r == RunCall(E, 1, c, g, Head(s)) IN
              /\ r.c.pc = "returned" /\ r.c.sc = Head(s)
              /\ Prop(E.fl, Head(s), ObsOf(r.c, r.g, 1))
              /\ SeqOK(E, r.c, r.g, Tail(s))
ASSUME \A k \in SeqCases : SeqOK([fl |-> k.flavor, spare |-> FALSE], CInit, GInit, k.calls)

RECURSIVE Scheds(_, _)
Scheds(n, pos) ==
  IF \A i \in 1..n : pos[i] = 3 THEN { <<>> }
  ELSE UNION { { <<[caller |-> i, gate |-> GateOrder[pos[i] + 1]]>> \o s : s \in Scheds(n, [pos EXCEPT ![i] = @ + 1]) }
               : i \in { j \in 1..n : pos[j] < 3 } }
ConcCases == UNION { { [kind |-> "conc", n |-> n, gates |-> s] : s \in Scheds(n, [i \in 1..n |-> 0]) } : n \in Ns }
ASSUME \A r \in ConcCases : LegalGates(r.gates, [i \in 1..r.n |-> 0])

ASSUME ndJsonSerialize(IOEnv.OUT_FILE, SetToSeq(SeqCases) \o SetToSeq(ConcCases))
ASSUME PrintT(<<"scripts", Cardinality(SeqCases), "schedules", Cardinality(ConcCases)>>)

Init == x = 0
Next == UNCHANGED x
Spec == Init /\ [][Next]_x
=============================================================================
