SPECIFICATION Spec
CONSTANTS
  BufSize = 4096
  MaxEmptyReads = 100
  NilCloseGuarded = TRUE
  GuardTypedNil = TRUE
  CloseOnNilPayload = TRUE
  PooledBuffer = FALSE
  UEOFIsEnd = FALSE
  ZeroCopyBuffer = FALSE
  SeqReaders = {"script", "bytesbuffer", "bytesreader", "stringsreader"}
  SeqDeepReaders = {"script", "bytesbuffer"}
  MaxSeq = 3
  MaxContent = 4
  MaxChunks = 5
  MaxChunk = 4
INVARIANTS PropertyHolds
CHECK_DEADLOCK FALSE
