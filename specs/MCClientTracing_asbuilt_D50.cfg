SPECIFICATION Spec
CONSTANTS
  RestoresOp = FALSE
  ClientStatusRule = TRUE
  CopiesOpts = TRUE
  SharedSpanVar = FALSE
  MaxCalls = 2
  Statuses = {200, 404}
  Unassigned = {}
INVARIANTS InvOpClean
CHECK_DEADLOCK FALSE
