---- MODULE MCServePipeline_TTrace_1790885792 ----
EXTENDS MCServePipeline, Sequences, TLCExt, Toolbox, Naturals, TLC

_expression ==
    LET MCServePipeline_TEExpression == INSTANCE MCServePipeline_TEExpression
    IN MCServePipeline_TEExpression!expression
----

_trace ==
    LET MCServePipeline_TETrace == INSTANCE MCServePipeline_TETrace
    IN MCServePipeline_TETrace!trace
----

_inv ==
    ~(
        TLCGet("level") = Len(_TETrace)
        /\
        phase = ("run")
        /\
        s = ([in |-> <<[q |-> "bad", op |-> "opA", cs |-> "key", id |-> "i1", body |-> "b1", cu |-> "u1", rt |-> "ok", ctype |-> "json", accept |-> "json", h |-> "ok"], [q |-> "bad", op |-> "opC", cs |-> "tok", id |-> "i2", body |-> "b2", cu |-> "u2", rt |-> "ok", ctype |-> "text", accept |-> "text", h |-> "ok"]>>, pc |-> <<4, 5>>, stg |-> <<<<"route", "authcall", "alt", "principal", "ctype", "consumer", "format", "consume", "bound", "format", "respond", "done">>, <<"route", "authcall", "authcall", "alt", "principal", "format", "bound", "format", "respond", "done">>>>, mr |-> <<[alt |-> 0, params |-> "i1", consumer |-> "-"], [alt |-> 0, params |-> "i2", consumer |-> "-"]>>, cx |-> <<[scopes |-> <<>>, bid |-> "-", bbody |-> "-"], [scopes |-> <<>>, bid |-> "-", bbody |-> "-"]>>, sh |-> [alt |-> 1, params |-> "-", consumer |-> "-", bid |-> "-", bbody |-> "-"]])
        /\
        solo = (<<<<<<"/a/{id}", "i1">>, <<"key", "u1">>, <<"key">>, <<"key", "u1", "ska">>, <<"json">>, <<"json">>, <<"json">>, <<"json", "b1">>, <<"invalid">>, <<"json">>, <<"json">>, <<"422", "json", "err">>>>, <<<<"/c/{id}", "i2">>, <<"key", "-">>, <<"tok", "u2">>, <<"tok">>, <<"tok", "u2", "stc1", "stc2">>, <<"text">>, <<"invalid">>, <<"text">>, <<"text">>, <<"422", "json", "err">>>>>>)
    )
----

_init ==
    /\ phase = _TETrace[1].phase
    /\ s = _TETrace[1].s
    /\ solo = _TETrace[1].solo
----

_next ==
    /\ \E i,j \in DOMAIN _TETrace:
        /\ \/ /\ j = i + 1
              /\ i = TLCGet("level")
        /\ phase  = _TETrace[i].phase
        /\ phase' = _TETrace[j].phase
        /\ s  = _TETrace[i].s
        /\ s' = _TETrace[j].s
        /\ solo  = _TETrace[i].solo
        /\ solo' = _TETrace[j].solo

\* Uncomment the ASSUME below to write the states of the error trace
\* to the given file in Json format. Note that you can pass any tuple
\* to `JsonSerialize`. For example, a sub-sequence of _TETrace.
    \* ASSUME
    \*     LET J == INSTANCE Json
    \*         IN J!JsonSerialize("MCServePipeline_TTrace_1790885792.json", _TETrace)

=============================================================================

 Note that you can extract this module `MCServePipeline_TEExpression`
  to a dedicated file to reuse `expression` (the module in the 
  dedicated `MCServePipeline_TEExpression.tla` file takes precedence 
  over the module `MCServePipeline_TEExpression` below).

---- MODULE MCServePipeline_TEExpression ----
EXTENDS MCServePipeline, Sequences, TLCExt, Toolbox, Naturals, TLC

expression == 
    [
        \* To hide variables of the `MCServePipeline` spec from the error trace,
        \* remove the variables below.  The trace will be written in the order
        \* of the fields of this record.
        phase |-> phase
        ,s |-> s
        ,solo |-> solo
        
        \* Put additional constant-, state-, and action-level expressions here:
        \* ,_stateNumber |-> _TEPosition
        \* ,_phaseUnchanged |-> phase = phase'
        
        \* Format the `phase` variable as Json value.
        \* ,_phaseJson |->
        \*     LET J == INSTANCE Json
        \*     IN J!ToJson(phase)
        
        \* Lastly, you may build expressions over arbitrary sets of states by
        \* leveraging the _TETrace operator.  For example, this is how to
        \* count the number of times a spec variable changed up to the current
        \* state in the trace.
        \* ,_phaseModCount |->
        \*     LET F[s \in DOMAIN _TETrace] ==
        \*         IF s = 1 THEN 0
        \*         ELSE IF _TETrace[s].phase # _TETrace[s-1].phase
        \*             THEN 1 + F[s-1] ELSE F[s-1]
        \*     IN F[_TEPosition - 1]
    ]

=============================================================================



Parsing and semantic processing can take forever if the trace below is long.
 In this case, it is advised to uncomment the module below to deserialize the
 trace from a generated binary file.

\*
\*---- MODULE MCServePipeline_TETrace ----
\*EXTENDS MCServePipeline, IOUtils, TLC
\*
\*trace == IODeserialize("MCServePipeline_TTrace_1790885792.bin", TRUE)
\*
\*=============================================================================
\*

---- MODULE MCServePipeline_TETrace ----
EXTENDS MCServePipeline, TLC

trace == 
    <<
    ([phase |-> "build",s |-> [in |-> <<>>, pc |-> <<>>, stg |-> <<>>, mr |-> <<>>, cx |-> <<>>, sh |-> [alt |-> 0, params |-> "-", consumer |-> "-", bid |-> "-", bbody |-> "-"]],solo |-> <<>>]),
    ([phase |-> "build",s |-> [in |-> <<[q |-> "bad", op |-> "opA", cs |-> "key", id |-> "i1", body |-> "b1", cu |-> "u1", rt |-> "ok", ctype |-> "json", accept |-> "json", h |-> "ok"]>>, pc |-> <<1>>, stg |-> <<<<"route", "authcall", "alt", "principal", "ctype", "consumer", "format", "consume", "bound", "format", "respond", "done">>>>, mr |-> <<[alt |-> 0, params |-> "-", consumer |-> "-"]>>, cx |-> <<[scopes |-> <<>>, bid |-> "-", bbody |-> "-"]>>, sh |-> [alt |-> 0, params |-> "-", consumer |-> "-", bid |-> "-", bbody |-> "-"]],solo |-> <<<<<<"/a/{id}", "i1">>, <<"key", "u1">>, <<"key">>, <<"key", "u1", "ska">>, <<"json">>, <<"json">>, <<"json">>, <<"json", "b1">>, <<"invalid">>, <<"json">>, <<"json">>, <<"422", "json", "err">>>>>>]),
    ([phase |-> "build",s |-> [in |-> <<[q |-> "bad", op |-> "opA", cs |-> "key", id |-> "i1", body |-> "b1", cu |-> "u1", rt |-> "ok", ctype |-> "json", accept |-> "json", h |-> "ok"], [q |-> "bad", op |-> "opC", cs |-> "tok", id |-> "i2", body |-> "b2", cu |-> "u2", rt |-> "ok", ctype |-> "text", accept |-> "text", h |-> "ok"]>>, pc |-> <<1, 1>>, stg |-> <<<<"route", "authcall", "alt", "principal", "ctype", "consumer", "format", "consume", "bound", "format", "respond", "done">>, <<"route", "authcall", "authcall", "alt", "principal", "format", "bound", "format", "respond", "done">>>>, mr |-> <<[alt |-> 0, params |-> "-", consumer |-> "-"], [alt |-> 0, params |-> "-", consumer |-> "-"]>>, cx |-> <<[scopes |-> <<>>, bid |-> "-", bbody |-> "-"], [scopes |-> <<>>, bid |-> "-", bbody |-> "-"]>>, sh |-> [alt |-> 0, params |-> "-", consumer |-> "-", bid |-> "-", bbody |-> "-"]],solo |-> <<<<<<"/a/{id}", "i1">>, <<"key", "u1">>, <<"key">>, <<"key", "u1", "ska">>, <<"json">>, <<"json">>, <<"json">>, <<"json", "b1">>, <<"invalid">>, <<"json">>, <<"json">>, <<"422", "json", "err">>>>, <<<<"/c/{id}", "i2">>, <<"key", "-">>, <<"tok", "u2">>, <<"tok">>, <<"tok", "u2", "stc1", "stc2">>, <<"text">>, <<"invalid">>, <<"text">>, <<"text">>, <<"422", "json", "err">>>>>>]),
    ([phase |-> "run",s |-> [in |-> <<[q |-> "bad", op |-> "opA", cs |-> "key", id |-> "i1", body |-> "b1", cu |-> "u1", rt |-> "ok", ctype |-> "json", accept |-> "json", h |-> "ok"], [q |-> "bad", op |-> "opC", cs |-> "tok", id |-> "i2", body |-> "b2", cu |-> "u2", rt |-> "ok", ctype |-> "text", accept |-> "text", h |-> "ok"]>>, pc |-> <<1, 1>>, stg |-> <<<<"route", "authcall", "alt", "principal", "ctype", "consumer", "format", "consume", "bound", "format", "respond", "done">>, <<"route", "authcall", "authcall", "alt", "principal", "format", "bound", "format", "respond", "done">>>>, mr |-> <<[alt |-> 0, params |-> "-", consumer |-> "-"], [alt |-> 0, params |-> "-", consumer |-> "-"]>>, cx |-> <<[scopes |-> <<>>, bid |-> "-", bbody |-> "-"], [scopes |-> <<>>, bid |-> "-", bbody |-> "-"]>>, sh |-> [alt |-> 0, params |-> "-", consumer |-> "-", bid |-> "-", bbody |-> "-"]],solo |-> <<<<<<"/a/{id}", "i1">>, <<"key", "u1">>, <<"key">>, <<"key", "u1", "ska">>, <<"json">>, <<"json">>, <<"json">>, <<"json", "b1">>, <<"invalid">>, <<"json">>, <<"json">>, <<"422", "json", "err">>>>, <<<<"/c/{id}", "i2">>, <<"key", "-">>, <<"tok", "u2">>, <<"tok">>, <<"tok", "u2", "stc1", "stc2">>, <<"text">>, <<"invalid">>, <<"text">>, <<"text">>, <<"422", "json", "err">>>>>>]),
    ([phase |-> "run",s |-> [in |-> <<[q |-> "bad", op |-> "opA", cs |-> "key", id |-> "i1", body |-> "b1", cu |-> "u1", rt |-> "ok", ctype |-> "json", accept |-> "json", h |-> "ok"], [q |-> "bad", op |-> "opC", cs |-> "tok", id |-> "i2", body |-> "b2", cu |-> "u2", rt |-> "ok", ctype |-> "text", accept |-> "text", h |-> "ok"]>>, pc |-> <<1, 2>>, stg |-> <<<<"route", "authcall", "alt", "principal", "ctype", "consumer", "format", "consume", "bound", "format", "respond", "done">>, <<"route", "authcall", "authcall", "alt", "principal", "format", "bound", "format", "respond", "done">>>>, mr |-> <<[alt |-> 0, params |-> "-", consumer |-> "-"], [alt |-> 0, params |-> "i2", consumer |-> "-"]>>, cx |-> <<[scopes |-> <<>>, bid |-> "-", bbody |-> "-"], [scopes |-> <<>>, bid |-> "-", bbody |-> "-"]>>, sh |-> [alt |-> 0, params |-> "-", consumer |-> "-", bid |-> "-", bbody |-> "-"]],solo |-> <<<<<<"/a/{id}", "i1">>, <<"key", "u1">>, <<"key">>, <<"key", "u1", "ska">>, <<"json">>, <<"json">>, <<"json">>, <<"json", "b1">>, <<"invalid">>, <<"json">>, <<"json">>, <<"422", "json", "err">>>>, <<<<"/c/{id}", "i2">>, <<"key", "-">>, <<"tok", "u2">>, <<"tok">>, <<"tok", "u2", "stc1", "stc2">>, <<"text">>, <<"invalid">>, <<"text">>, <<"text">>, <<"422", "json", "err">>>>>>]),
    ([phase |-> "run",s |-> [in |-> <<[q |-> "bad", op |-> "opA", cs |-> "key", id |-> "i1", body |-> "b1", cu |-> "u1", rt |-> "ok", ctype |-> "json", accept |-> "json", h |-> "ok"], [q |-> "bad", op |-> "opC", cs |-> "tok", id |-> "i2", body |-> "b2", cu |-> "u2", rt |-> "ok", ctype |-> "text", accept |-> "text", h |-> "ok"]>>, pc |-> <<1, 3>>, stg |-> <<<<"route", "authcall", "alt", "principal", "ctype", "consumer", "format", "consume", "bound", "format", "respond", "done">>, <<"route", "authcall", "authcall", "alt", "principal", "format", "bound", "format", "respond", "done">>>>, mr |-> <<[alt |-> 0, params |-> "-", consumer |-> "-"], [alt |-> 0, params |-> "i2", consumer |-> "-"]>>, cx |-> <<[scopes |-> <<>>, bid |-> "-", bbody |-> "-"], [scopes |-> <<>>, bid |-> "-", bbody |-> "-"]>>, sh |-> [alt |-> 0, params |-> "-", consumer |-> "-", bid |-> "-", bbody |-> "-"]],solo |-> <<<<<<"/a/{id}", "i1">>, <<"key", "u1">>, <<"key">>, <<"key", "u1", "ska">>, <<"json">>, <<"json">>, <<"json">>, <<"json", "b1">>, <<"invalid">>, <<"json">>, <<"json">>, <<"422", "json", "err">>>>, <<<<"/c/{id}", "i2">>, <<"key", "-">>, <<"tok", "u2">>, <<"tok">>, <<"tok", "u2", "stc1", "stc2">>, <<"text">>, <<"invalid">>, <<"text">>, <<"text">>, <<"422", "json", "err">>>>>>]),
    ([phase |-> "run",s |-> [in |-> <<[q |-> "bad", op |-> "opA", cs |-> "key", id |-> "i1", body |-> "b1", cu |-> "u1", rt |-> "ok", ctype |-> "json", accept |-> "json", h |-> "ok"], [q |-> "bad", op |-> "opC", cs |-> "tok", id |-> "i2", body |-> "b2", cu |-> "u2", rt |-> "ok", ctype |-> "text", accept |-> "text", h |-> "ok"]>>, pc |-> <<2, 3>>, stg |-> <<<<"route", "authcall", "alt", "principal", "ctype", "consumer", "format", "consume", "bound", "format", "respond", "done">>, <<"route", "authcall", "authcall", "alt", "principal", "format", "bound", "format", "respond", "done">>>>, mr |-> <<[alt |-> 0, params |-> "i1", consumer |-> "-"], [alt |-> 0, params |-> "i2", consumer |-> "-"]>>, cx |-> <<[scopes |-> <<>>, bid |-> "-", bbody |-> "-"], [scopes |-> <<>>, bid |-> "-", bbody |-> "-"]>>, sh |-> [alt |-> 0, params |-> "-", consumer |-> "-", bid |-> "-", bbody |-> "-"]],solo |-> <<<<<<"/a/{id}", "i1">>, <<"key", "u1">>, <<"key">>, <<"key", "u1", "ska">>, <<"json">>, <<"json">>, <<"json">>, <<"json", "b1">>, <<"invalid">>, <<"json">>, <<"json">>, <<"422", "json", "err">>>>, <<<<"/c/{id}", "i2">>, <<"key", "-">>, <<"tok", "u2">>, <<"tok">>, <<"tok", "u2", "stc1", "stc2">>, <<"text">>, <<"invalid">>, <<"text">>, <<"text">>, <<"422", "json", "err">>>>>>]),
    ([phase |-> "run",s |-> [in |-> <<[q |-> "bad", op |-> "opA", cs |-> "key", id |-> "i1", body |-> "b1", cu |-> "u1", rt |-> "ok", ctype |-> "json", accept |-> "json", h |-> "ok"], [q |-> "bad", op |-> "opC", cs |-> "tok", id |-> "i2", body |-> "b2", cu |-> "u2", rt |-> "ok", ctype |-> "text", accept |-> "text", h |-> "ok"]>>, pc |-> <<2, 4>>, stg |-> <<<<"route", "authcall", "alt", "principal", "ctype", "consumer", "format", "consume", "bound", "format", "respond", "done">>, <<"route", "authcall", "authcall", "alt", "principal", "format", "bound", "format", "respond", "done">>>>, mr |-> <<[alt |-> 0, params |-> "i1", consumer |-> "-"], [alt |-> 0, params |-> "i2", consumer |-> "-"]>>, cx |-> <<[scopes |-> <<>>, bid |-> "-", bbody |-> "-"], [scopes |-> <<>>, bid |-> "-", bbody |-> "-"]>>, sh |-> [alt |-> 0, params |-> "-", consumer |-> "-", bid |-> "-", bbody |-> "-"]],solo |-> <<<<<<"/a/{id}", "i1">>, <<"key", "u1">>, <<"key">>, <<"key", "u1", "ska">>, <<"json">>, <<"json">>, <<"json">>, <<"json", "b1">>, <<"invalid">>, <<"json">>, <<"json">>, <<"422", "json", "err">>>>, <<<<"/c/{id}", "i2">>, <<"key", "-">>, <<"tok", "u2">>, <<"tok">>, <<"tok", "u2", "stc1", "stc2">>, <<"text">>, <<"invalid">>, <<"text">>, <<"text">>, <<"422", "json", "err">>>>>>]),
    ([phase |-> "run",s |-> [in |-> <<[q |-> "bad", op |-> "opA", cs |-> "key", id |-> "i1", body |-> "b1", cu |-> "u1", rt |-> "ok", ctype |-> "json", accept |-> "json", h |-> "ok"], [q |-> "bad", op |-> "opC", cs |-> "tok", id |-> "i2", body |-> "b2", cu |-> "u2", rt |-> "ok", ctype |-> "text", accept |-> "text", h |-> "ok"]>>, pc |-> <<2, 5>>, stg |-> <<<<"route", "authcall", "alt", "principal", "ctype", "consumer", "format", "consume", "bound", "format", "respond", "done">>, <<"route", "authcall", "authcall", "alt", "principal", "format", "bound", "format", "respond", "done">>>>, mr |-> <<[alt |-> 0, params |-> "i1", consumer |-> "-"], [alt |-> 0, params |-> "i2", consumer |-> "-"]>>, cx |-> <<[scopes |-> <<>>, bid |-> "-", bbody |-> "-"], [scopes |-> <<>>, bid |-> "-", bbody |-> "-"]>>, sh |-> [alt |-> 2, params |-> "-", consumer |-> "-", bid |-> "-", bbody |-> "-"]],solo |-> <<<<<<"/a/{id}", "i1">>, <<"key", "u1">>, <<"key">>, <<"key", "u1", "ska">>, <<"json">>, <<"json">>, <<"json">>, <<"json", "b1">>, <<"invalid">>, <<"json">>, <<"json">>, <<"422", "json", "err">>>>, <<<<"/c/{id}", "i2">>, <<"key", "-">>, <<"tok", "u2">>, <<"tok">>, <<"tok", "u2", "stc1", "stc2">>, <<"text">>, <<"invalid">>, <<"text">>, <<"text">>, <<"422", "json", "err">>>>>>]),
    ([phase |-> "run",s |-> [in |-> <<[q |-> "bad", op |-> "opA", cs |-> "key", id |-> "i1", body |-> "b1", cu |-> "u1", rt |-> "ok", ctype |-> "json", accept |-> "json", h |-> "ok"], [q |-> "bad", op |-> "opC", cs |-> "tok", id |-> "i2", body |-> "b2", cu |-> "u2", rt |-> "ok", ctype |-> "text", accept |-> "text", h |-> "ok"]>>, pc |-> <<3, 5>>, stg |-> <<<<"route", "authcall", "alt", "principal", "ctype", "consumer", "format", "consume", "bound", "format", "respond", "done">>, <<"route", "authcall", "authcall", "alt", "principal", "format", "bound", "format", "respond", "done">>>>, mr |-> <<[alt |-> 0, params |-> "i1", consumer |-> "-"], [alt |-> 0, params |-> "i2", consumer |-> "-"]>>, cx |-> <<[scopes |-> <<>>, bid |-> "-", bbody |-> "-"], [scopes |-> <<>>, bid |-> "-", bbody |-> "-"]>>, sh |-> [alt |-> 2, params |-> "-", consumer |-> "-", bid |-> "-", bbody |-> "-"]],solo |-> <<<<<<"/a/{id}", "i1">>, <<"key", "u1">>, <<"key">>, <<"key", "u1", "ska">>, <<"json">>, <<"json">>, <<"json">>, <<"json", "b1">>, <<"invalid">>, <<"json">>, <<"json">>, <<"422", "json", "err">>>>, <<<<"/c/{id}", "i2">>, <<"key", "-">>, <<"tok", "u2">>, <<"tok">>, <<"tok", "u2", "stc1", "stc2">>, <<"text">>, <<"invalid">>, <<"text">>, <<"text">>, <<"422", "json", "err">>>>>>]),
    ([phase |-> "run",s |-> [in |-> <<[q |-> "bad", op |-> "opA", cs |-> "key", id |-> "i1", body |-> "b1", cu |-> "u1", rt |-> "ok", ctype |-> "json", accept |-> "json", h |-> "ok"], [q |-> "bad", op |-> "opC", cs |-> "tok", id |-> "i2", body |-> "b2", cu |-> "u2", rt |-> "ok", ctype |-> "text", accept |-> "text", h |-> "ok"]>>, pc |-> <<4, 5>>, stg |-> <<<<"route", "authcall", "alt", "principal", "ctype", "consumer", "format", "consume", "bound", "format", "respond", "done">>, <<"route", "authcall", "authcall", "alt", "principal", "format", "bound", "format", "respond", "done">>>>, mr |-> <<[alt |-> 0, params |-> "i1", consumer |-> "-"], [alt |-> 0, params |-> "i2", consumer |-> "-"]>>, cx |-> <<[scopes |-> <<>>, bid |-> "-", bbody |-> "-"], [scopes |-> <<>>, bid |-> "-", bbody |-> "-"]>>, sh |-> [alt |-> 1, params |-> "-", consumer |-> "-", bid |-> "-", bbody |-> "-"]],solo |-> <<<<<<"/a/{id}", "i1">>, <<"key", "u1">>, <<"key">>, <<"key", "u1", "ska">>, <<"json">>, <<"json">>, <<"json">>, <<"json", "b1">>, <<"invalid">>, <<"json">>, <<"json">>, <<"422", "json", "err">>>>, <<<<"/c/{id}", "i2">>, <<"key", "-">>, <<"tok", "u2">>, <<"tok">>, <<"tok", "u2", "stc1", "stc2">>, <<"text">>, <<"invalid">>, <<"text">>, <<"text">>, <<"422", "json", "err">>>>>>])
    >>
----


=============================================================================

---- CONFIG MCServePipeline_TTrace_1790885792 ----
CONSTANTS
    SharedField = "alt"
    MaxReqs = 2
    Media = { "json" , "text" }
    Users = { "u1" , "u2" }
    MaxDefects = 1

INVARIANT
    _inv

CHECK_DEADLOCK
    \* CHECK_DEADLOCK off because of PROPERTY or INVARIANT above.
    FALSE

INIT
    _init

NEXT
    _next

CONSTANT
    _TETrace <- _trace

ALIAS
    _expression
=============================================================================
\* Generated on Thu Oct 01 20:16:38 UTC 2026