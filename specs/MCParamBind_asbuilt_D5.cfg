SPECIFICATION Spec
CONSTANTS
  NumberDefaultsToDouble = TRUE
  ArrayDefaultConverted = TRUE
  FormatDefaultParsed = TRUE
  HeaderCanonicalLookup = FALSE
  NamedStringValidated = TRUE
  RequiredFileIs422 = TRUE
  ItemFormatValidated = TRUE
  FormDataFromBodyOnly = TRUE
  Thorough = FALSE
INVARIANTS Property
CHECK_DEADLOCK FALSE
