SPECIFICATION Spec
CONSTANTS
  Mutant = "staticbeforeauth"
  MaxSteps = 3
INVARIANT Holds
CHECK_DEADLOCK FALSE
