SPECIFICATION Spec
CONSTANTS GuardReserved = TRUE
  GuardNul = TRUE
CHECK_DEADLOCK FALSE
