SPECIFICATION Spec
CONSTANTS GuardReserved = TRUE
CHECK_DEADLOCK FALSE
