SPECIFICATION Spec
CONSTANTS
  Mutant = "none"
  MaxLen = 7
INVARIANTS ValidateIsCurrent
CHECK_DEADLOCK FALSE
