-------------------------- MODULE TraceClientCall --------------------------
(* Trace validation of the real client.Runtime.Submit / KeepAliveTransport  *)
(* against ClientCall.                                                      *)
(* case kind "call" : one scripted call; the single event "call" must be    *)
(*    one of the terminal states of the (normative) model for that script   *)
(*    (Outcomes: every interleaving), within the real-time bound.           *)
(* case kind "drain": events read* close on KeepAliveTransport's body.      *)
EXTENDS ClientCall, Json, IOUtils

CONSTANTS SlackMs, NoDeadlineMs

VARIABLES l, st, skipping, fails, cs

CInitT(e) ==
  IF e.kind = "call" THEN [kind |-> "call", c |-> e.script, out |-> Outcomes(e.script),
                           tsrc |-> e.tsrc, timeout_ms |-> e.timeout_ms, ctx_ms |-> e.ctx_ms]
  ELSE IF e.kind = "reuseseq" THEN [kind |-> "reuseseq", reuse |-> e.reuse, reader |-> e.reader, calls |-> e.calls, seen |-> 0, allEnded |-> TRUE]
  ELSE [kind |-> "drain", d |-> DInit,
        u |-> [len |-> e.len, chunk |-> e.chunk, eofWithData |-> e.eof_with_data, failAt |-> e.fail_at]]

\* projection of the observation onto the model's terminal-state projection
ObsOf(c, e) ==
  [ res |-> e.result, resp |-> e.resp_obtained,
    files_closed |-> e.files_closed,
    writer_dead |-> e.leaked = 0,
    resp_closed |-> (e.resp_obtained => e.resp_closes >= 1),
    \* drained: the reader saw the end, or the stream had reached its own end when it was closed, or the drain was cut
    \* short by the caller's cancellation / the deadline (never by the call's own cancel)
    drain_ok |-> (c.reuse /\ e.resp_obtained => e.reader_saw_end \/ e.term_before_close \/ e.drain_cut = "env") ]

Proj(o) == [res |-> o.res, resp |-> o.resp, files_closed |-> o.files_closed, writer_dead |-> o.writer_dead,
            resp_closed |-> o.resp_closed, drain_ok |-> o.drain_ok]

\* returns no later than the effective deadline (NoDeadlineMs bounds a call that has none: only fault-free scripts)
InTime(s, e) == e.elapsed_ms <= EffectiveDeadline(s.tsrc, s.timeout_ms, s.ctx_ms, e.cancel_ms, NoDeadlineMs) + SlackMs

CallAllowed(s, e) ==
  /\ ~e.panic
  /\ InTime(s, e)
  /\ (e.src_hit => e.result # "ok")            \* a failing upload source is never a success
  /\ e.upload_intact                           \* what the transport consumed is what was handed over (short reads lose nothing)
  /\ ObsOf(s.c, e) \in { Proj(o) : o \in s.out }

CallWhy(s, e) ==
  LET o == ObsOf(s.c, e)
      exp == { Proj(x) : x \in s.out } IN
  IF e.panic THEN "panic"
  ELSE IF ~InTime(s, e) THEN "returned-after-effective-deadline"
  ELSE IF e.src_hit /\ e.result = "ok" THEN "failing-upload-source-reported-as-success"
  ELSE IF ~e.upload_intact THEN "request-body-differs-from-what-was-handed-over"
  ELSE IF ~o.writer_dead /\ \A x \in exp : x.writer_dead THEN "goroutine-started-by-the-call-remains"
  ELSE IF ~o.files_closed /\ \A x \in exp : x.files_closed THEN "upload-file-not-closed"
  ELSE IF o.res \notin { x.res : x \in exp } THEN "result-" \o o.res \o "-not-allowed-for-script"
  ELSE IF ~o.resp_closed THEN "response-body-not-closed"
  ELSE IF ~o.drain_ok THEN "response-body-not-drained-before-close"
  ELSE "observation-not-a-terminal-state-of-the-model"

DrainAllowed(s, e) ==
  CASE e.ev = "read" ->
         LET x == URead(s.d, e.req, s.u) IN
         ~e.panic /\ ~s.d.closed /\ e.same /\ e.n = x.n /\ e.err = x.r
    [] e.ev = "close" ->
         LET d2 == DClose(s.d, s.u) IN
         /\ ~e.panic /\ e.closes = 1
         /\ e.term_before_close = d2.uterm        \* drained when the end was not seen (d2.uterm is TRUE: DrainedAtClose)
         /\ e.unread = s.u.len - d2.pos
         /\ DrainedAtClose(d2)
    [] OTHER -> FALSE

SeqAllowed(s, e) ==
  CASE e.ev = "rcall" -> ~e.panic /\ e.i = s.seen + 1 /\ e.i <= s.calls /\ SeqCallReleased(s.reuse, s.reader, e)
    [] e.ev = "rdone" -> s.seen = s.calls /\ e.calls = s.calls /\ SeqConnsAllowed(s.reuse, s.allEnded, e.conns)
    [] OTHER -> FALSE

MAllowed(s, e) ==
  IF s.kind = "call" THEN e.ev = "call" /\ CallAllowed(s, e)
  ELSE IF s.kind = "reuseseq" THEN SeqAllowed(s, e)
  ELSE DrainAllowed(s, e)

MStep(s, e) ==
  IF s.kind = "call" THEN s
  ELSE IF s.kind = "reuseseq" THEN
       (IF e.ev = "rcall" THEN [s EXCEPT !.seen = @ + 1, !.allEnded = @ /\ (e.reader_saw_end \/ e.term_before_close)] ELSE s)
  ELSE IF e.ev = "read" THEN [s EXCEPT !.d = DRead(s.d, e.req, s.u)] ELSE [s EXCEPT !.d = DClose(s.d, s.u)]

MWhy(s, e) ==
  IF s.kind = "call" THEN (IF e.ev = "call" THEN CallWhy(s, e) ELSE "unknown-event")
  ELSE IF s.kind = "reuseseq" THEN
       (IF e.ev = "rcall" THEN
           (IF e.result # (IF s.reader = "w1" THEN "err" ELSE "ok") \/ ~e.resp_obtained THEN "fault-free-call-has-the-wrong-result"
            ELSE IF e.resp_closes < 1 THEN "response-body-not-closed"
            ELSE "response-body-not-drained-before-close")
        ELSE IF e.ev = "rdone" THEN "connection-not-reused-although-every-response-was-drained"
        ELSE "unknown-event")
  ELSE IF e.ev = "read" THEN "keepalive-read-does-not-pass-the-stream-through"
  ELSE IF e.ev = "close" THEN
       (IF e.closes # 1 THEN "keepalive-body-not-closed-once"
        ELSE "keepalive-body-closed-without-draining-although-end-not-seen")
  ELSE "unknown-event"


TheTrace == ndJsonDeserialize(IOEnv.TRACE_FILE)
TC == INSTANCE TraceCommon WITH TInit <- CInitT, TAllowed <- MAllowed, TStep <- MStep, TWhy <- MWhy,
                                TStateful <- TRUE, Trace <- TheTrace
Spec == TC!Spec
=============================================================================
