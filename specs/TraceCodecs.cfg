SPECIFICATION Spec
CONSTANTS
  BufSize = 4096
  MaxEmptyReads = 100
  NilCloseGuarded = TRUE
  GuardTypedNil = TRUE
  CloseOnNilPayload = TRUE
  PooledBuffer = FALSE
  UEOFIsEnd = FALSE
  ZeroCopyBuffer = FALSE
CHECK_DEADLOCK FALSE
