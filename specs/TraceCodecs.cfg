SPECIFICATION Spec
CONSTANTS
  BufSize = 4096
  MaxEmptyReads = 100
  NilCloseGuarded = TRUE
  GuardTypedNil = TRUE
  CloseOnNilPayload = TRUE
CHECK_DEADLOCK FALSE
