------------------------------ MODULE MCDocsMW ------------------------------
(* Exhaustive small-scope check of C20 at model level:                        *)
(*  (a) for every configuration (8 kinds x base-path spellings x UI path x     *)
(*      document name x spec URL shapes x with/without next) and every request *)
(*      path of <= MaxSegs segments over a pool (+ trailing slash) the faithful *)
(*      handler chain answers exactly as the declarative reading says;         *)
(*  (b) for every UI kind, default/custom template and every option value of   *)
(*      <= MaxPayload bytes over an alphabet with the HTML metacharacters the   *)
(*      rendered slot has no raw metacharacter and reads back to the value.    *)
EXTENDS DocsMW

CONSTANTS MaxSegs, MaxPayload, SegIds, PayloadBytes

VARIABLES mode, cfg, segs, trail, payload
vars == <<mode, cfg, segs, trail, payload>>

api   == <<97,112,105>>
ui    == <<117,105>>
specs == <<115,112,101,99,115>>
v1    == <<118,49>>
apijson == <<97,112,105,46,106,115,111,110>>      \* "api.json"
cb    == <<47,99,98>>                              \* "/cb"
myspecs == <<109,121,32,115,112,233,99,115>>        \* "my sp\xe9cs": a space and a non-ASCII byte

Bases == {<<>>, <<SLASH>>, <<SLASH>> \o api, <<SLASH>> \o api \o <<SLASH>>, api}
Paths == {<<>>, Docs, ui \o <<SLASH>> \o Docs, <<SLASH>> \o Docs \o <<SLASH>>}
DocNames == {<<>>, apijson}
SU(k, d, f) == [kind |-> k, dirs |-> d, doc |-> f, host |-> <<104>>, query |-> <<>>, enc |-> TRUE]
SpecURLs == {SU("default", <<>>, <<>>), SU("abspath", <<>>, SwaggerDoc), SU("abspath", <<specs, v1>>, apijson),
             SU("absurl", <<specs>>, apijson), SU("relative", <<>>, SwaggerDoc), SU("relative", <<specs>>, apijson),
             SU("abspath", <<specs>>, <<>>), SU("abspath", <<myspecs>>, apijson), SU("absurl", <<>>, myspecs)}

Base0 == [kind |-> "spec", base |-> <<>>, path |-> <<>>, doc |-> <<>>, specurl |-> SU("default", <<>>, <<>>),
          oauthurl |-> <<>>, hasnext |-> FALSE, custom |-> FALSE]

Configs ==
  {[Base0 EXCEPT !.base = b, !.path = p, !.doc = d, !.hasnext = n] : b \in Bases, p \in Paths, d \in DocNames, n \in BOOLEAN}
  \cup {[Base0 EXCEPT !.kind = k, !.base = b, !.path = p, !.hasnext = n] :
          k \in {"redoc", "rapidoc", "swaggerui"}, b \in Bases, p \in Paths, n \in BOOLEAN}
  \cup {[Base0 EXCEPT !.kind = "oauth2", !.base = b, !.path = p, !.hasnext = n, !.oauthurl = o] :
          b \in Bases, p \in Paths, n \in BOOLEAN, o \in {<<>>, cb}}
  \cup {[Base0 EXCEPT !.kind = k, !.base = b, !.path = p, !.specurl = s] :
          k \in {"api-redoc", "api-swaggerui", "api-rapidoc"}, b \in Bases \ {api}, p \in Paths, s \in SpecURLs}

SegOf(id) ==
  CASE id = "docs" -> Docs [] id = "swagger.json" -> SwaggerDoc [] id = "api" -> api [] id = "ui" -> ui
    [] id = "specs" -> specs [] id = "v1" -> v1 [] id = "api.json" -> apijson [] id = "." -> <<DOT>> [] id = ".." -> <<DOT, DOT>>
    [] id = "empty" -> <<>> [] id = "oauth2-callback" -> OAuthCb [] id = "cb" -> <<99,98>> [] id = "docsx" -> Docs \o <<120>>
    [] id = "my specs" -> myspecs [] id = "my%20specs" -> EncSeg(myspecs)

Init == /\ mode = "start" /\ cfg = Base0 /\ segs = <<>> /\ trail = FALSE /\ payload = <<>>

ChooseCfg ==
  /\ mode = "start"
  /\ \E c \in Configs : cfg' = c
  /\ mode' = "path" /\ UNCHANGED <<segs, trail, payload>>

AddSeg ==
  /\ mode = "path" /\ Len(segs) < MaxSegs /\ ~trail
  /\ \E s \in SegIds : segs' = Append(segs, SegOf(s))
  /\ UNCHANGED <<mode, cfg, trail, payload>>

Trail ==
  /\ mode = "path" /\ segs # <<>> /\ ~trail
  /\ trail' = TRUE /\ UNCHANGED <<mode, cfg, segs, payload>>

ChoosePage ==
  /\ mode = "start"
  /\ \E k \in {"redoc", "rapidoc", "swaggerui", "oauth2", "api-swaggerui"}, cu \in BOOLEAN :
        cfg' = [Base0 EXCEPT !.kind = k, !.custom = cu]
  /\ mode' = "page" /\ UNCHANGED <<segs, trail, payload>>

AddByte ==
  /\ mode = "page" /\ Len(payload) < MaxPayload
  /\ \E b \in PayloadBytes : payload' = Append(payload, b)
  /\ UNCHANGED <<mode, cfg, segs, trail>>

Next == ChooseCfg \/ AddSeg \/ Trail \/ ChoosePage \/ AddByte
Spec == Init /\ [][Next]_vars

ReqPath == IF segs = <<>> THEN <<SLASH>> ELSE JoinSegs(segs) \o (IF trail THEN <<SLASH>> ELSE <<>>)

RoutingHolds == mode = "path" => WhoAgrees(cfg, ReqPath)

SlotNames == {"Title", "SpecURL", "AssetURL", "OAuthCallbackURL"}
EscapingHolds == mode = "page" => \A n \in SlotNames : PageOK(cfg, n, payload)

\* non-vacuity witnesses (must be VIOLATED)
NeverSpec == mode = "path" => Serve(cfg, ReqPath) # "spec"
NeverUI   == mode = "path" => Serve(cfg, ReqPath) # "ui"
NeverEscapes == mode = "page" => \A n \in SlotNames : RenderSlot(cfg, n, payload) = payload
=============================================================================
