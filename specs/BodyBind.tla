------------------------------ MODULE BodyBind ------------------------------
(* G02 - server side binding and validation of the BODY parameter of an operation served by the      *)
(* untyped API (middleware/parameter.go `case "body"`, middleware/request.go UntypedRequestBinder.Bind, *)
(* middleware/validation.go, newUntypedParamBinder + go-openapi/validate.NewSchemaValidator).         *)
(*                                                                                                   *)
(* Part 1  JSON values (abstract grammar), JSON equality, the decoded view of a document             *)
(* Part 2  Swagger 2.0 schemas (abstract grammar) and the DECLARATIVE relation Valid(S, v) written    *)
(*         keyword by keyword from the Swagger 2.0 / JSON-schema draft 4 meaning                      *)
(* Part 3  Violations(S, v): a second, independently structured checker (one clause per validator,    *)
(*         collecting the paths of the offending fields); MC checks Valid <=> Violations = {}         *)
(* Part 4  the FAITHFUL model of the binder: one operator per function / branch of the code           *)
(* Part 5  the PROPERTY: Allowed(p, rq, o) - what the statement permits as the observable outcome     *)
(*                                                                                                   *)
(* Records are "open": optional fields are read with Get(r, f, default), so that the descriptors the  *)
(* driver writes stay small.                                                                          *)
EXTENDS Integers, Sequences, FiniteSets, SequencesExt, TLC

CONSTANTS
  AbsentBodyRule,      \* TRUE (normative): without body and without default a required body is answered "required" (422)
                       \*   and an optional one is left unbound and NOT validated; FALSE = as built before D41: the zero
                       \*   value of the target is validated against the schema whatever `required` says
  ScalarTargets,       \* TRUE (normative): a body whose schema is not object/array is decoded as the document denotes;
                       \*   FALSE = as built before D43: decoded into map[string]interface{} (never binds; a default panics)
  LibraryConforms,     \* TRUE (normative): go-openapi/validate decides as Valid does (up to the named number deviations);
                       \*   FALSE = as observed (findings LF1, LF4): a number is refused by a schema without `type`, and
                       \*   uniqueItems compares numbers by their literal text
  NullIsNull           \* TRUE (normative): a JSON null body is validated as null; FALSE = as built before D44: it is
                       \*   validated as the zero map / slice it decodes into (an empty object / array)

Get(r, f, d) == IF f \in DOMAIN r THEN r[f] ELSE d
Has(r, f)    == f \in DOMAIN r

Pow10(n) == CASE n = 0 -> 1 [] n = 1 -> 10 [] n = 2 -> 100 [] n = 3 -> 1000 [] n = 4 -> 10000 [] OTHER -> 100000


(***************************************************************************************************)
(* Part 1: JSON values                                                                             *)
(*   [k |-> "null"]   [k |-> "bool", b]   [k |-> "str", s]  (s = code points)                        *)
(*   [k |-> "num", m, e, lit, big, txt]   value m*10^e (e in -2..2); lit = form of the literal:      *)
(*        "int" (digits only), "frac" (has a fraction part), "exp" (has an exponent part);           *)
(*        big # "" : a symbolic huge number (table below), m = e = 0; txt = the literal's bytes      *)
(*   [k |-> "arr", items]   [k |-> "obj", mem]  (mem = sequence of [key, val], duplicates possible)   *)
(***************************************************************************************************)
VNull        == [k |-> "null"]
VBool(b)     == [k |-> "bool", b |-> b]
VStr(s)      == [k |-> "str", s |-> s]
VNum(m, e, lit) == [k |-> "num", m |-> m, e |-> e, lit |-> lit, big |-> "", txt |-> <<>>]
VInt(i)      == VNum(i, 0, "int")
VBig(name)   == [k |-> "num", m |-> 0, e |-> 0, lit |-> "", big |-> name, txt |-> <<>>]
VArr(items)  == [k |-> "arr", items |-> items]
VObj(mem)    == [k |-> "obj", mem |-> mem]
KV(key, val) == [key |-> key, val |-> val]

\* symbolic huge numbers: sign, "written as an integer literal", fits int64, fits float64 (finite)
BigInfo(b) ==
  CASE b = "i63max"  -> [sign |->  1, intlit |-> TRUE,  i64 |-> TRUE,  f64 |-> TRUE]    \* 9223372036854775807
    [] b = "i63ovf"  -> [sign |->  1, intlit |-> TRUE,  i64 |-> FALSE, f64 |-> TRUE]    \* 9223372036854775808
    [] b = "i63min"  -> [sign |-> -1, intlit |-> TRUE,  i64 |-> TRUE,  f64 |-> TRUE]    \* -9223372036854775808
    [] b = "i63und"  -> [sign |-> -1, intlit |-> TRUE,  i64 |-> FALSE, f64 |-> TRUE]    \* -9223372036854775809
    [] b = "i1e30"   -> [sign |->  1, intlit |-> TRUE,  i64 |-> FALSE, f64 |-> TRUE]    \* 1 followed by 30 zeros
    [] b = "f53"     -> [sign |->  1, intlit |-> TRUE,  i64 |-> TRUE,  f64 |-> TRUE]    \* 9007199254740993 = 2^53+1
    [] b = "x1e30"   -> [sign |->  1, intlit |-> FALSE, i64 |-> FALSE, f64 |-> TRUE]    \* 1e30
    [] b = "x1e400"  -> [sign |->  1, intlit |-> FALSE, i64 |-> FALSE, f64 |-> FALSE]   \* 1e400
    [] b = "xm1e400" -> [sign |-> -1, intlit |-> FALSE, i64 |-> FALSE, f64 |-> FALSE]   \* -1e400
BigNames == {"i63max", "i63ovf", "i63min", "i63und", "i1e30", "f53", "x1e30", "x1e400", "xm1e400"}

IsBig(n)  == n.big # ""
X100(n)   == n.m * Pow10(n.e + 2)                       \* the value in hundredths (small numbers only)
IntLit(n) == IF IsBig(n) THEN BigInfo(n.big).intlit ELSE n.lit = "int"
\* comparison of a number with a small bound [m, e]: -1, 0, 1
NumCmp(n, b) == IF IsBig(n) THEN BigInfo(n.big).sign
                ELSE IF X100(n) < X100(b) THEN -1 ELSE IF X100(n) = X100(b) THEN 0 ELSE 1
NumEq(a, b, mode) == IF IsBig(a) \/ IsBig(b) THEN a.big = b.big
                     ELSE IF mode = "lib" THEN a.m = b.m /\ a.e = b.e /\ a.lit = b.lit      \* same literal (LF4)
                     ELSE X100(a) = X100(b)

\* the decoded view of an object: duplicate member names collapse, the LAST one wins (named deviation
\* LastDuplicateKeyWins: RFC 8259 leaves the behaviour open; encoding/json keeps the last).
Keys(v)      == { v.mem[i].key : i \in DOMAIN v.mem }
LastIdx(v, key) == CHOOSE i \in DOMAIN v.mem : v.mem[i].key = key /\ \A j \in DOMAIN v.mem : v.mem[j].key = key => j <= i
Field(v, key) == v.mem[LastIdx(v, key)].val

\* the value encoding/json builds: members in no particular order, one per name
RECURSIVE Decoded(_)
Decoded(v) ==
  CASE v.k = "arr" -> [v EXCEPT !.items = [i \in DOMAIN v.items |-> Decoded(v.items[i])]]
    [] v.k = "obj" -> LET ks == SetToSeq(Keys(v)) IN [v EXCEPT !.mem = [i \in DOMAIN ks |-> KV(ks[i], Decoded(Field(v, ks[i])))]]
    [] OTHER -> v

\* JSON equality (draft 4 core 3.6): numbers by mathematical value, objects as unordered maps
RECURSIVE JEq(_, _, _)
JEq(v, w, mode) ==
  /\ v.k = w.k
  /\ CASE v.k = "null" -> TRUE
       [] v.k = "bool" -> v.b = w.b
       [] v.k = "num"  -> NumEq(v, w, mode)
       [] v.k = "str"  -> v.s = w.s
       [] v.k = "arr"  -> Len(v.items) = Len(w.items) /\ \A i \in DOMAIN v.items : JEq(v.items[i], w.items[i], mode)
       [] v.k = "obj"  -> Keys(v) = Keys(w) /\ \A key \in Keys(v) : JEq(Field(v, key), Field(w, key), mode)

(***************************************************************************************************)
(* Part 2: schemas and the declarative relation                                                    *)
(*  S = [ty, ref, props: Seq([name, sch]), req: Seq(name), addl: "" | "true" | "false" | "schema",  *)
(*       addlSch, minP, maxP, items (a schema), minI, maxI, uniq, minL, maxL, pat, fmt,             *)
(*       min [m,e], exMin, max [m,e], exMax, mult [m,e], enum: Seq(value)]   (all optional)          *)
(*  `ref` only changes how the driver writes the schema ($ref to a definition).                     *)
(***************************************************************************************************)
Ty(S) == Get(S, "ty", "")

\* patterns are named; each name has its regular expression (driver) and its meaning (here); unanchored as in ECMA 262
PatternHolds(name, s) ==
  CASE name = "^a"       -> Len(s) >= 1 /\ s[1] = 97
    [] name = "^[0-9]+$" -> Len(s) >= 1 /\ \A i \in DOMAIN s : s[i] \in 48..57
    [] name = "b"        -> \E i \in DOMAIN s : s[i] = 98
    [] name = "^.$"      -> Len(s) = 1                       \* one character (not one byte)

Digit(c) == c \in 48..57
\* full-date of RFC 3339 (days 29..31 are outside the texts the driver uses)
IsDate(s) == /\ Len(s) = 10 /\ s[5] = 45 /\ s[8] = 45
             /\ \A i \in {1, 2, 3, 4, 6, 7, 9, 10} : Digit(s[i])
             /\ LET mo == (s[6] - 48) * 10 + (s[7] - 48)   da == (s[9] - 48) * 10 + (s[10] - 48) IN mo \in 1..12 /\ da \in 1..28
FormatHolds(name, s) == CASE name = "date" -> IsDate(s) [] OTHER -> TRUE

\* mode "math": numbers are mathematical; mode "go": integers are int64, numbers are finite float64
\* (named deviations Int64Integers / Float64Numbers: where the two modes differ both outcomes are allowed)
TypeHolds(S, v, mode) ==
  CASE Ty(S) = ""        -> TRUE
    [] Ty(S) = "object"  -> v.k = "obj"
    [] Ty(S) = "array"   -> v.k = "arr"
    [] Ty(S) = "string"  -> v.k = "str"
    [] Ty(S) = "boolean" -> v.k = "bool"
    [] Ty(S) = "number"  -> v.k = "num" /\ (mode = "go" /\ IsBig(v) => BigInfo(v.big).f64)
    [] Ty(S) = "integer" -> v.k = "num" /\ IntLit(v)            \* draft 4: a number without fraction or exponent part
                                    /\ (mode = "go" /\ IsBig(v) => BigInfo(v.big).i64)

EnumHolds(S, v) == Has(S, "enum") => \E i \in DOMAIN S.enum : JEq(S.enum[i], v, "math")

StrHolds(S, s) ==
  /\ Has(S, "minL") => Len(s) >= S.minL                    \* length in characters
  /\ Has(S, "maxL") => Len(s) <= S.maxL
  /\ Has(S, "pat")  => PatternHolds(S.pat, s)
  /\ Has(S, "fmt")  => FormatHolds(S.fmt, s)

NumHolds(S, n, mode) ==
  /\ Has(S, "min")  => IF Get(S, "exMin", FALSE) THEN NumCmp(n, S.min) > 0 ELSE NumCmp(n, S.min) >= 0
  /\ Has(S, "max")  => IF Get(S, "exMax", FALSE) THEN NumCmp(n, S.max) < 0 ELSE NumCmp(n, S.max) <= 0
  /\ Has(S, "mult") => IF IsBig(n) THEN mode = "math"       \* named deviation HugeMultiples: not decided for the symbolic numbers,
                       ELSE X100(n) % X100(S.mult) = 0      \*   both outcomes are allowed (the go mode refuses, the math mode accepts)

PropNames(S) == { S.props[i].name : i \in DOMAIN Get(S, "props", <<>>) }
PropSchema(S, name) == (CHOOSE i \in DOMAIN S.props : S.props[i].name = name)
Distinct(items) == \A i, j \in DOMAIN items : i < j => ~JEq(items[i], items[j], "math")

RECURSIVE Valid(_, _, _)
Valid(S, v, mode) ==
  /\ TypeHolds(S, v, mode)
  /\ EnumHolds(S, v)
  /\ v.k = "str" => StrHolds(S, v.s)
  /\ v.k = "num" => NumHolds(S, v, mode)
  /\ v.k = "arr" =>
       /\ Has(S, "minI") => Len(v.items) >= S.minI
       /\ Has(S, "maxI") => Len(v.items) <= S.maxI
       /\ Get(S, "uniq", FALSE) => Distinct(v.items)
       /\ Has(S, "items") => \A i \in DOMAIN v.items : Valid(S.items, v.items[i], mode)
  /\ v.k = "obj" =>
       /\ \A i \in DOMAIN Get(S, "req", <<>>) : S.req[i] \in Keys(v)
       /\ Has(S, "minP") => Cardinality(Keys(v)) >= S.minP
       /\ Has(S, "maxP") => Cardinality(Keys(v)) <= S.maxP
       /\ \A key \in Keys(v) :
            IF key \in PropNames(S) THEN Valid(S.props[PropSchema(S, key)].sch, Field(v, key), mode)
            ELSE CASE Get(S, "addl", "") = "false"  -> FALSE
                   [] Get(S, "addl", "") = "schema" -> Valid(S.addlSch, Field(v, key), mode)
                   [] OTHER -> TRUE

(***************************************************************************************************)
(* Part 3: the second checker, shaped like a validator chain: every validator contributes the      *)
(* paths of the fields it rejects (a path = sequence of member names / item indices as strings).   *)
(***************************************************************************************************)
JsonType(v) == CASE v.k = "obj" -> "object" [] v.k = "arr" -> "array" [] v.k = "str" -> "string"
                 [] v.k = "bool" -> "boolean" [] v.k = "null" -> "null"
                 [] v.k = "num" -> IF IntLit(v) THEN "integer" ELSE "number"

TypeErr(S, v, mode) ==
  LET want == Ty(S)  got == JsonType(v) IN
  IF want = "" THEN (mode = "lib" /\ v.k = "num")          \* LF1: json.Number meets the string validator
  ELSE IF got = want THEN (v.k = "num" /\ IsBig(v) /\ mode # "math" /\
                           ((want = "integer" /\ ~BigInfo(v.big).i64) \/ (want = "number" /\ ~BigInfo(v.big).f64)))
  ELSE IF want = "number" /\ got = "integer" THEN (IsBig(v) /\ mode # "math" /\ ~BigInfo(v.big).f64)
  ELSE TRUE

EnumErr(S, v) == Has(S, "enum") /\ \A i \in DOMAIN S.enum : ~JEq(v, S.enum[i], "math")

StrErr(S, v) ==
  v.k = "str" /\ \/ (Has(S, "minL") /\ Len(v.s) < S.minL)
                 \/ (Has(S, "maxL") /\ Len(v.s) > S.maxL)
                 \/ (Has(S, "pat") /\ ~PatternHolds(S.pat, v.s))
                 \/ (Has(S, "fmt") /\ ~FormatHolds(S.fmt, v.s))

NumErr(S, v, mode) ==
  v.k = "num" /\
  LET below(b, strict) == IF IsBig(v) THEN BigInfo(v.big).sign < 0
                          ELSE (X100(v) < X100(b) \/ (strict /\ X100(v) = X100(b)))
      above(b, strict) == IF IsBig(v) THEN BigInfo(v.big).sign > 0
                          ELSE (X100(v) > X100(b) \/ (strict /\ X100(v) = X100(b)))
  IN \/ (Has(S, "min") /\ below(S.min, Get(S, "exMin", FALSE)))
     \/ (Has(S, "max") /\ above(S.max, Get(S, "exMax", FALSE)))
     \/ (Has(S, "mult") /\ IsBig(v) /\ mode # "math")
     \/ (Has(S, "mult") /\ ~IsBig(v) /\ LET x == X100(v)  a == IF x < 0 THEN -x ELSE x IN \A q \in -a..a : q * X100(S.mult) # x)

HasDuplicates(items, mode) == \E i, j \in DOMAIN items : i # j /\ JEq(items[i], items[j], mode)

RECURSIVE Violations(_, _, _, _)
Violations(S, v, path, mode) ==
  (IF TypeErr(S, v, mode) \/ EnumErr(S, v) \/ StrErr(S, v) \/ NumErr(S, v, mode) THEN {path} ELSE {})
  \cup
  (IF v.k # "arr" THEN {}
   ELSE (IF \/ (Has(S, "minI") /\ Len(v.items) < S.minI)
            \/ (Has(S, "maxI") /\ Len(v.items) > S.maxI)
            \/ (Get(S, "uniq", FALSE) /\ HasDuplicates(v.items, mode)) THEN {path} ELSE {})
        \cup (IF Has(S, "items")
              THEN UNION { Violations(S.items, v.items[i], Append(path, ToString(i - 1)), mode) : i \in DOMAIN v.items }
              ELSE {}))
  \cup
  (IF v.k # "obj" THEN {}
   ELSE LET present == Keys(v)
            n == Cardinality(present)
            props == Get(S, "props", <<>>)
            declared == { props[i].name : i \in DOMAIN props }
        IN (IF (Has(S, "minP") /\ n < S.minP) \/ (Has(S, "maxP") /\ n > S.maxP) THEN {path} ELSE {})
           \cup { Append(path, r) : r \in { x \in Range(Get(S, "req", <<>>)) : x \notin present } }
           \cup UNION { IF props[i].name \in present
                        THEN Violations(props[i].sch, Field(v, props[i].name), Append(path, props[i].name), mode)
                        ELSE {} : i \in DOMAIN props }
           \cup UNION { IF Get(S, "addl", "") = "false" THEN {Append(path, key)}
                        ELSE IF Get(S, "addl", "") = "schema" THEN Violations(S.addlSch, Field(v, key), Append(path, key), mode)
                        ELSE {} : key \in present \ declared })

(***************************************************************************************************)
(* Part 4: the faithful model                                                                      *)
(*  declaration p = [name, required, hasDef, def (a value), schema]                                 *)
(*  request rq = [tr, syn, v, trail]                                                                *)
(*     tr  : "none" no body at all | "cl0" explicit `Content-Length: 0` | "len" body of known length *)
(*           | "chunked" body of unknown length (possibly zero bytes)                                *)
(*     syn : "empty" zero bytes | "ws" white space only | "ok" a JSON document (value v)             *)
(*           | "bad" not JSON | "trunc" a JSON document cut short                                    *)
(*     trail: "" | "ws" | "garbage" | "second"  bytes after the first document                       *)
(*  outcome o = [ran, status, set, got, consumes, errs: Seq([code, path]), panic]                    *)
(***************************************************************************************************)
Bytes(rq) == rq.syn # "empty" /\ rq.tr \in {"len", "chunked"}      \* the request carries at least one body byte

\* runtime.HasBody: ContentLength > 0 | explicit Content-Length header (= 0) | peek one byte
HasBody(rq) ==
  CASE rq.tr = "len"     -> TRUE
    [] rq.tr = "cl0"     -> FALSE
    [] rq.tr = "none"    -> FALSE
    [] rq.tr = "chunked" -> rq.syn # "empty"

\* UntypedRequestBinder.Bind, map target: binder.Type() is nil for a body parameter, the target type comes from the schema
TargetType(S) ==
  IF Ty(S) = "array" THEN "slice"
  ELSE IF Ty(S) = "object" THEN "map"
  ELSE IF ScalarTargets THEN "iface" ELSE "map"

\* encoding/json into a *map[string]interface{} / *[]interface{} / *interface{}
Fits(target, v) ==
  CASE target = "iface" -> TRUE
    [] target = "map"   -> v.k \in {"obj", "null"}
    [] target = "slice" -> v.k \in {"arr", "null"}

\* runtime.JSONConsumer: json.Decoder.Decode reads the FIRST document only (named deviation TrailingBytesIgnored)
Consume(target, rq) ==
  CASE rq.syn = "ws"               -> [err |-> "eof"]                      \* io.EOF: no document at all
    [] rq.syn \in {"bad", "trunc"} -> [err |-> "syntax"]                   \* *json.SyntaxError / io.ErrUnexpectedEOF
    [] rq.syn = "ok" -> IF Fits(target, rq.v) THEN [err |-> "", v |-> rq.v] ELSE [err |-> "type"]   \* *json.UnmarshalTypeError

\* what the handler finds for the value v that was decoded into the target (nil map / nil slice / nil interface for null)
Bound(target, v) == IF v.k = "null" THEN [k |-> "nil", target |-> target] ELSE Decoded(v)
ZeroOf(target)   == [k |-> "nil", target |-> target]

\* untypedParamBinder.Bind, case "body"
BindBody(p, rq) ==
  LET target == TargetType(p.schema) IN
  IF ~HasBody(rq)
  THEN IF p.hasDef
       THEN IF target = "iface" \/ Fits(target, p.def) THEN [k |-> "bound", v |-> p.def, consumes |-> 0]
            ELSE [k |-> "panic", consumes |-> 0]          \* reflect.Set of a string / number into a map target
       ELSE [k |-> "bound", v |-> ZeroOf(target), consumes |-> 0]
  ELSE LET c == Consume(target, rq) IN
       IF c.err # ""
       THEN IF c.err = "eof" /\ p.hasDef
            THEN IF target = "iface" \/ Fits(target, p.def) THEN [k |-> "bound", v |-> p.def, consumes |-> 1]
                 ELSE [k |-> "panic", consumes |-> 1]
            ELSE [k |-> "err", code |-> 601, consumes |-> 1]              \* errors.InvalidType(name, "body", ...)
       ELSE [k |-> "bound", v |-> Bound(target, c.v), consumes |-> 1]

\* what the schema validator is given for a bound value
Validated(b) ==
  IF b.k # "nil" THEN b
  ELSE IF b.target = "iface" THEN VNull
  ELSE IF NullIsNull THEN VNull
  ELSE IF b.target = "map" THEN VObj(<<>>) ELSE VArr(<<>>)       \* a typed nil map / slice looks like an empty object / array

NoErrs == <<>>
Ran(v, n)        == [ran |-> TRUE,  status |-> 200, set |-> TRUE, got |-> v, consumes |-> n, errs |-> NoErrs, panic |-> FALSE]
Refused(errs, n) == [ran |-> FALSE, status |-> 422, set |-> FALSE, got |-> VNull, consumes |-> n, errs |-> errs, panic |-> FALSE]
Panicked(n)      == [ran |-> FALSE, status |-> 0,   set |-> FALSE, got |-> VNull, consumes |-> n, errs |-> NoErrs, panic |-> TRUE]

\* UntypedRequestBinder.Bind (one body parameter, map target) + validation.parameters + the handler
Outcome(p, rq) ==
  IF AbsentBodyRule /\ ~p.hasDef /\ ~HasBody(rq)
  THEN IF p.required THEN Refused(<<[code |-> 602, path |-> <<p.name>>]>>, 0)       \* errors.Required(name, "body")
       ELSE Ran(ZeroOf(TargetType(p.schema)), 0)
  ELSE LET b == BindBody(p, rq) IN
       CASE b.k = "panic" -> Panicked(b.consumes)
         [] b.k = "err"   -> Refused(<<[code |-> b.code, path |-> <<p.name>>]>>, b.consumes)
         [] b.k = "bound" ->
              LET data == Validated(b.v)
                  bad  == Violations(p.schema, data, <<p.name>>, IF LibraryConforms THEN "go" ELSE "lib")   \* binder.validator.Validate(target)
              IN IF bad = {} THEN Ran(b.v, b.consumes)
                 ELSE Refused(<<[code |-> 600, path |-> CHOOSE q \in bad : TRUE]>>, b.consumes)

(***************************************************************************************************)
(* Part 5: the property                                                                            *)
(***************************************************************************************************)
\* the handler's value `o` is exactly the decoded document v: same shape, same strings, number LITERALS unchanged
RECURSIVE Same(_, _)
Same(v, o) ==
  /\ v.k = o.k
  /\ CASE v.k = "null" -> TRUE
       [] v.k = "bool" -> v.b = o.b
       [] v.k = "num"  -> v.txt = o.txt
       [] v.k = "str"  -> v.s = o.s
       [] v.k = "arr"  -> Len(v.items) = Len(o.items) /\ \A i \in DOMAIN v.items : Same(v.items[i], o.items[i])
       [] v.k = "obj"  -> /\ Keys(o) = Keys(v) /\ Len(o.mem) = Cardinality(Keys(v))
                          /\ \A i \in DOMAIN o.mem : Same(Field(v, o.mem[i].key), o.mem[i].val)

IsSubseq(a, b) ==      \* the names in a occur in b in the same order
  LET RECURSIVE Sub(_, _)
      Sub(i, j) == IF i > Len(a) THEN TRUE ELSE IF j > Len(b) THEN FALSE
                   ELSE IF a[i] = b[j] THEN Sub(i + 1, j + 1) ELSE Sub(i, j + 1)
  IN Sub(1, 1)

\* a 422 whose every entry names the parameter and only mentions fields on the way to an offending field
RefusedNaming(p, o, paths) ==
  /\ ~o.ran /\ o.status = 422 /\ Len(o.errs) >= 1
  /\ \A i \in DOMAIN o.errs : /\ Len(o.errs[i].path) >= 1 /\ o.errs[i].path[1] = p.name
                              /\ \E q \in paths : IsSubseq(Tail(o.errs[i].path), q)
RunsWith(o, v)  == o.ran /\ o.status = 200 /\ o.set /\ (IF v.k = "null" THEN o.got.k = "nil" ELSE o.got.k # "nil" /\ Same(v, o.got))
RunsUnbound(o)  == o.ran /\ o.status = 200 /\ (o.set => o.got.k = "nil")

\* the operation may also declare a required integer query parameter q (p.q); rq.q = "ok" | "bad" | "" (not sent)
OtherParamRefused(p, rq) == Get(p, "q", FALSE) /\ Get(rq, "q", "") # "ok"

Allowed(p, rq, o) ==
  /\ ~o.panic
  /\ o.consumes <= 1                                   \* the body is handed to the consumer at most once
  /\ ~Bytes(rq) => o.consumes = 0
  /\ IF OtherParamRefused(p, rq)
     THEN ~o.ran /\ o.status = 422 /\ Len(o.errs) >= 1     \* whichever parameter the answer names, the handler does not run
     ELSE
     IF ~Bytes(rq) \/ rq.syn = "ws"
     THEN \* no document: the default when one is declared; else "required" / unbound (no bytes); a blank body without
          \* default is refused as unreadable (named deviation BlankBodyIsUnreadable: the statement fixes only the default)
          IF p.hasDef THEN RunsWith(o, p.def)
          ELSE IF Bytes(rq) THEN RefusedNaming(p, o, {<<>>})
          ELSE IF p.required THEN RefusedNaming(p, o, {<<>>}) /\ o.errs[1].code = 602
          ELSE RunsUnbound(o)
     ELSE IF rq.syn \in {"bad", "trunc"} THEN RefusedNaming(p, o, {<<>>})
     ELSE LET okMath == Valid(p.schema, rq.v, "math")
              okGo   == Valid(p.schema, rq.v, "go")
          IN \/ (okMath \/ okGo) /\ RunsWith(o, rq.v)
             \/ (~okMath \/ ~okGo) /\ RefusedNaming(p, o, Violations(p.schema, rq.v, <<>>, "go") \cup {<<>>})

\* the clause an observation violates (for the report)
Why(p, rq, o) ==
  IF o.panic THEN "binding-panics"
  ELSE IF o.consumes > 1 THEN "body-consumed-more-than-once"
  ELSE IF ~Bytes(rq) /\ o.consumes # 0 THEN "consumer-called-without-body"
  ELSE IF o.status \notin {200, 422} THEN "status-neither-200-nor-422"
  ELSE IF o.status = 422 /\ o.ran THEN "422-but-handler-ran"
  ELSE IF o.status = 200 /\ ~o.ran THEN "200-but-handler-did-not-run"
  ELSE IF OtherParamRefused(p, rq) THEN "handler-ran-although-another-parameter-is-invalid"
  ELSE IF ~Bytes(rq) \/ rq.syn = "ws" THEN
         IF p.hasDef THEN (IF o.ran THEN "handler-did-not-receive-the-default" ELSE "default-not-applied-to-missing-body")
         ELSE IF Bytes(rq) THEN (IF o.ran THEN "blank-body-accepted" ELSE "422-does-not-name-the-parameter")
         ELSE IF p.required THEN (IF o.ran THEN "required-body-missing-but-handler-ran" ELSE "missing-required-body-not-reported-as-required")
         ELSE (IF o.ran THEN "unbound-body-parameter-has-a-value" ELSE "optional-body-missing-but-refused")
  ELSE IF rq.syn \in {"bad", "trunc"} THEN (IF o.ran THEN "unreadable-body-accepted" ELSE "422-does-not-name-the-parameter")
  ELSE LET okMath == Valid(p.schema, rq.v, "math")  okGo == Valid(p.schema, rq.v, "go") IN
       IF o.ran /\ ~okMath /\ ~okGo THEN "invalid-body-accepted"
       ELSE IF o.ran /\ (~o.set \/ o.got.k = "nil") THEN "handler-did-not-receive-the-body"
       ELSE IF o.ran THEN "handler-value-differs-from-the-decoded-body"
       ELSE IF okMath /\ okGo THEN "valid-body-refused"
       ELSE "422-does-not-name-the-parameter-or-an-offending-field"
=============================================================================
