SPECIFICATION Spec
CONSTANTS
  GuardReserved = TRUE
  GuardNul = FALSE
  MaxSegs = 2
  MaxRecs = 2
  MaxPath = 4
  PathBytes = {97, 47, 58, 0}
  WithRestconf = FALSE
INVARIANTS LayoutRefinesTrie ArrPropertyHolds
CHECK_DEADLOCK FALSE
