SPECIFICATION Spec
CONSTANTS
  GuardReserved = TRUE
  GuardNul = TRUE
  MaxSegs = 2
  MaxRecs = 2
  MaxPath = 4
  PathBytes = {97, 98, 47, 58, 35, 0}
  WithRestconf = FALSE
INVARIANTS LayoutRefinesTrie ArrPropertyHolds
CHECK_DEADLOCK FALSE
