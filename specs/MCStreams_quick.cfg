SPECIFICATION Spec
CONSTANTS
  BufSize = 2
  MaxEmptyReads = 100
  NilCloseGuarded = TRUE
  MaxContent = 2
  MaxChunks = 3
  MaxChunk = 2
  ReadSizes = {0, 1, 2}
  MaxHist = 5
  MaxConds = 1
  OneShots = {"err"}
  CloseErrs = {FALSE, TRUE}
CONSTRAINT Bound
INVARIANTS StepsAllowed StateInv
CHECK_DEADLOCK FALSE
