SPECIFICATION GSpec
CONSTANTS
  BufSize = 2
  MaxEmptyReads = 100
  NilCloseGuarded = TRUE
  MaxContent = 2
  MaxChunks = 3
  MaxChunk = 2
  MaxRead = 2
  MaxHist = 4
VIEW GView
CONSTRAINT GBound
CHECK_DEADLOCK FALSE
