SPECIFICATION GSpec
CONSTANTS
  BufSize = 4096
  MaxEmptyReads = 100
  NilCloseGuarded = TRUE
  MaxContent = 2
  MaxChunks = 3
  MaxChunk = 2
  ReadSizes = {0, 1, 2, 4096}
  MaxHist = 4
VIEW GView
CONSTRAINT GBound
CHECK_DEADLOCK FALSE
