------------------------- MODULE MCRoundTripSession -------------------------
(* History on one server and one upload source (C04).                        *)
(*  session - one server built from the configuration Cfg serves up to        *)
(*            MaxSteps calls chosen freely (sibling templates /f/{n},         *)
(*            /f/{d}/{n}, /f/{d}/{s}/{n} with values that contain '/' and     *)
(*            '%'; parameter-free operations POST /notes and PUT /notes that  *)
(*            consume JSON and text, called with either media type).  The     *)
(*            state is what the implementation remembers; every call of every *)
(*            session must reach its own operation with its own values, the   *)
(*            outcome must equal the one a fresh server gives, and the        *)
(*            faithful model's memory stays empty.                            *)
(*  upload  - an upload source of up to MaxUpload bytes handed over at every  *)
(*            offset, seekable or not, typed or sniffed, healthy or failing   *)
(*            after any number of bytes: the part written is what remained to *)
(*            be read, or the request is not sent.                            *)
(*  form    - a form field (scalar / multi) with up to 2 values in the body,  *)
(*            urlencoded or multipart, and up to 2 same-named keys in the     *)
(*            URL's query (static parameters): bound from the body alone.     *)
(*  pieces  - a response body delivered in 1..3 pieces of 0..2 bytes, with    *)
(*            and without connection re-use: it reaches the reader intact.    *)
EXTENDS RoundTrip

CONSTANTS PathAtoms, BodyAtoms, MaxLenName, MaxLenBody, MaxSteps, MaxUpload, SniffLen

VARIABLES track, mem, n, call, out, src
vars == <<track, mem, n, call, out, src>>

Lit(s) == [k |-> "lit", s |-> s, n |-> ""]
Ph(x)  == [k |-> "ph", s |-> <<>>, n |-> x]
F == <<102>>   \* "f"
Cfg == { [id |-> "getFile",   method |-> "GET",  tmpl |-> << Lit(F), Ph("name") >>,                       consumes |-> {}],
         [id |-> "getNested", method |-> "GET",  tmpl |-> << Lit(F), Ph("dir"), Ph("name") >>,            consumes |-> {}],
         [id |-> "getDeep",   method |-> "GET",  tmpl |-> << Lit(F), Ph("dir"), Ph("sub"), Ph("name") >>, consumes |-> {}],
         [id |-> "addNote",   method |-> "POST", tmpl |-> << Lit(<<110>>) >>,                            consumes |-> BodyMedia],
         [id |-> "putNote",   method |-> "PUT",  tmpl |-> << Lit(<<110>>) >>,                            consumes |-> BodyMedia] }

Strs(atoms, lo, hi) == UNION { [1..m -> atoms] : m \in lo..hi }

Calls ==
  { [op |-> "getFile", vals |-> [name |-> v], media |-> "none", body |-> <<>>] : v \in Strs(PathAtoms, 1, MaxLenName) }
  \cup { [op |-> "getNested", vals |-> [dir |-> d, name |-> v], media |-> "none", body |-> <<>>] : d \in Strs(PathAtoms, 1, 1), v \in Strs(PathAtoms, 1, MaxLenName - 2) }
  \cup { [op |-> "getDeep", vals |-> [dir |-> d, sub |-> s, name |-> v], media |-> "none", body |-> <<>>] : d \in Strs(PathAtoms, 1, 1), s \in Strs(PathAtoms, 1, 1), v \in Strs(PathAtoms, 1, 1) }
  \cup { [op |-> o, vals |-> <<>>, media |-> m, body |-> b] : o \in {"addNote", "putNote"}, m \in BodyMedia, b \in Strs(BodyAtoms, 0, MaxLenBody) }

NoCall == [op |-> "", vals |-> <<>>, media |-> "none", body |-> <<>>]
Src0   == [content |-> <<>>, off |-> 0, seekable |-> FALSE, typed |-> FALSE, failat |-> <<>>]

Init == track = "start" /\ mem = Mem0 /\ n = 0 /\ call = NoCall /\ out = Refused /\ src = Src0

StartSession == track = "start" /\ track' = "session" /\ UNCHANGED <<mem, n, call, out, src>>
Exchange ==
  /\ track = "session" /\ n < MaxSteps
  /\ \E c \in Calls :
       LET s == Serve(mem, Cfg, ClientRequest(Cfg, c)) IN
       /\ mem' = s.mem /\ out' = s.out /\ call' = c /\ n' = n + 1
  /\ UNCHANGED <<track, src>>

StartUpload ==
  /\ track = "start" /\ track' = "upload"
  /\ \E k \in 0..MaxUpload, sk \in BOOLEAN, ty \in BOOLEAN :
       \E fa \in {<<>>} \cup {<<j>> : j \in 0..k} :
         src' = [content |-> [i \in 1..k |-> i], off |-> 0, seekable |-> sk, typed |-> ty, failat |-> fa]
  /\ UNCHANGED <<mem, n, call, out>>
ReadAhead ==        \* the caller consumes a byte before handing the source over
  /\ track = "upload" /\ src.off < Len(src.content)
  /\ src' = [src EXCEPT !.off = @ + 1]
  /\ UNCHANGED <<track, mem, n, call, out>>

\* form and pieces: the inputs are chosen in one step (call = the form case, out unused; src.content = the pieces' sizes)
FormVals == {<<>>, <<<<97>>>>, <<<<98>>, <<>>>>, <<<<97>>, <<98>>>>}
KVs(name, vals) == [i \in 1..Len(vals) |-> [k |-> name, v |-> vals[i]]]
StartForm ==
  /\ track = "start" /\ track' = "form"
  /\ \E m \in {"urlencoded", "multipart"}, kd \in {"scalar", "multi"}, bv \in FormVals, qv \in FormVals, other \in BOOLEAN :
       call' = [op |-> kd, vals |-> <<>>, media |-> m,
                body |-> << KVs("f", bv), KVs("f", qv) \o (IF other THEN KVs("g", <<<<99>>>>) ELSE <<>>) >>]
  /\ UNCHANGED <<mem, n, out, src>>
PieceSets == UNION { [1..k -> {<<>>, <<1>>, <<1, 2>>}] : k \in 1..3 }
StartPieces ==
  /\ track = "start" /\ track' = "pieces"
  /\ \E ps \in PieceSets, reuse \in BOOLEAN : src' = [Src0 EXCEPT !.content = ps, !.seekable = reuse]
  /\ UNCHANGED <<mem, n, call, out>>

Next == StartSession \/ Exchange \/ StartUpload \/ ReadAhead \/ StartForm \/ StartPieces
Spec == Init /\ [][Next]_vars

\* every call of every session arrives as supplied
SessionAgrees == (track = "session" /\ n > 0 /\ SessionCallInScope(call)) => SessionCallAgrees(call, out)
\* ... and is answered as a fresh server would
HistoryIndependent == (track = "session" /\ n > 0) => out = Serve(Mem0, Cfg, ClientRequest(Cfg, call)).out
\* a correct implementation remembers nothing but its configuration
NothingRemembered == mem = Mem0
UploadAgreesMC == track = "upload" => /\ (~SourceFails(src) => UploadAgrees(src, SniffLen))
                                      /\ UploadOutcomeOK(src, SniffLen)
FormAgreesMC   == track = "form" => FormAgrees(call.media, call.op, call.body[1], call.body[2], "f")
PiecesIntactMC == track = "pieces" => BodyIntact(src.content, src.seekable)
=============================================================================
