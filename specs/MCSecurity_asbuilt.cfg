SPECIFICATION Spec
CONSTANTS
  SkipsUnregistered = TRUE
  Schemes <- SchemesAB
  MaxAlts = 2
  MaxPerAlt = 2
INVARIANTS PropertyHolds CallsOK TypeOK
CHECK_DEADLOCK FALSE
