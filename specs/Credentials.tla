---------------------------- MODULE Credentials ----------------------------
(***************************************************************************)
(* C14 - credentials written by the client are the credentials the server  *)
(* checks.  client/auth_info.go (BasicAuth, APIKeyAuth, BearerToken,       *)
(* Compose), client/runtime.go (default authentication wrapper),           *)
(* security/authenticator.go (BasicAuth*, APIKeyAuth*, BearerAuth* and the  *)
(* Http/Scoped adapters).                                                  *)
(*                                                                         *)
(* A case `in`:                                                            *)
(*   op, def : Seq(writer)   per-operation / transport-wide default auth   *)
(*                           (<<>> = none, several = client.Compose)       *)
(*     writer = [t |-> "basic" | "apikey" | "bearer", name, in, u, p]      *)
(*              basic: u, p; apikey: name, in ("header"|"query"), p = key; *)
(*              bearer: p = token; t = "absent": a nil entry of a Compose   *)
(*              list (a credential the application did not configure):     *)
(*              it writes nothing and the other entries are still applied  *)
(*   authz   : bytes         an Authorization header set by the params     *)
(*                           writer (<<>> = none; never Basic/Bearer)       *)
(*   hdrs, query, form : Seq([k, v])  parameters set by the params writer  *)
(*   media   : "none" | "urlencoded" | "multipart"  form encoding          *)
(*   static  : Seq([k, v])   static query parameters of the configuration: *)
(*                           those of the Runtime's base path, then those  *)
(*                           of the operation's path pattern               *)
(*   debug   : BOOLEAN       Runtime.Debug (requests are dumped to the log) *)
(*   transport : "direct" (CreateHttpRequest) | "server" (Submit: the      *)
(*                           request is really sent)                       *)
(* A server authenticator `A`:                                             *)
(*   [kind |-> "basic"|"apikey"|"bearer", name (apikey key name: bytes),  *)
(*    scheme (bearer scheme name), in, realm : STRING, scopes,             *)
(*    cberr : BOOLEAN (the application callback rejects)]                   *)
(* An observation `o` of running A on the request the client built:        *)
(*   [called, user, pass, token, scopes, applies, princ : "cb"|"nil"|      *)
(*    "other", err : "nil"|"cb"|"other", failed_basic, oauth2 : STRING]     *)
(***************************************************************************)
EXTENDS Integers, Sequences, FiniteSets, TLC

CONSTANT Mutant   \* "none" | "formvalue" (the tree as found, D27) | "urlb64" | "lastcolon" | "queryfirst" | "defaultalways" | "nolower"
                  \* | "staticbeforeauth" (the client-set query parameters are snapshot before the auth writer ran)
                  \* | "redactsent" (with Debug on the Authorization header redacted for the dump is what Submit sends)
                  \* | "stickydefault" (the default-authentication wrapper is built once and keeps the first default)
                  \* | "composebreak" (client.Compose stops at its first nil entry instead of skipping it)
                  \* | "authintoop" (the wrapper, with the default of that moment, is stored into the CALLER's operation.AuthInfo)

COLON == 58
ACCESS == <<97, 99, 99, 101, 115, 115, 95, 116, 111, 107, 101, 110>>    \* "access_token"
REDACTED == <<91, 114, 101, 100, 97, 99, 116, 101, 100, 93>>             \* "[redacted]"
DefaultRealm == "API"

Lower(s) == [i \in 1..Len(s) |-> IF s[i] >= 65 /\ s[i] <= 90 THEN s[i] + 32 ELSE s[i]]

RECURSIVE IndexOf(_, _, _)
IndexOf(s, c, i) == IF i > Len(s) THEN 0 ELSE IF s[i] = c THEN i ELSE IndexOf(s, c, i + 1)
RECURSIVE LastIndexOf(_, _, _)
LastIndexOf(s, c, i) == IF i = 0 THEN 0 ELSE IF s[i] = c THEN i ELSE LastIndexOf(s, c, i - 1)

\* last entry of an association list with a matching key; <<>> = absent, else <<v>>
\* mode "exact": byte equality; "header": equality of the canonical header keys (ASCII case-insensitive)
KeyEq(a, b, mode) == IF mode = "header" THEN Lower(a) = Lower(b) ELSE a = b
RECURSIVE LastMatch(_, _, _)
LastMatch(kvs, k, mode) ==
  IF kvs = <<>> THEN <<>>
  ELSE LET e == kvs[Len(kvs)] IN
       IF KeyEq(e.k, k, mode) THEN <<e.v>> ELSE LastMatch(SubSeq(kvs, 1, Len(kvs) - 1), k, mode)

---------------------------------------------------------------------------
(* Client side: what is put on the wire                                    *)

\* createHttpRequest: the default is used iff the operation has no auth of its own; the wrapper
\* skips it when an Authorization header is already present.
\* client.Compose: every non-nil writer of the list is applied, in order; nil entries are skipped
RECURSIVE UpToAbsent(_)
UpToAbsent(ws) == IF ws = <<>> \/ Head(ws).t = "absent" THEN <<>> ELSE <<Head(ws)>> \o UpToAbsent(Tail(ws))
Composed(ws) == IF Mutant = "composebreak" THEN UpToAbsent(ws) ELSE SelectSeq(ws, LAMBDA w : w.t # "absent")

EffectiveWriters(in) ==
  IF in.op # <<>> THEN Composed(in.op)
  ELSE IF in.def # <<>> /\ (in.authz = <<>> \/ Mutant = "defaultalways") THEN Composed(in.def)
  ELSE <<>>

\* headers / query after the params writer and then the auth writers ran (SetHeaderParam and
\* SetQueryParam replace)
WriterHdrs(ws)  == LET s == SelectSeq(ws, LAMBDA w : w.t = "apikey" /\ w.in = "header") IN [i \in 1..Len(s) |-> [k |-> s[i].name, v |-> s[i].p]]
WriterQuery(ws) == LET s == SelectSeq(ws, LAMBDA w : w.t = "apikey" /\ w.in = "query")  IN [i \in 1..Len(s) |-> [k |-> s[i].name, v |-> s[i].p]]

\* the Authorization header: [t |-> "none"] | [t |-> "raw", v] | [t |-> "basic", u, p] | [t |-> "bearer", p]
NoAuthz == [t |-> "none", u |-> <<>>, p |-> <<>>]
WireAuthz(in) ==
  LET s == SelectSeq(EffectiveWriters(in), LAMBDA w : w.t \in {"basic", "bearer"}) IN
  IF s # <<>> THEN [t |-> s[Len(s)].t, u |-> s[Len(s)].u, p |-> s[Len(s)].p]     \* the last writer of the header wins
  ELSE IF in.authz # <<>> THEN [t |-> "raw", u |-> <<>>, p |-> in.authz]
  ELSE NoAuthz

\* buildHTTP: the static query parameters of the base path / path pattern are merged in after the auth writer ran; a
\* static parameter is set (SetQueryParam: replaces) only when no parameter of that name was set by the client - by the
\* params writer or by the auth writer.  In the association lists the last entry of a key is the one on the wire.
KeysOf(kvs) == {kvs[i].k : i \in 1..Len(kvs)}
ClientSetQuery(in) == in.query \o WriterQuery(EffectiveWriters(in))
SnapshotKeys(in) == IF Mutant = "staticbeforeauth" THEN KeysOf(in.query) ELSE KeysOf(ClientSetQuery(in))    \* originalParams
WireQuery(in) == ClientSetQuery(in) \o SelectSeq(in.static, LAMBDA e : e.k \notin SnapshotKeys(in))

\* Submit with Debug on dumps the request (httputil.DumpRequestOut) and sends it unchanged
SentAuthz(in) ==
  LET a == WireAuthz(in) IN
  IF Mutant = "redactsent" /\ in.debug /\ in.transport = "server" /\ a.t # "none"
  THEN (IF a.t = "bearer" THEN [t |-> "bearer", u |-> <<>>, p |-> REDACTED] ELSE [t |-> "raw", u |-> <<>>, p |-> REDACTED])
  ELSE a

Wire(in) == [authz |-> SentAuthz(in),
             hdrs  |-> in.hdrs \o WriterHdrs(EffectiveWriters(in)),
             query |-> WireQuery(in),
             form  |-> in.form, media |-> in.media]

---------------------------------------------------------------------------
(* ONE Runtime, MANY requests.  Between requests the application may       *)
(* REPLACE the configuration (Runtime.DefaultAuthentication: token         *)
(* refresh, other scheme; Runtime.Debug).  A correct Runtime remembers     *)
(* nothing but that configuration: a request is built from the fields as   *)
(* they are when it is made.                                               *)
(*  cfg = [def : Seq(writer), debug : BOOLEAN]                             *)
(*  mem = [firstdef : <<>> | <<def>>]  - empty for ever in the faithful    *)
(*        model; the mutant keeps the default seen at first use            *)
RtMem0 == [firstdef |-> <<>>]

\* createHttpRequest: `auth == nil && r.DefaultAuthentication != nil` - the wrapper calls r.DefaultAuthentication
UsesDefault(cfg, req) == req.op = <<>> /\ cfg.def # <<>>
DefaultWriter(mem, cfg) == IF Mutant = "stickydefault" /\ mem.firstdef # <<>> THEN mem.firstdef[1] ELSE cfg.def

\* The CALLER's ClientOperation value is state of the caller, not of the transport: it may be submitted again - after the
\* configuration was replaced, or through ANOTHER Runtime - and Submit must leave it as it was.
\*  opval = [stuck : <<>> | <<def>>]  what the implementation wrote into an operation value that has no AuthInfo of its own
\*          (nothing, for ever, in the faithful model)
OpVal0 == [stuck |-> <<>>]
\* the default credential the request is built with, for an operation without AuthInfo of its own
DefaultSeen(mem, opval, cfg) ==
  IF Mutant = "authintoop" /\ opval.stuck # <<>> THEN opval.stuck[1]      \* operation.AuthInfo # nil: the stored wrapper, whatever the Runtime
  ELSE DefaultWriter(mem, cfg)
\* a Runtime (mem, cfg) makes the request req with the caller's operation value opval -> [mem, opval, seen]
RtSubmit(mem, opval, cfg, req) ==
  LET own == req.op # <<>> IN
  [mem   |-> IF Mutant = "stickydefault" /\ UsesDefault(cfg, req) /\ mem.firstdef = <<>> THEN [firstdef |-> <<cfg.def>>] ELSE mem,
   opval |-> IF Mutant = "authintoop" /\ ~own /\ opval.stuck = <<>> /\ cfg.def # <<>> THEN [stuck |-> <<cfg.def>>] ELSE opval,
   seen  |-> [req EXCEPT !.def = IF own THEN cfg.def ELSE DefaultSeen(mem, opval, cfg), !.debug = cfg.debug]]

\* the case as the configuration in force (of the Runtime that sends it, when it sends it) defines it
InForceCase(cfg, req) == [req EXCEPT !.def = cfg.def, !.debug = cfg.debug]

---------------------------------------------------------------------------
(* Server side, as coded                                                   *)

\* http.Request.BasicAuth: "Basic " prefix, base64 (StdEncoding) decoding, cut at the first ':'
\* the client encodes with StdEncoding; a decoder for another alphabet fails on data whose
\* encoding uses the two differing symbols - abstracted as "contains a byte >= 128"
Decodable(data) == Mutant # "urlb64" \/ \A i \in 1..Len(data) : data[i] < 128
SrvBasicCred(w) ==
  IF w.authz.t = "basic" /\ Decodable(w.authz.u \o <<COLON>> \o w.authz.p)
  THEN LET d == w.authz.u \o <<COLON>> \o w.authz.p
           i == IF Mutant = "lastcolon" THEN LastIndexOf(d, COLON, Len(d)) ELSE IndexOf(d, COLON, 1)
       IN <<[u |-> SubSeq(d, 1, i - 1), p |-> SubSeq(d, i + 1, Len(d))]>>
  ELSE <<>>

SrvAPIKeyToken(w, A) ==
  LET m == IF A.in = "header" THEN LastMatch(w.hdrs, A.name, IF Mutant = "nolower" THEN "exact" ELSE "header") ELSE LastMatch(w.query, A.name, "exact")
  IN IF m = <<>> THEN <<>> ELSE m[1]

SrvBearerToken(w) ==
  LET hdr == IF w.authz.t = "bearer" THEN w.authz.p ELSE <<>>                 \* strings.HasPrefix(hdr, "Bearer ")
      q   == LET m == LastMatch(w.query, ACCESS, "exact") IN IF m = <<>> THEN <<>> ELSE m[1]
      \* repaired (finding D27): r.PostFormValue - the body's value.  As found ("formvalue"): r.FormValue
      \* = first of r.Form, which lists the body's values before the query's for urlencoded bodies
      \* but AFTER them for multipart bodies, so an empty access_token query parameter hides the form token.
      f   == IF w.media \in {"urlencoded", "multipart"}
             THEN (LET m  == LastMatch(w.form, ACCESS, "exact")
                       qm == LastMatch(w.query, ACCESS, "exact")
                       vs == IF Mutant = "formvalue" /\ w.media = "multipart" THEN qm \o m ELSE m \o qm
                   IN IF vs = <<>> THEN <<>> ELSE vs[1])
             ELSE <<>>
  IN IF Mutant = "queryfirst" THEN (IF q # <<>> THEN q ELSE IF hdr # <<>> THEN hdr ELSE f)
     ELSE IF hdr # <<>> THEN hdr ELSE IF q # <<>> THEN q ELSE f

Realm(A) == IF A.realm = "" THEN DefaultRealm ELSE A.realm

NotApplicable(A) == [called |-> FALSE, user |-> <<>>, pass |-> <<>>, token |-> <<>>, scopes |-> <<>>,
                     applies |-> FALSE, princ |-> "nil", err |-> "nil",
                     failed_basic |-> IF A.kind = "basic" THEN Realm(A) ELSE "", oauth2 |-> ""]

SrvAuth(w, A) ==
  CASE A.kind = "basic" ->
         LET c == SrvBasicCred(w) IN
         IF c = <<>> THEN NotApplicable(A)
         ELSE [called |-> TRUE, user |-> c[1].u, pass |-> c[1].p, token |-> <<>>, scopes |-> <<>>, applies |-> TRUE,
               princ |-> "cb", err |-> IF A.cberr THEN "cb" ELSE "nil",
               failed_basic |-> IF A.cberr THEN Realm(A) ELSE "", oauth2 |-> ""]
    [] A.kind = "apikey" ->
         LET t == SrvAPIKeyToken(w, A) IN
         IF t = <<>> THEN NotApplicable(A)
         ELSE [called |-> TRUE, user |-> <<>>, pass |-> <<>>, token |-> t, scopes |-> <<>>, applies |-> TRUE,
               princ |-> "cb", err |-> IF A.cberr THEN "cb" ELSE "nil", failed_basic |-> "", oauth2 |-> ""]
    [] A.kind = "bearer" ->
         LET t == SrvBearerToken(w) IN
         IF t = <<>> THEN NotApplicable(A)
         ELSE [called |-> TRUE, user |-> <<>>, pass |-> <<>>, token |-> t, scopes |-> A.scopes, applies |-> TRUE,
               princ |-> "cb", err |-> IF A.cberr THEN "cb" ELSE "nil", failed_basic |-> "", oauth2 |-> A.scheme]

---------------------------------------------------------------------------
(* The property C14                                                        *)

\* the writers in force: the operation's own, else the default - the default only when the
\* operation has none and no Authorization header is already set
InForce(in) == IF in.op # <<>> THEN in.op ELSE IF in.authz = <<>> THEN in.def ELSE <<>>

\* named deviation LastAuthorizationWriterWins: composed basic/bearer writers share one header
Last(s) == s[Len(s)]
WrittenAuthz(in) == SelectSeq(InForce(in), LAMBDA w : w.t \in {"basic", "bearer"})

\* the credential of the authenticator's kind that the request carries: <<>> or <<cred>>
CarriedBasic(in) ==
  IF WrittenAuthz(in) # <<>> /\ Last(WrittenAuthz(in)).t = "basic"
  THEN <<[u |-> Last(WrittenAuthz(in)).u, p |-> Last(WrittenAuthz(in)).p]>> ELSE <<>>

\* query parameters by increasing precedence: static ones of the base path, of the path pattern, those set by the params
\* writer, those written by the credential writers
CarriedAPIKey(in, A) ==
  LET written == SelectSeq(InForce(in), LAMBDA w : w.t = "apikey" /\ w.in = A.in)
      all     == (IF A.in = "header" THEN in.hdrs ELSE in.static \o in.query) \o [i \in 1..Len(written) |-> [k |-> written[i].name, v |-> written[i].p]]
      m       == LastMatch(all, A.name, IF A.in = "header" THEN "header" ELSE "exact")
  IN IF m = <<>> \/ m[1] = <<>> THEN <<>> ELSE m

\* header, else access_token query parameter, else form body
CarriedBearer(in) ==
  LET hdr  == IF WrittenAuthz(in) # <<>> /\ Last(WrittenAuthz(in)).t = "bearer" THEN Last(WrittenAuthz(in)).p ELSE <<>>
      wq   == SelectSeq(InForce(in), LAMBDA w : w.t = "apikey" /\ w.in = "query")
      qm   == LastMatch(in.static \o in.query \o [i \in 1..Len(wq) |-> [k |-> wq[i].name, v |-> wq[i].p]], ACCESS, "exact")
      q    == IF qm = <<>> THEN <<>> ELSE qm[1]
      fm   == IF in.media \in {"urlencoded", "multipart"} THEN LastMatch(in.form, ACCESS, "exact") ELSE <<>>
      f    == IF fm = <<>> THEN <<>> ELSE fm[1]
  IN IF hdr # <<>> THEN <<hdr>> ELSE IF q # <<>> THEN <<q>> ELSE IF f # <<>> THEN <<f>> ELSE <<>>

Carried(in, A) == CASE A.kind = "basic" -> CarriedBasic(in) [] A.kind = "apikey" -> CarriedAPIKey(in, A) [] A.kind = "bearer" -> CarriedBearer(in)

AuthOK(in, A, o) ==
  LET c == Carried(in, A) IN
  /\ o.applies = (c # <<>>)                      \* 'not applicable' exactly when no such credential is carried
  /\ o.called = o.applies                        \* the callback decides whenever there is one
  /\ o.called =>
       /\ CASE A.kind = "basic" -> o.user = c[1].u /\ o.pass = c[1].p       \* precisely the transmitted credential
            [] OTHER            -> o.token = c[1]
       /\ A.kind = "bearer" => o.scopes = A.scopes                          \* with the operation's required scopes
  /\ o.princ = (IF o.called THEN "cb" ELSE "nil")                           \* never a principal other than the callback's
  /\ o.err = (IF o.called /\ A.cberr THEN "cb" ELSE "nil")
  /\ o.failed_basic = (IF A.kind = "basic" /\ (~o.applies \/ A.cberr) THEN Realm(A) ELSE "")
  /\ o.oauth2 = (IF A.kind = "bearer" /\ o.applies THEN A.scheme ELSE "")

WhyAuth(in, A, o) ==
  LET c == Carried(in, A) IN
  IF o.applies # (c # <<>>) THEN (IF o.applies THEN "applies-without-credential" ELSE "not-applicable-with-credential")
  ELSE IF o.called # o.applies THEN "callback-not-consulted"
  ELSE IF o.called /\ A.kind = "basic" /\ ~(o.user = c[1].u /\ o.pass = c[1].p) THEN "basic-credential-differs"
  ELSE IF o.called /\ A.kind # "basic" /\ o.token # c[1] THEN "token-differs"
  ELSE IF o.called /\ A.kind = "bearer" /\ o.scopes # A.scopes THEN "scopes-differ"
  ELSE IF o.princ # (IF o.called THEN "cb" ELSE "nil") THEN "principal-not-callbacks"
  ELSE IF o.err # (IF o.called /\ A.cberr THEN "cb" ELSE "nil") THEN "error-not-callbacks"
  ELSE "markers"
=============================================================================
