---------------------------- MODULE MCClientURL ----------------------------
(* Exhaustive small-scope check of ClientURL: for every base-path spelling, *)
(* pattern, value map over the atom alphabet, and every order in which the  *)
(* value map may be iterated, the transcribed code satisfies C10; and the   *)
(* static-query merge and the scheme choice satisfy their clauses.          *)
(* The three parts of the URL are computed by independent operators, so     *)
(* they are explored on three independent tracks (no cross product).        *)
EXTENDS ClientURL, SequencesExt

CONSTANTS Atoms,        \* value alphabet (bytes standing for their class)
          MaxVal,       \* values: all atom strings up to this length ...
          MaxVal2,      \* ... (up to this length when the pattern has two placeholders)
          MaxSegs,      \* pattern segments
          LitPool,      \* literal segment texts
          MaxBaseQ, MaxPatQ, \* entries of the static queries of base path / pattern
          Schemes, MaxSchemes, MaxHistory

VARIABLES track, in
vars == <<track, in>>

LitPlain   == { <<120>> }                          \* "x"
LitEscaped == { <<120>>, <<99, 195, 169>>, <<97, SPACE, 94>> }   \* "x", "c\u00e9", "a ^": literal text that needs escaping
AtomsAll   == {97, SLASH, QMARK, HASH, PCT, SPACE, PLUS, DOT, LBRACE, RBRACE, 59, 195}
SchemesAll == {"http", "https", "ws"}

NA == <<97>>   \* placeholder names "a", "b"
NB == <<98>>
Lit(s) == [k |-> "lit", s |-> s]
Ph(n)  == [k |-> "ph", s |-> n]

\* values beyond the length bound: look like a placeholder, dot segments, an escape
Specials == { <<LBRACE, 98, RBRACE>>, <<LBRACE, 97, RBRACE>>, <<DOT, DOT>>, <<DOT>>, <<PCT, 50, 70>>, <<DOT, DOT, SLASH>> }

SegPool == { <<Lit(l)>> : l \in LitPool }
           \cup { <<Ph(NA)>>, <<Ph(NB)>>, <<Lit(<<112, 45>>), Ph(NA)>>, <<Ph(NA), Ph(NB)>>, <<Ph(NB), Lit(<<DOT, 106>>)>> }

BasePool == { [lead |-> FALSE, trailing |-> FALSE, segs |-> <<>>],                      \* ""
              [lead |-> TRUE,  trailing |-> FALSE, segs |-> <<>>],                      \* "/"
              [lead |-> FALSE, trailing |-> FALSE, segs |-> << <<97, 112, 105>> >>],    \* "api"
              [lead |-> TRUE,  trailing |-> FALSE, segs |-> << <<97, 112, 105>> >>],    \* "/api"
              [lead |-> TRUE,  trailing |-> TRUE,  segs |-> << <<97, 112, 105>> >>],    \* "/api/"
              [lead |-> TRUE,  trailing |-> FALSE, segs |-> << <<97, 112, 105>>, <<118, SPACE, 49>> >>] }  \* "/api/v 1"

NoQ == <<>>
In0 == [base |-> [lead |-> TRUE, trailing |-> FALSE, segs |-> <<>>, query |-> NoQ],
        pat  |-> [trailing |-> FALSE, segs |-> <<>>, query |-> NoQ],
        vals |-> <<[n |-> NA, v |-> <<>>], [n |-> NB, v |-> <<>>]>>,
        cq |-> NoQ, opauth |-> FALSE, aq |-> NoQ, dq |-> NoQ, rs |-> <<>>, os |-> <<>>, hist |-> <<>>, host |-> "h"]

Init == track = "start" /\ in = In0

\* ---- path track: base, then pattern segments, then values grown atom by atom
PhCount(p) == Cardinality({ n \in {NA, NB} : \E i \in 1..Len(p.segs) : \E j \in 1..Len(p.segs[i]) : p.segs[i][j] = Ph(n) })
Uses(p, n) == \E i \in 1..Len(p.segs) : \E j \in 1..Len(p.segs[i]) : p.segs[i][j] = Ph(n)

ChooseBase ==
  /\ track = "start"
  /\ \E b \in BasePool : in' = [in EXCEPT !.base = [lead |-> b.lead, trailing |-> b.trailing, segs |-> b.segs, query |-> NoQ]]
  /\ track' = "pattern"

AddSeg ==
  /\ track = "pattern"
  /\ Len(in.pat.segs) < MaxSegs
  /\ \E s \in SegPool : in' = [in EXCEPT !.pat.segs = Append(@, s)]
  /\ UNCHANGED track

ClosePattern ==
  /\ track = "pattern"
  /\ \E t \in BOOLEAN : in' = [in EXCEPT !.pat.trailing = t]
  /\ track' = "values"

ValBound == IF PhCount(in.pat) = 2 THEN MaxVal2 ELSE MaxVal

GrowValue ==
  /\ track = "values"
  /\ \E i \in 1..2 :
       /\ Uses(in.pat, in.vals[i].n)
       /\ in.vals[i].v \notin Specials
       /\ \/ /\ Len(in.vals[i].v) < ValBound
             /\ \E a \in Atoms : in' = [in EXCEPT !.vals[i].v = Append(@, a)]
          \/ /\ in.vals[i].v = <<>>
             /\ \E s \in Specials : in' = [in EXCEPT !.vals[i].v = s]
  /\ UNCHANGED track

\* ---- query track: each of three keys independently fixed nowhere / in base / pattern / caller (any subset)
QK == { <<107>>, <<113>> }        \* keys "k", "q"
QV(level) == << <<level>>, <<level, SPACE, PLUS>> >>   \* two values, one needing escapes
StartQuery == /\ track = "start" /\ track' = "query" /\ UNCHANGED in
AddQuery ==
  /\ track = "query"
  /\ \E k \in QK :
       \/ /\ Len(in.base.query) < MaxBaseQ
          /\ \E n \in 0..2 : in' = [in EXCEPT !.base.query = Append(@, [k |-> k, vs |-> SubSeq(QV(98), 1, n)])]
       \/ /\ Len(in.pat.query) < MaxPatQ
          /\ \E n \in 0..2 : in' = [in EXCEPT !.pat.query = Append(@, [k |-> k, vs |-> SubSeq(QV(112), 1, n)])]
       \/ /\ k \notin Keys(in.cq)
          /\ \E n \in 0..2 : in' = [in EXCEPT !.cq = Append(@, [k |-> k, vs |-> SubSeq(QV(99), 1, n)])]
       \/ /\ in.aq = NoQ      \* the operation's auth writer sets an API key in the query (or nothing: header key)
          /\ \/ in' = [in EXCEPT !.opauth = TRUE, !.aq = <<[k |-> k, vs |-> << <<97>> >>]>>]
             \/ ~in.opauth /\ in' = [in EXCEPT !.opauth = TRUE]
       \/ /\ in.dq = NoQ      \* Runtime.DefaultAuthentication sets one
          /\ in' = [in EXCEPT !.dq = <<[k |-> k, vs |-> << <<100>> >>]>>]
  /\ UNCHANGED track

\* ---- scheme track
StartScheme == /\ track = "start" /\ track' = "scheme" /\ UNCHANGED in
AddScheme ==
  /\ track = "scheme"
  /\ \/ /\ Len(in.rs) < MaxSchemes /\ \E s \in Schemes : in' = [in EXCEPT !.rs = Append(@, s)]
     \/ /\ Len(in.os) < MaxSchemes /\ \E s \in Schemes : in' = [in EXCEPT !.os = Append(@, s)]
  /\ UNCHANGED track

\* the same Runtime goes on to build a request for another operation (its own scheme list)
NextOperation ==
  /\ track = "scheme" /\ Len(in.hist) < MaxHistory - 1
  /\ in' = [in EXCEPT !.hist = Append(@, in.os), !.os = <<>>]
  /\ UNCHANGED track

Next == NextOperation \/ ChooseBase \/ AddSeg \/ ClosePattern \/ GrowValue \/ StartQuery \/ AddQuery \/ StartScheme \/ AddScheme
Spec == Init /\ [][Next]_vars

\* ---- invariants
Orders == { <<1, 2>>, <<2, 1>> }

PathHolds == track \in {"pattern", "values"} =>
  \A o \in Orders : LET r == CodePath(in, o) IN ~r.err /\ PathOK(in, r.esc)

OrderIndependent == track \in {"pattern", "values"} => CodePath(in, <<1, 2>>) = CodePath(in, <<2, 1>>)

QueryHolds == track = "query" => ValuesOK(in, CodeQuery(in))

SchemeHolds == track = "scheme" =>
  LET h == Append(in.hist, in.os) IN \A i \in 1..Len(h) : \A e \in Entries : SchemeOK(in.rs, h[i], CodeSchemeVia(e, in.rs, h, i))

\* the decoder used on real traces is the inverse of the encoder (sanity of the oracle itself)
RECURSIVE EncodePairs(_)
EncodePairs(ps) == IF ps = <<>> THEN <<>>
                   ELSE QueryEscape(Head(ps).k) \o <<EQ>> \o QueryEscape(Head(ps).v)
                        \o (IF Len(ps) > 1 THEN <<AMP>> ELSE <<>>) \o EncodePairs(Tail(ps))
RECURSIVE PairsOf(_, _)
PairsOf(vals, keys) == IF keys = <<>> THEN <<>>
                       ELSE [i \in 1..Len(vals[Head(keys)]) |-> [k |-> Head(keys), v |-> vals[Head(keys)][i]]]
                            \o PairsOf(vals, Tail(keys))
RawQueryRoundTrip == track = "query" =>
  LET v == CodeQuery(in) IN QueryOK(in, EncodePairs(PairsOf(v, SetToSeq(DOMAIN v))))

\* non-vacuity witnesses, violated when checked (development only)
NeverEscapes == \A o \in Orders : CodePath(in, o).esc = PatStr(in.pat)
=============================================================================
