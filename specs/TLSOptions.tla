----------------------------- MODULE TLSOptions -----------------------------
(* C18 - TLS client options never weaken verification or drop identity      *)
(* silently.  Faithful transcription of client.TLSClientAuth                *)
(* (runtime.go:119-201) over the abstract option lattice, the property      *)
(* stated declaratively next to it, and a handshake sub-model.              *)
(*                                                                          *)
(* opts = [ certFile   : none | rsa | ec | unreadable | garbage             *)
(*          certLoaded : none | rsa | ec                                    *)
(*          keyFile    : none | rsa | ec | other (valid key of another pair)*)
(*                            | unreadable | garbage                        *)
(*          keyLoaded  : none | rsa | ec | other_rsa | other_ec | ed25519   *)
(*          caFile     : none | ca1 | ca2 | unreadable | garbage            *)
(*          caLoaded   : none | ca1 | ca2                                   *)
(*          caPool     : none | ca1 | ca2 (a pool holding that CA) | empty   *)
(*          serverName : none | dns | ipv4 | ipv6  (a host name or an IP     *)
(*                       literal: the override is carried whatever it is)   *)
(*          insecure, callback, ticketsDisabled, cache : BOOLEAN ]           *)
(* "rsa"/"ec" name the two client key pairs (certificate ids = key ids).    *)
EXTENDS Integers, Sequences, FiniteSets, TLC

CertFiles   == {"none", "rsa", "ec", "unreadable", "garbage"}
CertLoadeds == {"none", "rsa", "ec"}
KeyFiles    == {"none", "rsa", "ec", "other", "unreadable", "garbage"}
KeyLoadeds  == {"none", "rsa", "ec", "other_rsa", "other_ec", "ed25519"}
CAFiles     == {"none", "ca1", "ca2", "unreadable", "garbage"}
CALoadeds   == {"none", "ca1", "ca2"}
CAPools     == {"none", "ca1", "ca2", "empty"}      \* "empty": a supplied pool holding no certificate (trust nothing)
CAIds       == {"ca1", "ca2"}
ServerNames == {"none", "dns", "ipv4", "ipv6"}

TLS12 == 771   \* 0x0303

PoolSet(o) == IF o.caPool \in {"none", "empty"} THEN {} ELSE {o.caPool}

ErrCfg(stage) == [err |-> stage, minVersion |-> 0, skipVerify |-> FALSE, serverName |-> "none", system |-> FALSE,
                  roots |-> {}, clientCert |-> "none", callback |-> FALSE, tickets |-> FALSE, cache |-> FALSE]

(***************************************************************************)
(* Faithful model                                                          *)
(***************************************************************************)
\* tls.LoadX509KeyPair(opts.Certificate, opts.Key)
LoadKeyPairFiles(o) == o.certFile \in {"rsa", "ec"} /\ o.keyFile = o.certFile

\* the LoadedCertificate branch: key marshalled by type (RSA, ECDSA, else unsupported), then tls.X509KeyPair
LoadedKeySupported(o) == o.keyLoaded \in {"rsa", "ec", "other_rsa", "other_ec"}
LoadedPairMatches(o)  == o.keyLoaded = o.certLoaded

Config(o) ==
  LET certErr ==
        IF o.certFile # "none" THEN (IF LoadKeyPairFiles(o) THEN "" ELSE "cert")                \* file certificate takes precedence
        ELSE IF o.certLoaded # "none"
             THEN (IF ~LoadedKeySupported(o) THEN "key" ELSE IF LoadedPairMatches(o) THEN "" ELSE "cert")
             ELSE ""                                                                             \* KeyWithoutCertIgnored
      clientCert == IF o.certFile # "none" THEN o.certFile ELSE o.certLoaded
      caErr == o.caLoaded = "none" /\ o.caFile = "unreadable"                                    \* a loaded CA takes precedence over the file
      system == o.caLoaded = "none" /\ o.caFile = "none" /\ o.caPool = "none"
      roots == IF o.caLoaded # "none" THEN PoolSet(o) \cup {o.caLoaded}
               ELSE IF o.caFile \in CAIds THEN PoolSet(o) \cup {o.caFile}
               ELSE PoolSet(o)                                                                   \* garbage file: nothing appended
  IN IF certErr # "" THEN ErrCfg(certErr)
     ELSE IF caErr THEN ErrCfg("ca")
     ELSE [err |-> "", minVersion |-> TLS12,
           skipVerify |-> (IF o.serverName # "none" THEN FALSE ELSE o.insecure),
           serverName |-> o.serverName, system |-> system, roots |-> roots, clientCert |-> clientCert,
           callback |-> o.callback, tickets |-> o.ticketsDisabled, cache |-> o.cache]

(***************************************************************************)
(* The property, declaratively                                             *)
(***************************************************************************)
\* the client certificate the options supply (file before loaded, as documented) and whether its material is usable
CertSlot(o) == IF o.certFile # "none" THEN o.certFile ELSE o.certLoaded
MaterialUsable(o) ==
  IF o.certFile # "none" THEN o.certFile \in {"rsa", "ec"} /\ o.keyFile = o.certFile
  ELSE o.certLoaded # "none" => o.keyLoaded = o.certLoaded
\* the roots the options supply (a loaded CA before a CA file, the pool combined with either, as documented)
SuppliedRoots(o) ==
  PoolSet(o) \cup (IF o.caLoaded # "none" THEN {o.caLoaded} ELSE IF o.caFile \in CAIds THEN {o.caFile} ELSE {})
NoCASupplied(o) == o.caLoaded = "none" /\ o.caFile = "none" /\ o.caPool = "none"

ConfigAllowed(o, c) ==
  /\ c.err = "" => c.minVersion >= TLS12                                   \* never below TLS 1.2
  /\ c.err = "" => (c.skipVerify <=> o.insecure /\ o.serverName = "none")  \* skips verification only when asked and no server name
  /\ c.err = "" => (c.system <=> NoCASupplied(o))                          \* system pool only when no roots are supplied
  /\ c.err = "" /\ ~c.system => c.roots = SuppliedRoots(o)                 \* exactly the supplied roots
  /\ c.err = "" => c.serverName = o.serverName /\ c.callback = o.callback  \* carried unchanged
                   /\ c.tickets = o.ticketsDisabled /\ c.cache = o.cache
  /\ c.err = "" => c.clientCert = CertSlot(o)                              \* exactly the supplied client certificate
  /\ ~MaterialUsable(o) => c.err # ""                                      \* unusable material is an error ...
  /\ CertSlot(o) # "none" /\ c.err = "" => c.clientCert # "none"           \* ... never a config silently lacking the certificate
  \* errors only for unusable client material or an unreadable CA file that is actually consulted (IgnoredCAFileNotRead)
  /\ c.err # "" => ~MaterialUsable(o) \/ (o.caLoaded = "none" /\ o.caFile = "unreadable")

WhyNot(o, c) ==
  IF c.err = "" /\ c.minVersion < TLS12 THEN "min-version-below-tls12"
  ELSE IF c.err = "" /\ ~(c.skipVerify <=> o.insecure /\ o.serverName = "none") THEN "insecure-skip-verify"
  ELSE IF c.err = "" /\ ~(c.system <=> NoCASupplied(o)) THEN "system-pool-iff-no-roots-supplied"
  ELSE IF c.err = "" /\ ~c.system /\ c.roots # SuppliedRoots(o) THEN "roots-not-exactly-the-supplied-ones"
  ELSE IF c.err = "" /\ ~(c.serverName = o.serverName /\ c.callback = o.callback /\ c.tickets = o.ticketsDisabled /\ c.cache = o.cache)
       THEN "server-name-callback-session-settings-changed"
  ELSE IF c.err = "" /\ c.clientCert # CertSlot(o) THEN "client-certificate-not-the-supplied-one"
  ELSE IF ~MaterialUsable(o) /\ c.err = "" THEN "unusable-material-accepted"
  ELSE "unexpected-error"

(***************************************************************************)
(* Handshake sub-model.  server = [issuer, name (matches the dialled /     *)
(* overridden name), wantsClientCert, maxTLS11]; trusted roots of the      *)
(* system pool never contain the test CAs.                                 *)
(***************************************************************************)
Servers ==
  [ A |-> [issuer |-> "ca1", nameOK |-> TRUE,  wantsCert |-> FALSE, old |-> FALSE],
    B |-> [issuer |-> "ca2", nameOK |-> TRUE,  wantsCert |-> FALSE, old |-> FALSE],
    C |-> [issuer |-> "ca1", nameOK |-> FALSE, wantsCert |-> FALSE, old |-> FALSE],
    D |-> [issuer |-> "ca1", nameOK |-> TRUE,  wantsCert |-> TRUE,  old |-> FALSE],
    E |-> [issuer |-> "ca1", nameOK |-> TRUE,  wantsCert |-> FALSE, old |-> TRUE ] ]

ServerVerified(c, sv) == c.skipVerify \/ (~c.system /\ sv.issuer \in c.roots /\ sv.nameOK)
HandshakeOK(c, sv) == /\ c.err = ""
                      /\ ~sv.old                                  \* a server limited to TLS 1.1 is never accepted
                      /\ ServerVerified(c, sv)
                      /\ sv.wantsCert => c.clientCert # "none"
\* The configuration in effect for a client built from the options is that configuration also after the transport went
\* through KeepAliveTransport / Runtime.EnableConnectionReuse (how a Runtime uses TLSTransport / TLSClient).
ThroughReuse(c) == c

\* The configuration is a value fixed when TLSClientAuth returns: what happens to the certificate / key files
\* afterwards (replaced by another valid pair, half rotated, removed) does not change what a later handshake presents.
FileMutations == {"none", "replace", "half", "remove"}
PresentedAfter(c, sv, mutation) == IF HandshakeOK(c, sv) /\ sv.wantsCert THEN c.clientCert ELSE "none"
\* mutant (must differ): the files are re-read at every handshake; a failed reload presents no certificate
OtherPair(id) == IF id = "rsa" THEN "ec" ELSE "rsa"
RereadPresented(c, sv, fromFiles, mutation) ==
  IF ~fromFiles \/ mutation = "none" THEN PresentedAfter(c, sv, mutation)
  ELSE IF mutation = "replace" THEN OtherPair(c.clientCert) ELSE "none"

Presented(c, sv) == IF HandshakeOK(c, sv) /\ sv.wantsCert THEN c.clientCert ELSE "none"
=============================================================================
