SPECIFICATION Spec
CONSTANTS
  AbsentBodyRule = TRUE
  ScalarTargets = TRUE
  NullIsNull = TRUE
  LibraryConforms = TRUE
  Thorough = TRUE
INVARIANTS PropertyHolds OracleAgrees
CHECK_DEADLOCK FALSE
