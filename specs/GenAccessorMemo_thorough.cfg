SPECIFICATION Spec
CONSTANTS
  SharedField = "none"
  MemoBound = TRUE
  HistLen = 4
POSTCONDITION Written
CHECK_DEADLOCK FALSE
