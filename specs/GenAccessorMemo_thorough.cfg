SPECIFICATION Spec
CONSTANTS
  SharedField = "none"
  MemoBound = TRUE
  SampleKinds = FALSE
  FreshVariants = FALSE
  HistLen = 4
POSTCONDITION Written
CHECK_DEADLOCK FALSE
