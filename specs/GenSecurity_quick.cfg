SPECIFICATION GenSpec
CONSTANTS
  SkipsUnregistered = FALSE
  Schemes <- SchemesAB
  MaxAlts = 2
  MaxPerAlt = 2
  Schemes2 <- SchemesAB
  MaxAlts2 = 0
CHECK_DEADLOCK FALSE
