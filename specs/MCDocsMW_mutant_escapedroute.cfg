SPECIFICATION Spec
CONSTANTS
  OAuthEscapes = TRUE
  SpecRouteEscaped = TRUE
  MaxSegs = 2
  MaxPayload = 3
  SegIds = {"docs", "api.json", "my specs", "my%20specs"}
  PayloadBytes = {97, 60, 62, 38, 34, 39, 43, 47, 92, 32}
INVARIANTS RoutingHolds
CHECK_DEADLOCK FALSE
