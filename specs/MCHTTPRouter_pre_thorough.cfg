SPECIFICATION Spec
CONSTANTS
  GuardReserved = TRUE
  GuardNul = TRUE
  UseEscapedPath = TRUE
  MaxOps = 2
  MaxSegs = 3
  Bases = {"empty", "/api"}
  TemplateIds = {"ak=x", "vxy", "k=xb", "ax", "xb"}
  OpMethods = {"GET", "POST"}
  ReqMethods = {"get", "POST"}
  SegIds = {"a", "b", "api", "k=:", "k=a", "k=", "v:", "va#"}
INVARIANTS PropertyHolds
CHECK_DEADLOCK FALSE
