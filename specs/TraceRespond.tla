----------------------------- MODULE TraceRespond -----------------------------
(* Trace validation of the real Context.Respond (through the untyped handler *)
(* and through the generated-server call sequence) against Respond.tla.     *)
(* case  : one API [route_produces (in the order the router holds them),    *)
(*         default, registry, secure, realm, authkind]; every method of /op *)
(*         declares its own response codes (event field `declared`), half   *)
(*         of the APIs have no operation ids; all requests of a case are    *)
(*         served in sequence by the same Context                           *)
(* events: built {produces}   route.Produces as the router holds it          *)
(*         respond {entry, method, target, creds, keycreds, declared, accept, *)
(*                  preset (Content-Type put on the response by an upstream   *)
(*                  middleware), outcome, status, ctype, produced, given,     *)
(*                  body, errs,                                               *)
(*                  wwwauth, panic}                                          *)
EXTENDS Respond, Json, IOUtils

VARIABLES l, st, skipping, fails, cs

RInit(e) == [produces |-> e.route_produces, default |-> e.default, registry |-> e.registry,
             declared |-> <<>>, realm |-> e.realm, defrealm |-> e.defrealm, rejclass |-> e.rejclass, secure |-> e.secure, authkind |-> e.authkind]
\* the configuration as the addressed operation sees it
Op(c, e) == [c EXCEPT !.declared = e.declared]

\* "the configured realm": the one given, else security.DefaultRealmName as it was when the authenticator was
\* built (defrealm) - the package variable is reassigned afterwards
EffRealm(c) == IF c.realm = "" \/ c.authkind = 2 THEN c.defrealm ELSE c.realm

Rq(e) == [method |-> e.method, accept |-> e.accept]
Err(code) == [k |-> "error", code |-> code, scripted |-> FALSE]

\* security of /op: basic alone, basic OR api key (both orders), basic AND api key
Authenticated(c, e) ==
  CASE c.secure = "none"          -> TRUE
    [] c.secure = "basic"         -> e.creds = "good"
    [] c.secure = "basic-and-key" -> e.creds = "good" /\ e.keycreds = "good"
    [] OTHER                      -> e.creds = "good" \/ e.keycreds = "good"
\* a basic-auth attempt failed and the request was refused.  In the AND group the basic scheme is certainly
\* consulted only when the key was accepted (either evaluation order); otherwise the statement is silent.
BasicFailed(c, e) ==
  /\ e.target = "op" /\ ~Authenticated(c, e) /\ e.creds # "good"
  /\ CASE c.secure = "basic-and-key" -> e.keycreds = "good"
       [] OTHER -> TRUE

\* status of a refusal by authentication: 401, or - when wrong basic credentials were presented - the status of the
\* error the application's basic-auth callback rejected them with (403, or 500 for an error without status);
\* which of several rejecting schemes' errors is served is left open (C02)
RejCode(c) == CASE c.rejclass = "403" -> 403 [] c.rejclass = "plain" -> 500 [] OTHER -> 401
AuthCodes(c, e) == {401} \cup (IF e.creds = "bad" THEN {RejCode(c)} ELSE {})

\* which stage answers: the router (no route), authentication, the Accept gate, or the handler's outcome
Answer(c, e) ==
  IF e.target = "missing" THEN Err(404)
  ELSE IF e.target = "wrongmethod" THEN Err(405)
  ELSE IF ~Authenticated(c, e) THEN Err(IF e.status \in AuthCodes(c, e) THEN e.status ELSE 401)
  ELSE IF c.produces # <<>> /\ Negotiated(c, Rq(e)) = {} THEN Err(406)     \* no 406 gate when nothing is produced
  ELSE [k |-> e.outcome.k, code |-> e.outcome.code, scripted |-> e.outcome.scripted]

RespondOK(c, e) ==
  LET a == Answer(c, e) IN
  /\ ~e.panic
  /\ CASE a.k \in {"value", "nil"} -> AllowedValue(c, Rq(e), a, e)
       [] a.k = "responder"        -> AllowedResponder(c, Rq(e), e)
       [] a.k = "libresponder"     -> AllowedLibResponder(c, Rq(e), a, e) /\ e.xhdr = "v"   \* the headers given to middleware.Error are sent
       [] a.k = "error"            -> AllowedError(c, Rq(e), a, e)
  \* "a failed basic-auth attempt carries a WWW-Authenticate challenge naming the configured realm"
  /\ BasicFailed(c, e) => e.wwwauth = Challenge(EffRealm(c))

RAllowed(s, e) ==
  CASE e.ev = "built"   -> e.produces = [i \in DOMAIN s.produces |-> Render(s.produces[i])]
    [] e.ev = "respond" -> RespondOK(Op(s, e), e)
    [] OTHER -> FALSE

RespondWhy(s, e) ==
  LET a == Answer(s, e) IN
  IF e.panic THEN "panic"
         ELSE IF BasicFailed(s, e) /\ e.wwwauth # Challenge(EffRealm(s)) THEN "basic-auth-challenge-missing-or-wrong-realm"
         ELSE IF a.k = "error" THEN
              (IF Len(e.errs) # 1 THEN "error-responder-not-invoked-exactly-once"
               ELSE IF a.scripted /\ (~e.errs[1].same \/ e.errs[1].code # a.code) THEN "error-responder-given-another-error"
               ELSE IF ~a.scripted /\ e.status # a.code THEN "earlier-stage-error-has-another-status"
               ELSE "error-content-type-not-negotiated-or-json")
         ELSE IF a.k = "libresponder" THEN
              (IF e.status # a.code THEN "library-responder-status-differs"
               ELSE IF e.xhdr # "v" THEN "library-responder-headers-not-sent"
               ELSE "library-responder-payload-not-written-by-the-producer-of-the-negotiated-type")
         ELSE IF a.k = "responder" THEN
              (IF \E f \in Negotiated(s, Rq(e)) : e.ctype = Render(f) THEN "responder-not-handed-the-producer-of-the-negotiated-type"
               ELSE "content-type-is-not-the-negotiated-type")
         ELSE IF ~HasSuccess(s) THEN "no-declared-success-not-500"
         ELSE IF e.status # MinSuccess(s) THEN "status-is-not-the-declared-success-status"
         ELSE IF ~\E f \in Negotiated(s, Rq(e)) : e.ctype = Render(f) THEN "content-type-is-not-the-negotiated-type"
         ELSE IF (e.method = "HEAD" \/ MinSuccess(s) = 204) /\ (e.produced # <<>> \/ e.body # "") THEN "body-written-for-HEAD-or-204"
         ELSE "body-not-written-by-the-producer-of-the-negotiated-type"

RWhy(s, e) ==
  CASE e.ev = "built" -> "route-produces-differ-from-declared-plus-default"
    [] e.ev = "respond" -> RespondWhy(Op(s, e), e)
    [] OTHER -> "unknown-event"

RStep(s, e) == s

TheTrace == ndJsonDeserialize(IOEnv.TRACE_FILE)
TC == INSTANCE TraceCommon WITH TInit <- RInit, TAllowed <- RAllowed, TStep <- RStep,
                                TWhy <- RWhy, TStateful <- FALSE, Trace <- TheTrace
Spec == TC!Spec
=============================================================================
