SPECIFICATION Spec
CONSTANTS
  SharedField = "none"
  MemoBound = TRUE
  SampleKinds = TRUE
  FreshVariants = TRUE
  HistLen = 3
POSTCONDITION Written
CHECK_DEADLOCK FALSE
