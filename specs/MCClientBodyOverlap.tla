------------------------ MODULE MCClientBodyOverlap ------------------------
(* C11 under overlapping uploads: several requests are built before any of  *)
(* them is sent (or are submitted concurrently).  Each multipart writer     *)
(* goroutine sniffs the first window of an undeclared file into a buffer    *)
(* and later copies  buffer ++ rest of the file  into its part.  The        *)
(* property is per request (C11: the part carries the file's full content), *)
(* whatever the interleaving.  SharedBuffer = FALSE is the code (one buffer  *)
(* per file); TRUE is the mutant in which the sniffing buffer is recycled   *)
(* between writers while a reader still aliases it.                         *)
EXTENDS Integers, Sequences, FiniteSets, TLC

CONSTANTS N,             \* number of overlapping uploads
          SharedBuffer   \* BOOLEAN

VARIABLES pc,      \* pc[i] \in {"built", "sniffed", "sent"}
          buf,     \* buf[b] = head currently held by buffer b (0 = none); shared: one buffer 1, else buffer i for writer i
          sent     \* sent[i] = <<head id, tail id>> of the part of request i (<<>> before)
vars == <<pc, buf, sent>>

Writers == 1..N
BufOf(i) == IF SharedBuffer THEN 1 ELSE i

Init == /\ pc = [i \in Writers |-> "built"]
        /\ buf = [b \in Writers |-> 0]
        /\ sent = [i \in Writers |-> <<>>]

\* size, err := io.ReadFull(fi, buf); DetectContentType(buf[:size]); fi = MultiReader(bytes.NewReader(buf[:size]), fi)
Sniff(i) == /\ pc[i] = "built"
            /\ buf' = [buf EXCEPT ![BufOf(i)] = i]
            /\ pc' = [pc EXCEPT ![i] = "sniffed"]
            /\ UNCHANGED sent

\* io.Copy(part, fi) once the transport reads the pipe: the aliased buffer, then the rest of file i
Copy(i) == /\ pc[i] = "sniffed"
           /\ sent' = [sent EXCEPT ![i] = <<buf[BufOf(i)], i>>]
           /\ pc' = [pc EXCEPT ![i] = "sent"]
           /\ UNCHANGED buf

Next == \E i \in Writers : Sniff(i) \/ Copy(i)
Spec == Init /\ [][Next]_vars

\* every part carries its own file's content, head and tail
FullContent == \A i \in Writers : pc[i] = "sent" => sent[i] = <<i, i>>
=============================================================================
