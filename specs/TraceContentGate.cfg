SPECIFICATION Spec
CONSTANTS
  EntryParamsNormalised = TRUE
  StrictWildcardConsumer = FALSE
CHECK_DEADLOCK FALSE
