----------------------------- MODULE MCSecurity -----------------------------
(* Exhaustive check: the faithful step-by-step model of the security stage  *)
(* satisfies the declarative property C02 for every configuration of the    *)
(* lattice (structures x outcome vectors x registrations), every evaluation *)
(* order inside every alternative, every authorizer mode and every request  *)
(* variant.  All choices are made in Next (not in Init).                    *)
EXTENDS Security

CONSTANTS Schemes,     \* sequence of scheme names, e.g. <<"A","B","C">>
          MaxAlts,     \* alternatives per requirement list
          MaxPerAlt    \* schemes per alternative

SchemesAB  == <<"A", "B">>          \* cfg files cannot spell sequences: Schemes <- SchemesAB
SchemesABC == <<"A", "B", "C">>

VARIABLES stage,   \* "alts" | "out" | "avail" | "run"
          cfg,     \* configuration under construction (authz filled in when the authorizer is reached)
          ev,      \* evaluation state (Security!EvInit ...)
          variant  \* request variant, chosen when the pipeline is reached
vars == <<stage, cfg, ev, variant>>

-----------------------------------------------------------------------------
(* the lattice - shared with GenSecurity (operators take the scheme list  *)
(* so that GenSecurity can export several lattices)                         *)
ScopeOf(s) == "r" \o s                                    \* a scope every use of the scheme asks for
AltScope   == <<"alt1", "alt2", "alt3", "alt4">>            \* a scope only alternative i asks for

\* an alternative at position i over the subset S (schemes listed in the order of `schemes`)
AltOfL(schemes, S, i) ==
  LET ss == SelectSeq(schemes, LAMBDA s : s \in S)
  IN [schemes |-> ss, scopes |-> [k \in DOMAIN ss |-> <<ScopeOf(ss[k]), AltScope[i]>>]]
AltSubsetsL(schemes, maxPerAlt) == { S \in SUBSET Range(schemes) : Cardinality(S) <= maxPerAlt }

\* first scheme rejects with 401, last with an error without status (-> 500), others 403
RejCodeL(schemes, s) == IF s = schemes[1] THEN 401 ELSE IF s = schemes[Len(schemes)] THEN 0 ELSE 403
OutcomeL(schemes, s, k) == [k |-> k, p |-> IF k = "ok" THEN "p" \o s ELSE "",
                            code |-> IF k = "rej" THEN RejCodeL(schemes, s) ELSE 0,
                            msg |-> IF k = "rej" THEN "rej-" \o s ELSE ""]
OutVectorsL(schemes) == [Range(schemes) -> Kinds]
OutOfL(schemes, v)   == [s \in Range(schemes) |-> OutcomeL(schemes, s, v[s])]

\* every scheme registered, or all but one
AvailChoicesL(schemes) == { schemes } \cup { SelectSeq(schemes, LAMBDA s : s # x) : x \in Range(schemes) }

SchemeSet    == Range(Schemes)
AltOf(S, i)  == AltOfL(Schemes, S, i)
AltSubsets   == AltSubsetsL(Schemes, MaxPerAlt)
OutVectors   == OutVectorsL(Schemes)
OutOf(v)     == OutOfL(Schemes, v)
AvailChoices == AvailChoicesL(Schemes)

-----------------------------------------------------------------------------
Init == /\ stage = "alts"
        /\ cfg = [alts |-> <<>>, out |-> OutOf([s \in SchemeSet |-> "na"]), avail |-> Schemes, authz |-> "none"]
        /\ ev = EvInit
        /\ variant = "good"

AddAlt == /\ stage = "alts" /\ Len(cfg.alts) < MaxAlts
          /\ \E S \in AltSubsets : cfg' = [cfg EXCEPT !.alts = Append(@, AltOf(S, Len(@) + 1))]
          /\ UNCHANGED <<stage, ev, variant>>
EndAlts == /\ stage = "alts" /\ stage' = "out" /\ UNCHANGED <<cfg, ev, variant>>
ChooseOut == /\ stage = "out" /\ stage' = "avail"
             /\ \E v \in OutVectors : cfg' = [cfg EXCEPT !.out = OutOf(v)]
             /\ UNCHANGED <<ev, variant>>
ChooseAvail == /\ stage = "avail" /\ stage' = "run"
               /\ \E a \in AvailChoices : cfg' = [cfg EXCEPT !.avail = a]
               /\ UNCHANGED <<ev, variant>>

\* ---- the request (Security Part 3), one action per step of the code
DoSecure      == stage = "run" /\ ev.pc = "secure"  /\ ev' = Secure(cfg, ev)      /\ UNCHANGED <<stage, cfg, variant>>
DoAltHead     == stage = "run" /\ ev.pc = "alts"    /\ ev' = AltHead(cfg, ev)     /\ UNCHANGED <<stage, cfg, variant>>
DoSchemeStep  == stage = "run" /\ ev.pc = "schemes" /\ ev.todo # {}
                 /\ \E s \in ev.todo : ev' = SchemeStep(cfg, ev, s)               \* the map iteration order
                 /\ UNCHANGED <<stage, cfg, variant>>
DoSchemesDone == stage = "run" /\ ev.pc = "schemes" /\ ev.todo = {} /\ ev' = SchemesDone(cfg, ev)
                 /\ UNCHANGED <<stage, cfg, variant>>
DoAuthorize   == /\ stage = "run" /\ ev.pc = "authorize"
                 /\ \E m \in AuthzModes : cfg' = [cfg EXCEPT !.authz = m] /\ ev' = Authorize(cfg, ev, m)
                 /\ UNCHANGED <<stage, variant>>
DoPipeline    == /\ stage = "run" /\ ev.pc = "pipeline"
                 /\ \E v \in Variants : variant' = v /\ ev' = Pipeline(cfg, ev, v)
                 /\ UNCHANGED <<stage, cfg>>

Next == AddAlt \/ EndAlts \/ ChooseOut \/ ChooseAvail
        \/ DoSecure \/ DoAltHead \/ DoSchemeStep \/ DoSchemesDone \/ DoAuthorize \/ DoPipeline
Spec == Init /\ [][Next]_vars

-----------------------------------------------------------------------------
(* invariants: model |= property                                            *)
AtEnd == stage = "run" /\ ev.pc = "done"

PropertyHolds == AtEnd => DoneOK(cfg, ev.calls, ev.authz, ev.o)
CallsOK       == stage = "run" => /\ \A i \in DOMAIN ev.calls : CallOK(cfg, ev.calls[i])
                                  /\ CallScopesOK(cfg, ev.calls, ev.cscopes)

\* structural sanity of the model itself
TypeOK == /\ ev.pc \in {"secure", "alts", "schemes", "authorize", "pipeline", "done"}
          /\ ev.routeAuth \in 0..MaxAlts /\ ev.anon \in 0..MaxAlts
          /\ (ev.pc = "pipeline" /\ ~NoSecurity(cfg)) => ev.routeAuth # 0

\* non-vacuity witnesses (each must be VIOLATED; run once during development)
NeverAdmitsViaAnd   == ~(AtEnd /\ ev.o.ran /\ Len(ev.calls) >= 2)
NeverAdmitsAnon     == ~(AtEnd /\ ev.o.ran /\ ~NoSecurity(cfg) /\ ev.o.principal = <<>>)
NeverRefusesOnError == ~(AtEnd /\ IsRefusal(cfg, ev.o) /\ ev.o.err.msg = "rej-A" /\ ev.authz = <<>>)
NeverAuthzDenies    == ~(AtEnd /\ ev.authz # <<>> /\ IsRefusal(cfg, ev.o))
=============================================================================
