---------------------------- MODULE MCHTTPRouter ----------------------------
(* Exhaustive small-scope check of C01: for every API (base path spelling x  *)
(* set of <= MaxOps operations over a template pool x methods) and every     *)
(* request target built from <= MaxSegs segments of a segment pool           *)
(* (+ trailing slash), and every request method spelling, the faithful       *)
(* model's outcome is one the declarative property allows.                   *)
EXTENDS HTTPRouter, SequencesExt

CONSTANTS MaxOps, MaxSegs, Bases, TemplateIds, OpMethods, ReqMethods, SegIds

VARIABLES base, ops, target, nsegs, closed
vars == <<base, ops, target, nsegs, closed>>

ca == 97  cb == 98  cc == 99  cx == 120  cy == 121

Lit(s) == LitSeg(s)
Par(n) == [k |-> "param", s |-> <<>>, n |-> n]
Pre(t, n) == [k |-> "pre", s |-> t, n |-> n]

(* template pool *)
Template(id) ==
  CASE id = "a"      -> [segs |-> <<Lit(<<ca>>)>>, trail |-> FALSE]                                  \* /a
    [] id = "ax"     -> [segs |-> <<Lit(<<ca>>), Par(<<cx>>)>>, trail |-> FALSE]                      \* /a/{x}
    [] id = "ab"     -> [segs |-> <<Lit(<<ca>>), Lit(<<cb>>)>>, trail |-> FALSE]                      \* /a/b
    [] id = "xb"     -> [segs |-> <<Par(<<cx>>), Lit(<<cb>>)>>, trail |-> FALSE]                      \* /{x}/b
    [] id = "axcy"   -> [segs |-> <<Lit(<<ca>>), Par(<<cx>>), Lit(<<cc>>), Par(<<cy>>)>>, trail |-> FALSE] \* /a/{x}/c/{y}
    [] id = "root"   -> [segs |-> <<>>, trail |-> FALSE]                                            \* /
    [] id = "a/"     -> [segs |-> <<Lit(<<ca>>)>>, trail |-> TRUE]                                   \* /a/
    [] id = "x"      -> [segs |-> <<Par(<<cx>>)>>, trail |-> FALSE]                                  \* /{x}
    [] id = "xy"     -> [segs |-> <<Par(<<cx>>), Par(<<cy>>)>>, trail |-> FALSE]                      \* /{x}/{y}
    [] id = "ak=x"   -> [segs |-> <<Lit(<<ca>>), Pre(<<107, 61>>, <<cx>>)>>, trail |-> FALSE]         \* /a/k={x}
    [] id = "vxy"    -> [segs |-> <<Pre(<<118>>, <<cx>>), Par(<<cy>>)>>, trail |-> FALSE]             \* /v{x}/{y}
    [] id = "k=xb"   -> [segs |-> <<Pre(<<107, 61>>, <<cx>>), Lit(<<cb>>)>>, trail |-> FALSE]         \* /k={x}/b

api3 == <<97, 112, 105>>   \* "api"
BaseOf(id) ==
  CASE id = "empty" -> [empty |-> TRUE,  segs |-> <<>>,     trail |-> FALSE]    \* ""
    [] id = "/"     -> [empty |-> FALSE, segs |-> <<>>,     trail |-> FALSE]    \* "/"
    [] id = "/api"  -> [empty |-> FALSE, segs |-> <<api3>>, trail |-> FALSE]
    [] id = "/api/" -> [empty |-> FALSE, segs |-> <<api3>>, trail |-> TRUE]
    [] id = "/a"    -> [empty |-> FALSE, segs |-> <<<<ca>>>>, trail |-> FALSE]   \* base equal to a template word

P(ch)  == [esc |-> FALSE, c |-> ch, lc |-> FALSE]
E(ch)  == [esc |-> TRUE,  c |-> ch, lc |-> FALSE]
El(ch) == [esc |-> TRUE,  c |-> ch, lc |-> TRUE]

(* request-target segment pool (sequences of atoms) *)
SegOf(id) ==
  CASE id = "a"     -> <<P(ca)>>
    [] id = "b"     -> <<P(cb)>>
    [] id = "c"     -> <<P(cc)>>
    [] id = "api"   -> <<P(97), P(112), P(105)>>
    [] id = ":"     -> <<P(58)>>
    [] id = "a%2Fb" -> <<P(ca), E(47), P(cb)>>
    [] id = "%25"   -> <<E(37)>>
    [] id = "."     -> <<P(46)>>
    [] id = ".."    -> <<P(46), P(46)>>
    [] id = "empty" -> <<>>
    [] id = "%2e%2e" -> <<El(46), El(46)>>
    [] id = "*"     -> <<P(42)>>
    [] id = "#"     -> <<P(35)>>                      \* raw '#': net/http re-encodes the whole path
    [] id = "%23"   -> <<E(35)>>
    [] id = ";="    -> <<P(59), P(61)>>
    [] id = "hi"    -> <<P(233)>>                     \* raw non-ASCII byte
    [] id = "k=:"   -> <<P(107), P(61), P(58)>>       \* the whole value of {x} in k={x} is ':'
    [] id = "k=a"   -> <<P(107), P(61), P(ca)>>
    [] id = "k=*a"  -> <<P(107), P(61), P(42), P(ca)>>
    [] id = "k="    -> <<P(107), P(61)>>              \* empty value: does not instantiate
    [] id = "v:"    -> <<P(118), P(58)>>
    [] id = "va#"   -> <<P(118), P(ca), E(35)>>
    [] id = "v"     -> <<P(118)>>
    [] id = "%61"   -> <<E(ca)>>                       \* escaped 'a' is not the literal a of a template

MethodOf(id) ==
  CASE id = "GET"    -> <<71, 69, 84>>
    [] id = "get"    -> <<103, 101, 116>>
    [] id = "gEt"    -> <<103, 69, 116>>
    [] id = "POST"   -> <<80, 79, 83, 84>>
    [] id = "Post"   -> <<80, 111, 115, 116>>
    [] id = "PUT"    -> <<80, 85, 84>>
    [] id = "put"    -> <<112, 117, 116>>
    [] id = "DELETE" -> <<68, 69, 76, 69, 84, 69>>

PoolOps == { [t |-> t, m |-> MethodOf(m)] : t \in TemplateIds, m \in OpMethods }
PoolSeq == SetToSeq(PoolOps)

MkOp(k) == [method |-> PoolSeq[k].m, segs |-> Template(PoolSeq[k].t).segs, trail |-> Template(PoolSeq[k].t).trail]

Api == [base |-> BaseOf(base), ops |-> [i \in DOMAIN ops |-> MkOp(ops[i])]]

Init == /\ base \in Bases /\ ops = <<>> /\ target = <<>> /\ nsegs = 0 /\ closed = FALSE

\* operations are added in increasing pool order (an API is a set of operations)
AddOp ==
  /\ nsegs = 0 /\ Len(ops) < MaxOps
  /\ \E k \in DOMAIN PoolSeq :
       /\ \A i \in DOMAIN ops : ops[i] < k
       /\ ops' = Append(ops, k)
       /\ WellFormedAPI([base |-> BaseOf(base), ops |-> [i \in DOMAIN ops' |-> MkOp(ops'[i])]])
  /\ UNCHANGED <<base, target, nsegs, closed>>

AddSeg ==
  /\ ops # <<>> /\ nsegs < MaxSegs /\ ~closed
  /\ \E s \in SegIds : target' = target \o <<P(SLASH)>> \o SegOf(s)
  /\ nsegs' = nsegs + 1
  /\ UNCHANGED <<base, ops, closed>>

TrailingSlash ==
  /\ nsegs > 0 /\ ~closed
  /\ target' = Append(target, P(SLASH))
  /\ closed' = TRUE
  /\ UNCHANGED <<base, ops, nsegs>>

Next == AddOp \/ AddSeg \/ TrailingSlash
Spec == Init /\ [][Next]_vars

Tgt == IF target = <<>> THEN <<P(SLASH)>> ELSE target

PropertyHolds ==
  ops # <<>> =>
    \A mi \in ReqMethods : LET m == MethodOf(mi) IN
      DispatchAllowed(Api, [method |-> m, path |-> EscapedPathOf(Tgt)], Serve(Api, m, Tgt))

\* non-vacuity witnesses (each must be VIOLATED; checked during development)
NeverRuns     == ops # <<>> => \A mi \in ReqMethods : Serve(Api, MethodOf(mi), Tgt).ran = <<>>
Never405      == ops # <<>> => \A mi \in ReqMethods : Serve(Api, MethodOf(mi), Tgt).status # 405
NeverDecodes  == ops # <<>> => \A mi \in ReqMethods :
                   LET o == Serve(Api, MethodOf(mi), Tgt) IN \A j \in DOMAIN o.params : SLASH \notin {o.params[j].v[k] : k \in DOMAIN o.params[j].v}
=============================================================================
