----------------------------- MODULE HTTPRouter -----------------------------
(***************************************************************************)
(* C01 - spec-driven dispatch (middleware/router.go, middleware/context.go, *)
(* middleware/operation.go) on top of the trie router of module Router.     *)
(*                                                                         *)
(* Part 1  byte-level helpers (hex, percent-decoding, path.Clean, upper).  *)
(* Part 2  the request: what net/http hands to the middleware               *)
(*         (URL.EscapedPath of a request target given as atoms).            *)
(* Part 3  FAITHFUL model, one operator per function of the code:           *)
(*         DefaultRouter / AddRoute / PathConverter / Build,               *)
(*         LookupRoute, RouterLookup, OtherMethods, NewRouter.              *)
(* Part 4  DECLARATIVE property C01: DispatchAllowed(api, req, obs).        *)
(* MCHTTPRouter checks  NewRouter |= DispatchAllowed  for every small API   *)
(* and request target; TraceHTTPRouter checks every served request of the  *)
(* real handlers against DispatchAllowed.                                   *)
(*                                                                         *)
(* Data.  A byte string is a sequence of 0..255.                            *)
(*  seg   = [k |-> "lit", s |-> bytes, n |-> <<>>]   literal segment        *)
(*        | [k |-> "param", s |-> <<>>, n |-> bytes] the placeholder {n}    *)
(*        | [k |-> "pre", s |-> bytes, n |-> bytes]  literal s then {n} to  *)
(*          the end of the segment ("key={value}", "v{ver}")               *)
(*        | [k |-> "comp", s |-> <<>>, n |-> <<>>, parts |-> Seq(piece)]   *)
(*          a composite segment "{a}.{b}", "{id}-cancel": pieces are lit /  *)
(*          param segs, the first one a placeholder                         *)
(*  op    = [method |-> bytes (upper case), segs |-> Seq(seg),              *)
(*           trail |-> BOOLEAN]      template "/" seg "/" seg ... ["/"]     *)
(*          (segs = <<>> is the template "/")                               *)
(*  base  = [empty |-> BOOLEAN, segs |-> Seq(bytes), trail |-> BOOLEAN]     *)
(*          "" | "/" | "/api" | "/api/" | "/api/v1" ...                     *)
(*  api   = [base |-> base, ops |-> Seq(op)]                                *)
(*  atom  = [esc |-> BOOLEAN, c |-> byte, lc |-> BOOLEAN]                   *)
(*          a plain byte, or the escape %XX of that byte (lc: lower-case    *)
(*          hex digits), so that %2F, %25, %3A differ from '/', '%', ':'    *)
(*  req   = [method |-> bytes (any letter case), path |-> bytes]            *)
(*          path = the request's still percent-encoded path                 *)
(***************************************************************************)
EXTENDS Router, Integers

CONSTANT UseEscapedPath  \* TRUE: LookupRoute feeds URL.EscapedPath() (the code).
                         \* FALSE: a mutant feeding the decoded URL.Path - kept
                         \* only to show that TLC then finds a violation.

PCT    == 37
DOT    == 46
QMARK  == 63
LBRACE == 123
RBRACE == 125

(***************************************************************************)
(* Part 1 - bytes                                                          *)
(***************************************************************************)
IsAlnum(c) == c \in 48..57 \/ c \in 65..90 \/ c \in 97..122

HexVal(c) == IF c \in 48..57 THEN c - 48
             ELSE IF c \in 65..70 THEN c - 55
             ELSE IF c \in 97..102 THEN c - 87
             ELSE 16                                  \* not a hex digit
HexDigit(n, lc) == IF n < 10 THEN 48 + n ELSE IF lc THEN 87 + n ELSE 55 + n
PctEnc(c, lc) == <<PCT, HexDigit(c \div 16, lc), HexDigit(c % 16, lc)>>

Upper(m) == [i \in DOMAIN m |-> IF m[i] \in 97..122 THEN m[i] - 32 ELSE m[i]]   \* strings.ToUpper (ASCII)

RECURSIVE ValidEscapes(_)
ValidEscapes(s) ==
  IF s = <<>> THEN TRUE
  ELSE IF Head(s) = PCT
       THEN Len(s) >= 3 /\ HexVal(s[2]) < 16 /\ HexVal(s[3]) < 16 /\ ValidEscapes(DropN(s, 3))
       ELSE ValidEscapes(Tail(s))

RECURSIVE Unescape(_)
Unescape(s) ==
  IF s = <<>> THEN <<>>
  ELSE IF Head(s) = PCT /\ Len(s) >= 3
       THEN <<HexVal(s[2]) * 16 + HexVal(s[3])>> \o Unescape(DropN(s, 3))
       ELSE <<Head(s)>> \o Unescape(Tail(s))

(* url.PathUnescape as Lookup uses it: on error the text is kept as is.    *)
PathUnescape(s) == IF ValidEscapes(s) THEN Unescape(s) ELSE s

(* path.Clean of a rooted path.                                            *)
RECURSIVE SplitSegs(_)
SplitSegs(p) ==       \* "/a//b/" -> << a, <<>>, b, <<>> >> ; a leading non-'/' run is a segment too
  IF p = <<>> THEN <<>>
  ELSE LET rest == IF Head(p) = SLASH THEN Tail(p) ELSE p
           n    == SegLen(rest)
       IN <<TakeN(rest, n)>> \o SplitSegs(DropN(rest, n))

RECURSIVE CleanSegs(_, _)
CleanSegs(segs, acc) ==
  IF segs = <<>> THEN acc
  ELSE LET s == Head(segs) IN
       CleanSegs(Tail(segs),
                 IF s = <<>> \/ s = <<DOT>> THEN acc
                 ELSE IF s = <<DOT, DOT>> THEN (IF acc = <<>> THEN acc ELSE SubSeq(acc, 1, Len(acc) - 1))
                 ELSE Append(acc, s))

RECURSIVE JoinSegs(_)
JoinSegs(segs) == IF segs = <<>> THEN <<>> ELSE <<SLASH>> \o Head(segs) \o JoinSegs(Tail(segs))

Clean(p) == LET c == CleanSegs(SplitSegs(p), <<>>) IN IF c = <<>> THEN <<SLASH>> ELSE JoinSegs(c)

(***************************************************************************)
(* Part 2 - the request net/http delivers.                                  *)
(* Named assumption NetHTTPEscapedPath (trusted base, checked on every      *)
(* trace event): for a request target rendered from atoms, Go's             *)
(* URL.EscapedPath() is the target text itself when every plain byte may    *)
(* appear in an encoded path, and otherwise the canonical re-encoding of    *)
(* the DECODED path (so a target mixing %2F with e.g. a raw non-ASCII byte  *)
(* or '#' reaches the middleware with %2F already turned into '/').         *)
(***************************************************************************)
RECURSIVE RawTarget(_), Decoded(_)
RawTarget(t) == IF t = <<>> THEN <<>>
                ELSE (IF Head(t).esc THEN PctEnc(Head(t).c, Head(t).lc) ELSE <<Head(t).c>>) \o RawTarget(Tail(t))
Decoded(t)   == IF t = <<>> THEN <<>> ELSE <<Head(t).c>> \o Decoded(Tail(t))

\* net/url shouldEscape(c, encodePath)
ShouldEscape(c) == ~( IsAlnum(c) \/ c \in {45, 95, 46, 126}                 \* - _ . ~
                      \/ c \in {36, 38, 43, 44, 47, 58, 59, 61, 64} )        \* $ & + , / : ; = @
\* net/url validEncoded(s, encodePath), for one plain byte
ValidPlain(c) == c \in {33, 36, 38, 39, 40, 41, 42, 43, 44, 59, 61, 58, 64, 91, 93} \/ ~ShouldEscape(c)

RECURSIVE Escape(_)
Escape(s) == IF s = <<>> THEN <<>>
             ELSE (IF ShouldEscape(Head(s)) THEN PctEnc(Head(s), FALSE) ELSE <<Head(s)>>) \o Escape(Tail(s))

EscapedPathOf(t) ==
  IF \A i \in DOMAIN t : t[i].esc \/ ValidPlain(t[i].c) THEN RawTarget(t) ELSE Escape(Decoded(t))

(***************************************************************************)
(* Templates, base paths and their texts.                                  *)
(***************************************************************************)
RECURSIVE PiecesText(_)
PiecesText(ps) == IF ps = <<>> THEN <<>>
                  ELSE (IF Head(ps).k = "lit" THEN Head(ps).s ELSE <<LBRACE>> \o Head(ps).n \o <<RBRACE>>) \o PiecesText(Tail(ps))
SegText(sg) == IF sg.k = "lit" THEN sg.s
               ELSE IF sg.k = "comp" THEN PiecesText(sg.parts)
               ELSE sg.s \o <<LBRACE>> \o sg.n \o <<RBRACE>>     \* s = <<>> for "param"

RECURSIVE SegsText(_)
SegsText(segs) == IF segs = <<>> THEN <<>> ELSE <<SLASH>> \o SegText(Head(segs)) \o SegsText(Tail(segs))

TemplateText(op) == IF op.segs = <<>> THEN <<SLASH>>
                    ELSE SegsText(op.segs) \o (IF op.trail THEN <<SLASH>> ELSE <<>>)

LitSeg(s) == [k |-> "lit", s |-> s, n |-> <<>>]
BaseSegs(b) == [i \in DOMAIN b.segs |-> LitSeg(b.segs[i])]
BaseText(b) == IF b.empty THEN <<>>
               ELSE IF b.segs = <<>> THEN <<SLASH>>
               ELSE SegsText(BaseSegs(b)) \o (IF b.trail THEN <<SLASH>> ELSE <<>>)

\* Router tokens
TLit(s)  == [k |-> "lit",   s |-> s,    n |-> <<>>]
TPar(n)  == [k |-> "param", s |-> <<>>, n |-> n]

RECURSIVE SegsPattern(_)
SegsPattern(segs) ==
  IF segs = <<>> THEN <<>>
  ELSE (CASE Head(segs).k = "lit"   -> <<TLit(<<SLASH>>), TLit(Head(segs).s)>>
          [] Head(segs).k = "param" -> <<TLit(<<SLASH>>), TPar(Head(segs).n)>>
          [] Head(segs).k = "pre"   -> <<TLit(<<SLASH>>), TLit(Head(segs).s), TPar(Head(segs).n)>>
          [] Head(segs).k = "comp"  -> <<TLit(<<SLASH>>)>> \o [j \in DOMAIN Head(segs).parts |->
                                          IF Head(segs).parts[j].k = "lit" THEN TLit(Head(segs).parts[j].s) ELSE TPar(Head(segs).parts[j].n)])
       \o SegsPattern(Tail(segs))

(***************************************************************************)
(* Part 3 - faithful model.                                                 *)
(***************************************************************************)
(* fpath.Join(basePath, template): concatenation, cleaned - hence without   *)
(* trailing slash (base and templates have no empty or dot segments).       *)
JoinedSegs(api, op) == BaseSegs(api.base) \o op.segs
JoinedText(api, op) == IF JoinedSegs(api, op) = <<>> THEN <<SLASH>> ELSE SegsText(JoinedSegs(api, op))

(* AddRoute: bp := path.Clean(basePath) minus a trailing '/'                *)
CleanBase(api) == IF api.base.empty THEN <<DOT>>                \* path.Clean("") = "."
                  ELSE IF api.base.segs = <<>> THEN <<>>        \* "/" loses its slash
                  ELSE SegsText(BaseSegs(api.base))

TrimPrefix(s, p) == IF IsPrefixOf(p, s) THEN DropN(s, Len(p)) ELSE s

(* AddRoute registers the route only if api.HandlerFor(method,             *)
(* TrimPrefix(joined, bp)) exists; handlers are keyed by method and the     *)
(* template text as written in the description.  The handler found is the   *)
(* one that will run.                                                       *)
HandlerFor(api, method, key) ==
  {j \in DOMAIN api.ops : api.ops[j].method = method /\ TemplateText(api.ops[j]) = key}

(* pathConverter: {name}[rest of segment] -> :name                          *)
PathConverter(segs) == IF segs = <<>> THEN <<TLit(<<SLASH>>)>> ELSE SegsPattern(segs)

(* DefaultRouter + AddRoute + Build: the denco records of one method.       *)
(* value = index of the operation whose handler is attached.                *)
RouteOf(api, i) ==
  LET op == api.ops[i]
      hs == HandlerFor(api, op.method, TrimPrefix(JoinedText(api, op), CleanBase(api)))
  IN IF hs = {} THEN <<>>
     ELSE <<[pat |-> PathConverter(JoinedSegs(api, op)), value |-> CHOOSE j \in hs : TRUE]>>

RECURSIVE RoutesFrom(_, _, _)
RoutesFrom(api, M, i) ==
  IF i > Len(api.ops) THEN <<>>
  ELSE (IF api.ops[i].method = M THEN RouteOf(api, i) ELSE <<>>) \o RoutesFrom(api, M, i + 1)

RECURSIVE DedupRecs(_, _)
DedupRecs(recs, acc) ==   \* identical keys overwrite each other in the trie / static map
  IF recs = <<>> THEN acc
  ELSE DedupRecs(Tail(recs), IF \E k \in DOMAIN acc : acc[k] = Head(recs) THEN acc ELSE Append(acc, Head(recs)))

Records(api, M) == DedupRecs(RoutesFrom(api, M, 1), <<>>)

Methods(api) == {api.ops[i].method : i \in DOMAIN api.ops}
HasRouter(api, M) == Records(api, M) # <<>>      \* d.routers[M] exists

(* Context.LookupRoute / AllowedMethods: the path handed to the router.     *)
RequestPath(target) == IF UseEscapedPath THEN EscapedPathOf(target) ELSE Decoded(target)

(* defaultRouter.Lookup                                                     *)
RouterLookup(api, method, path) ==
  LET M == Upper(method) IN
  IF ~HasRouter(api, M) THEN [found |-> FALSE, op |-> 0, params |-> <<>>]
  ELSE LET r == CodeLookup(Records(api, M), Clean(path)) IN
       IF r.found
       THEN [found |-> TRUE, op |-> r.value,
             params |-> [j \in DOMAIN r.texts |-> [n |-> r.names[j], v |-> PathUnescape(r.texts[j])]]]
       ELSE [found |-> FALSE, op |-> 0, params |-> <<>>]

(* defaultRouter.OtherMethods                                               *)
OtherMethods(api, method, path) ==
  {M \in Methods(api) \ {Upper(method)} : HasRouter(api, M) /\ CodeLookup(Records(api, M), Clean(path)).found}

(* NewRouter + NewOperationExecutor: the observable outcome.                *)
NewRouter(api, method, path) ==
  LET r == RouterLookup(api, method, path) IN
  IF r.found THEN [ran |-> <<r.op>>, params |-> r.params, status |-> 200, allow |-> {}, panic |-> FALSE]
  ELSE LET others == OtherMethods(api, method, path) IN
       IF others # {} THEN [ran |-> <<>>, params |-> <<>>, status |-> 405, allow |-> others, panic |-> FALSE]
       ELSE [ran |-> <<>>, params |-> <<>>, status |-> 404, allow |-> {}, panic |-> FALSE]

Serve(api, method, target) == NewRouter(api, method, RequestPath(target))

(***************************************************************************)
(* Part 4 - the property, declaratively.                                    *)
(* "template under the base path" = base path without its trailing slash    *)
(* followed by the template text; a template ending in '/' (other than "/"   *)
(* under an empty base) is instantiated by no cleaned path.                 *)
(***************************************************************************)
FullPattern(api, op) ==
  LET segs == BaseSegs(api.base) \o op.segs IN
  IF op.segs = <<>> THEN SegsPattern(BaseSegs(api.base)) \o <<TLit(<<SLASH>>)>>
  ELSE SegsPattern(segs) \o (IF op.trail THEN <<TLit(<<SLASH>>)>> ELSE <<>>)

OpIdx(api, M) == SelectSeq([i \in DOMAIN api.ops |-> i], LAMBDA i : api.ops[i].method = M)

DeclRecords(api, M) ==
  LET idx == OpIdx(api, M) IN [k \in DOMAIN idx |-> [pat |-> FullPattern(api, api.ops[idx[k]]), value |-> idx[k]]]

(* empty = TRUE also counts instantiations in which a placeholder that does not span its whole segment ("k={x}",    *)
(* "v{x}") takes the empty text.  Named deviation EmptyPrefixedParam: the statement does not say whether "/v" or      *)
(* "/k=" instantiates such a template; the code routes it and then refuses the empty required parameter (422, no       *)
(* handler).  Where a template fits only in this way the outcome is left open; for whole-segment placeholders the two  *)
(* readings coincide on cleaned paths.                                                                                *)
(* Named deviation CompositeSegmentsOpen.  The router knows a composite segment only as ONE placeholder (pathConverter   *)
(* keeps its first name) and splits the decoded value afterwards (decodeCompositParams): whether and with which values  *)
(* a request that reaches such an operation is handled is left open here (e.g. 422 where the pieces do not match);      *)
(* what is still demanded: no panic, at most one handler, of the request's method, whose template fits at least in      *)
(* this coarse reading.  (Even a strict fit is not always handled: the value is split at the FIRST separator, so      *)
(* "/f/.;.x" against /f/{a}.{b} gives a = "" -> 422 although a = ".;", b = "x" instantiates it.)                        *)
HasComp(op) == \E j \in DOMAIN op.segs : op.segs[j].k = "comp"
CoarseSegs(segs) == [j \in DOMAIN segs |-> IF segs[j].k = "comp" THEN [k |-> "param", s |-> <<>>, n |-> segs[j].parts[1].n] ELSE segs[j]]
CoarsePattern(api, op) == SegsPattern(BaseSegs(api.base) \o CoarseSegs(op.segs))

FitsE(api, i, M, cpath, empty) ==
  /\ api.ops[i].method = M
  /\ \/ (~HasComp(api.ops[i]) \/ empty) /\ Derivs(FullPattern(api, api.ops[i]), cpath, empty) # {}
     \/ (empty /\ HasComp(api.ops[i]) /\ Derivs(CoarsePattern(api, api.ops[i]), cpath, TRUE) # {})
Fits(api, i, M, cpath) == FitsE(api, i, M, cpath, FALSE)

FitMethodsE(api, cpath, empty) == {M \in Methods(api) : \E i \in DOMAIN api.ops : FitsE(api, i, M, cpath, empty)}
FitMethods(api, cpath) == FitMethodsE(api, cpath, FALSE)

ParamSet(ps) == {ps[j] : j \in DOMAIN ps}

FoundObs(i, pat, d) == [found |-> TRUE, value |-> i, names |-> Names(pat), texts |-> d, panic |-> FALSE]

(* the handler that ran is the designated one and got the decoded texts     *)
RanOK(api, M, cpath, i, params) ==
  /\ i \in DOMAIN api.ops
  /\ api.ops[i].method = M
  /\ LET pat == FullPattern(api, api.ops[i]) IN
     \E d \in Derivs(pat, cpath, TRUE) :
        /\ LookupAllowed(DeclRecords(api, M), cpath, FoundObs(i, pat, d))
        /\ Len(params) = Len(d)
        /\ ParamSet(params) = {[n |-> Names(pat)[j], v |-> PathUnescape(d[j])] : j \in DOMAIN d}

(* obs = [ran : Seq(op index), params : Seq([n, v]), status, allow : set of methods, panic] *)
DispatchWhy(api, req, obs) ==
  LET M     == Upper(req.method)
      cpath == Clean(req.path)
      fit   == FitMethodsE(api, cpath, FALSE)
      fitE  == FitMethodsE(api, cpath, TRUE)
  IN IF obs.panic THEN "panic"
     ELSE IF Len(obs.ran) > 1 THEN "more-than-one-handler-ran"
     ELSE IF Len(obs.ran) = 1
          THEN (IF ~(obs.ran[1] \in DOMAIN api.ops /\ api.ops[obs.ran[1]].method = M) THEN "handler-of-another-method-ran"
                ELSE IF ~FitsE(api, obs.ran[1], M, cpath, TRUE) THEN "handler-ran-whose-template-does-not-fit"
                ELSE IF HasComp(api.ops[obs.ran[1]]) THEN "ok"                  \* CompositeSegmentsOpen
                ELSE IF ~RanOK(api, M, cpath, obs.ran[1], obs.params) THEN "wrong-operation-or-parameters"
                ELSE "ok")
     ELSE IF M \in fit THEN "no-handler-ran-although-a-template-fits"
     ELSE IF M \in fitE THEN "ok"                                   \* EmptyPrefixedParam: refused without a handler
     ELSE IF ~LookupAllowed(DeclRecords(api, M), cpath, NoObs) THEN "no-handler-ran-although-a-template-fits"
     ELSE IF fit # {} THEN (IF obs.status # 405 THEN "405-expected"
                            ELSE IF ~(fit \subseteq obs.allow /\ obs.allow \subseteq fitE) THEN "allow-set"
                            ELSE "ok")
     ELSE IF fitE # {} /\ obs.status = 405 THEN (IF obs.allow # {} /\ obs.allow \subseteq fitE THEN "ok" ELSE "allow-set")
     ELSE IF obs.status # 404 THEN "404-expected"
     ELSE IF obs.allow # {} THEN "allow-on-404"
     ELSE "ok"

DispatchAllowed(api, req, obs) == DispatchWhy(api, req, obs) = "ok"

(***************************************************************************)
(* Well-formedness (what C01 quantifies over).                              *)
(***************************************************************************)
OpShape(op) == <<op.method, [i \in DOMAIN op.segs |-> [k |-> IF op.segs[i].k = "comp" THEN "param" ELSE op.segs[i].k, s |-> op.segs[i].s]], op.trail>>
RECURSIVE NamesOf(_)
NamesOf(segs) == IF segs = <<>> THEN <<>>
                 ELSE (CASE Head(segs).k = "lit" -> <<>>
                         [] Head(segs).k = "comp" -> NamesOf(Head(segs).parts)
                         [] OTHER -> <<Head(segs).n>>) \o NamesOf(Tail(segs))
ParamNames(op) == NamesOf(op.segs)
LitOK(t) == /\ t # <<>> /\ t # <<DOT>> /\ t # <<DOT, DOT>>
            /\ t[1] \notin {COLON, STAR}
            /\ \A k \in DOMAIN t : t[k] \notin {SLASH, HASH, LBRACE, RBRACE}
            /\ \A k \in DOMAIN t : k > 1 /\ t[k] \in {COLON, STAR} => t[k - 1] # 61     \* no "=:" "=*" inside a literal
WellFormedOp(op) ==
  /\ \A i, j \in DOMAIN ParamNames(op) : i # j => ParamNames(op)[i] # ParamNames(op)[j]
  /\ \A i \in DOMAIN op.segs : op.segs[i].k \in {"lit", "pre"} => LitOK(op.segs[i].s)
  /\ \A i \in DOMAIN op.segs : op.segs[i].k = "comp" =>
        /\ op.segs[i].parts[1].k = "param"
        /\ \A j \in DOMAIN op.segs[i].parts : op.segs[i].parts[j].k = "lit" => LitOK(op.segs[i].parts[j].s)
  \* denco only treats a key as parameterised when it contains "/:" "/*" or "=:": a placeholder that neither opens its
  \* segment nor follows '=' needs another one in the template that does
  /\ \A i \in DOMAIN op.segs : (op.segs[i].k = "pre" /\ op.segs[i].s[Len(op.segs[i].s)] # 61) =>
        \E j \in DOMAIN op.segs : op.segs[j].k = "param" \/ (op.segs[j].k = "pre" /\ op.segs[j].s[Len(op.segs[j].s)] = 61)
WellFormedAPI(api) ==
  /\ \A i \in DOMAIN api.ops : WellFormedOp(api.ops[i])
  /\ \A i, j \in DOMAIN api.ops : i # j => OpShape(api.ops[i]) # OpShape(api.ops[j])
=============================================================================
