SPECIFICATION Spec
CONSTANTS Variant = "fixed"
CHECK_DEADLOCK FALSE
