SPECIFICATION Spec
CONSTANTS ProducerLookupNormalised = TRUE
CHECK_DEADLOCK FALSE
