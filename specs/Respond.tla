------------------------------- MODULE Respond -------------------------------
(* C08 - responses carry the declared status, the negotiated media type and *)
(* that type's encoding; errors go to the API's error responder.            *)
(*                                                                          *)
(* Part 1: data.  Part 2: the PROPERTY (Allowed...).  Part 3: a FAITHFUL    *)
(* model of Context.Respond (middleware/context.go), branch by branch, with *)
(* the pieces it relies on: NegotiateContentType (own small transcription   *)
(* of the double loop, enough for C08), Context.ResponseFormat (memo),      *)
(* AddRoute (producer table), Operation.SuccessResponse.                    *)
EXTENDS Naturals, Sequences, FiniteSets, TLC, SequencesExt

CONSTANT ProducerLookupNormalised  \* normative TRUE: the producer is looked up by the media type of the negotiated format
                                   \* (parameters ignored) in every branch.  FALSE = what the tree does (defect D7): the
                                   \* value / no-route branches use the raw format, miss, and fall back to the default producer.

-----------------------------------------------------------------------------
(* Part 1 - data                                                            *)
(* entry   : [t, s, p]  produces entry as declared, p = parameter text ("" or e.g. "; charset=utf-8") *)
(* cfg     : [produces: Seq(entry)  the route's Produces in the order the router holds them         *)
(*            (assumed: whenever a body has to be written or a Responder served, the negotiated type *)
(*             or the default type has a registered producer - otherwise Respond panics; no          *)
(*             producer at all is needed for HEAD requests and 204 responses)                        *)
(*            default: entry        the API's default produces (p = ""); NoFormat = the API has none *)
(*            registry: Seq(id)     media types ("t/s") with a registered producer                   *)
(*            declared: Seq(Nat)    declared response codes; 0 stands for `default`                  *)
(*            realm: STRING]        realm of the basic authenticator                                 *)
(* request : [method, accept: <<>> (no header) | <<Seq([t, s, q])>>  q in tenths]                    *)
(* outcome : [k \in "value" | "nil" | "responder" | "libresponder" | "error", code, scripted]        *)
(*           libresponder: middleware.Error(code, "payload", headers) / NotImplemented("payload")    *)
(*           error: code = the status the error carries (0: none); scripted = the handler returned  *)
(*           this very error object (otherwise an earlier stage produced an error with that code)   *)

Render(e) == IF e.t = "" THEN "" ELSE e.t \o "/" \o e.s \o e.p   \* the entry as spelled = what Respond sees in `produces`
Id(e)     == IF e.t = "" THEN "" ELSE e.t \o "/" \o e.s          \* normalizeOffer: the parameter-free media type
NoFormat  == [t |-> "", s |-> "", p |-> ""]     \* the empty string: no format / an API without default producer
HasDefault(c) == c.default # NoFormat
JSONMime  == "application/json"

Registered(c, id) == \E i \in DOMAIN c.registry : c.registry[i] = id

\* route.Producers = api.ProducersFor(normalizeOffers(produces)): keyed by Id, only registered ones
InTable(c, key) == /\ \E i \in DOMAIN c.produces : Id(c.produces[i]) = key
                   /\ Registered(c, key)

Success(c)    == { c.declared[i] : i \in DOMAIN c.declared } \cap (200..299)
HasSuccess(c) == Success(c) # {}
MinSuccess(c) == CHOOSE x \in Success(c) : \A y \in Success(c) : x <= y

-----------------------------------------------------------------------------
(* Part 2 - the property                                                    *)

\* offers a response may be negotiated from: the route's produces and the API default (if the API has one)
Offers(c) == Range(c.produces) \cup (IF HasDefault(c) THEN {c.default} ELSE {})

Matches(rg, e) == \/ rg.t = e.t /\ rg.s = e.s
                  \/ rg.t = e.t /\ rg.s = "*"
                  \/ rg.t = "*" /\ rg.s = "*"
Specificity(rg) == IF rg.s # "*" THEN 2 ELSE IF rg.t # "*" THEN 1 ELSE 0
\* rank of an offer under an Accept header: best (q, specificity) among the ranges that match it with q > 0
Ranks(acc, e) == { <<acc[j].q, Specificity(acc[j])>> : j \in { k \in DOMAIN acc : Matches(acc[k], e) /\ acc[k].q > 0 } }
Better(a, b)  == a[1] > b[1] \/ (a[1] = b[1] /\ a[2] > b[2])
BestRank(acc, e) == CHOOSE r \in Ranks(acc, e) : \A r2 \in Ranks(acc, e) : ~Better(r2, r)
\* the acceptable offers no other offer beats on (q, specificity)
BestOffers(c, rq) ==
  IF rq.accept = <<>> THEN Offers(c)
  ELSE LET acc == rq.accept[1]
           ok  == { e \in Offers(c) : Ranks(acc, e) # {} }
       IN { e \in ok : \A e2 \in ok : ~Better(BestRank(acc, e2), BestRank(acc, e)) }
\* "the negotiated media type".  Named reading DefaultOfferLast (Respond: "the default producer is last so more
\* specific producers take precedence"): the API's default type is the answer only when no declared type is at
\* least as acceptable.  Ties between declared types stay open (the router holds produces in map order).
Negotiated(c, rq) ==
  LET b == BestOffers(c, rq)
      declared == { e \in b : Render(e) # Render(c.default) }
  IN IF declared # {} THEN declared ELSE b

\* observation o = [status, ctype, produced: Seq([id, val]), given: Seq(id), body, errs: Seq([code, same, ctype]), wwwauth]
\*   ctype   Content-Type header of the response
\*   produced  calls of instrumented producers (id = media type it is registered for, val = what it was given)
\*   given   producer handed to the Responder
\*   errs    calls of the API's error responder: status carried by the error it was given, whether it is the very
\*           error the handler returned, and the Content-Type header at that moment
Marker(id, val) == "<" \o id \o ">" \o val      \* what the instrumented producer for `id` writes for `val`
ValOf(out)      == IF out.k = "nil" THEN "nil" ELSE "hello"

\* producer the statement names for format f: the one registered for its media type, parameters ignored.
\* Named deviation MissingProducerFallsBackToDefault: nothing registered for it -> the default producer.
ProducerFor(c, f) == IF InTable(c, Id(f)) THEN Id(f) ELSE Id(c.default)

AllowedValue(c, rq, out, o) ==
  IF ~HasSuccess(c)
  THEN \* named deviation NoDeclaredSuccess: only `default` / non-2xx responses declared -> 500 through the error responder
       /\ Len(o.errs) = 1 /\ o.errs[1].code = 500 /\ o.produced = <<>>
  ELSE IF Offers(c) = {}
  THEN \* nothing declared and no API default: there is no media type to negotiate; status and the no-body rule remain
       /\ o.status = MinSuccess(c) /\ o.errs = <<>> /\ o.given = <<>>
       /\ (rq.method = "HEAD" \/ MinSuccess(c) = 204) => o.produced = <<>> /\ o.body = ""
  ELSE \E f \in Negotiated(c, rq) :
         /\ o.status = MinSuccess(c)                                   \* "the operation's declared success status"
         /\ o.ctype = Render(f)                                        \* "Content-Type is the negotiated media type"
         /\ o.errs = <<>> /\ o.given = <<>>
         /\ IF rq.method = "HEAD" \/ MinSuccess(c) = 204
            THEN o.produced = <<>> /\ o.body = ""                      \* "no body for HEAD requests or 204 responses"
            ELSE /\ o.produced = << [id |-> ProducerFor(c, f), val |-> ValOf(out)] >>   \* "exactly what the producer registered
                 /\ o.body = Marker(ProducerFor(c, f), ValOf(out))                      \*  for that media type writes"

AllowedResponder(c, rq, o) ==
  \E f \in Negotiated(c, rq) :
     /\ o.ctype = Render(f)
     /\ o.given = << ProducerFor(c, f) >>                              \* "handed that same producer"
     /\ o.errs = <<>>

\* the library's own Responders (middleware.Error / NotImplemented -> errorResp.WriteResponse): they write their
\* status and let the producer they are handed encode their payload - so the producer handed is seen at work
LibPayload == "payload"
AllowedLibResponder(c, rq, out, o) ==
  \E f \in Negotiated(c, rq) :
     /\ o.ctype = Render(f)
     /\ o.status = out.code
     /\ o.produced = << [id |-> ProducerFor(c, f), val |-> LibPayload] >>       \* "handed that same producer"
     /\ o.body = Marker(ProducerFor(c, f), LibPayload)
     /\ o.errs = <<>> /\ o.given = <<>>

\* errors: "the API's error responder is invoked with it (JSON content type if nothing was negotiated)"
AllowedError(c, rq, out, o) ==
  /\ Len(o.errs) = 1 /\ o.produced = <<>> /\ o.given = <<>>
  /\ IF out.scripted THEN o.errs[1].same /\ o.errs[1].code = out.code   \* the very error the handler returned
     ELSE o.status = out.code                                          \* an earlier stage's error: known by its status
  /\ IF Negotiated(c, rq) = {} THEN o.errs[1].ctype = JSONMime
     ELSE \E f \in Negotiated(c, rq) : o.errs[1].ctype = Render(f)

Challenge(realm) == "Basic realm=\"" \o realm \o "\""

-----------------------------------------------------------------------------
(* Part 3 - faithful model                                                  *)

\* NegotiateContentType(r, offers, ""): offers in order x ranges in order, accumulator (bestQ, bestWild, bestOffer)
RECURSIVE NegLoop(_, _, _, _, _)
NegLoop(acc, offers, i, j, b) ==          \* b = [q, wild, offer]
  IF i > Len(offers) THEN b.offer
  ELSE IF j > Len(acc) THEN NegLoop(acc, offers, i + 1, 1, b)
  ELSE LET rg == acc[j]  e == offers[i]
           take(w) == [q |-> rg.q, wild |-> w, offer |-> e]
           b2 == CASE rg.q = 0 -> b                                                    \* ignore
                   [] rg.q < b.q -> b                                                  \* better match found
                   [] rg.t = "*" /\ rg.s = "*" -> IF rg.q > b.q \/ b.wild > 2 THEN take(2) ELSE b
                   [] rg.s = "*" -> IF rg.t = e.t /\ (rg.q > b.q \/ b.wild > 1) THEN take(1) ELSE b
                   [] OTHER -> IF rg.t = e.t /\ rg.s = e.s /\ (rg.q > b.q \/ b.wild > 0) THEN take(0) ELSE b
       IN NegLoop(acc, offers, i, j + 1, b2)
\* bestQ starts at -1: every q (tenths, >= 0) is larger; modelled with q shifted by one
Negotiate(accept, offers) ==
  IF offers = <<>> THEN NoFormat
  ELSE IF accept = <<>> \/ accept[1] = <<>> THEN offers[1]              \* no Accept header: the first offer
  ELSE LET shifted == [j \in DOMAIN accept[1] |-> [accept[1][j] EXCEPT !.q = IF @ = 0 THEN 0 ELSE @ + 1]]
       IN NegLoop(shifted, offers, 1, 1, [q |-> 0, wild |-> 3, offer |-> NoFormat])

\* Respond: `for _, mt := range produces { if mt != default { offers = append(offers, mt) } }; offers = append(offers, default)`
RespondOffers(c) == SelectSeq(c.produces, LAMBDA e : Render(e) # Render(c.default)) \o <<c.default>>

\* Context.ResponseFormat memoises the format in the context of the request it RETURNS; validation.responseFormat
\* (untyped flow) keeps that request only when negotiation failed, BindValidRequest negotiates without memoising:
\* in both flows Respond negotiates itself, over "declared types first, default last".
Format(c, rq) == Negotiate(rq.accept, RespondOffers(c))

NoObs == [status |-> 0, ctype |-> "", produced |-> <<>>, given |-> <<>>, body |-> "", errs |-> <<>>]

\* lookup used by the value branch: producers[format] (raw) in the tree, producers[normalizeOffer(format)] normatively
TableKey(f) == IF ProducerLookupNormalised THEN Id(f) ELSE Render(f)
FallbackDefault(c, key) == IF InTable(c, key) THEN key ELSE Id(c.default)   \* prods[c.api.DefaultProduces()]

RespondModel(c, rq, out) ==
  LET f == Format(c, rq) IN
  CASE out.k = "responder" ->                                           \* data.(Responder)
         [NoObs EXCEPT !.ctype = Render(f), !.given = << FallbackDefault(c, Id(f)) >>]
    [] out.k = "libresponder" ->                                        \* data.(Responder) = *errorResp
         LET p == FallbackDefault(c, Id(f))
         IN [NoObs EXCEPT !.status = out.code, !.ctype = Render(f),            \* errorResp.WriteResponse: WriteHeader(code); Produce
                          !.produced = << [id |-> p, val |-> LibPayload] >>, !.body = Marker(p, LibPayload)]
    [] out.k = "error" ->                                               \* data.(error)
         [NoObs EXCEPT !.status = out.code, !.errs = << [code |-> out.code, same |-> TRUE,
                                    ctype |-> IF f = NoFormat THEN JSONMime ELSE Render(f)] >>]
    [] OTHER ->                                                         \* a result
         IF ~HasSuccess(c)
         THEN [NoObs EXCEPT !.errs = << [code |-> 500, same |-> FALSE, ctype |-> Render(f)] >>]
         ELSE IF MinSuccess(c) = 204 \/ rq.method = "HEAD"
         THEN [NoObs EXCEPT !.status = MinSuccess(c), !.ctype = Render(f)]
         ELSE LET p == FallbackDefault(c, TableKey(f))
              IN [NoObs EXCEPT !.status = MinSuccess(c), !.ctype = Render(f),
                               !.produced = << [id |-> p, val |-> ValOf(out)] >>,
                               !.body = Marker(p, ValOf(out))]
=============================================================================
