-------------------------- MODULE TraceAPIValidate --------------------------
(* Trace validation of untyped.API.Validate and of the serving consequence   *)
(* against APIValidate (property C19).                                       *)
(* case  : one description + the list of registration sets tried on it        *)
(* events: validate {ri, ok, section, missing_reg, missing_spec, panic}       *)
(*         serve    {ri, op, ctype, accept, accept_first, alt, status, ran, class} *)
(*         do       {act, arg, arg2, panic}   history cases: one call that     *)
(*                  changes the registrations of the case's one API value;    *)
(*                  validate / serve with ri = 0 refer to that value           *)
EXTENDS APIValidate, Json, IOUtils

VARIABLES l, st, skipping, fails, cs

RInit(e) == [desc |-> e.desc, regs |-> e.regs, cur |-> NewAPI]

\* ri = 0: the API value of a history case, as its registrations stand at this moment
RegOf(s, e) == IF e.ri = 0 THEN s.cur ELSE s.regs[e.ri]

NoDup(s) == Cardinality(Rng(s)) = Len(s)

VObs(e) == [ok |-> e.ok, section |-> e.section, missingSpec |-> Rng(e.missing_spec), missingReg |-> Rng(e.missing_reg)]

RAllowed(s, e) ==
  CASE e.ev = "validate" -> /\ ~e.panic
                            /\ ValidateAllowed(s.desc, RegOf(s, e), VObs(e))
                            /\ NoDup(e.missing_spec) /\ NoDup(e.missing_reg)
    [] e.ev = "serve"    -> ServeAllowed(s.desc, RegOf(s, e), e)
    [] e.ev = "do"       -> ~e.panic
    [] OTHER -> FALSE

RWhy(s, e) ==
  CASE e.ev = "validate" -> IF e.panic THEN "validate-panics"
                            ELSE IF ~ValidateAllowed(s.desc, RegOf(s, e), VObs(e)) THEN ValidateWhy(s.desc, RegOf(s, e), VObs(e))
                            ELSE "item-reported-twice"
    [] e.ev = "serve"    -> "validated-api-fails-for-lack-of-registration"
    [] e.ev = "do"       -> "registration-call-panics"
    [] OTHER -> "unknown-event"

RStep(s, e) == IF e.ev = "do" THEN [s EXCEPT !.cur = Apply(@, e)] ELSE s

TheTrace == ndJsonDeserialize(IOEnv.TRACE_FILE)
TC == INSTANCE TraceCommon WITH TInit <- RInit, TAllowed <- RAllowed, TStep <- RStep,
                                TWhy <- RWhy, TStateful <- FALSE, Trace <- TheTrace
Spec == TC!Spec
=============================================================================
