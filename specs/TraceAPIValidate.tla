-------------------------- MODULE TraceAPIValidate --------------------------
(* Trace validation of untyped.API.Validate and of the serving consequence   *)
(* against APIValidate (property C19).                                       *)
(* case  : one description + the list of registration sets tried on it        *)
(* events: validate {ri, ok, section, missing_reg, missing_spec, panic}       *)
(*         serve    {ri, op, ctype, accept, status, ran, class}               *)
EXTENDS APIValidate, Json, IOUtils

VARIABLES l, st, skipping, fails, cs

RInit(e) == [desc |-> e.desc, regs |-> e.regs]

NoDup(s) == Cardinality(Rng(s)) = Len(s)

VObs(e) == [ok |-> e.ok, section |-> e.section, missingSpec |-> Rng(e.missing_spec), missingReg |-> Rng(e.missing_reg)]

RAllowed(s, e) ==
  CASE e.ev = "validate" -> /\ ~e.panic
                            /\ ValidateAllowed(s.desc, s.regs[e.ri], VObs(e))
                            /\ NoDup(e.missing_spec) /\ NoDup(e.missing_reg)
    [] e.ev = "serve"    -> ServeAllowed(s.desc, s.regs[e.ri], e)
    [] OTHER -> FALSE

RWhy(s, e) ==
  CASE e.ev = "validate" -> IF e.panic THEN "validate-panics"
                            ELSE IF ~ValidateAllowed(s.desc, s.regs[e.ri], VObs(e)) THEN ValidateWhy(s.desc, s.regs[e.ri], VObs(e))
                            ELSE "item-reported-twice"
    [] e.ev = "serve"    -> "validated-api-fails-for-lack-of-registration"
    [] OTHER -> "unknown-event"

RStep(s, e) == s

TheTrace == ndJsonDeserialize(IOEnv.TRACE_FILE)
TC == INSTANCE TraceCommon WITH TInit <- RInit, TAllowed <- RAllowed, TStep <- RStep,
                                TWhy <- RWhy, TStateful <- FALSE, Trace <- TheTrace
Spec == TC!Spec
=============================================================================
