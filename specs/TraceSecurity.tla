---------------------------- MODULE TraceSecurity ----------------------------
(* Trace validation of the real security stage (untyped API handler) against *)
(* the declarative property of Security.tla.                                *)
(* case  : one API (reset line = alts, avail, authz + how the driver renders *)
(*         it: schemes, where, kinds, undef, and the requests to send)       *)
(* events: built {alts, anon}            structure the router derived        *)
(*         req {variant, order, out,     a new request starts; out = the     *)
(*              target, alts}            per-scheme outcome vector it carries, *)
(*                                       alts = the requirement of the        *)
(*                                       operation it addresses (the API has  *)
(*                                       sibling operations and a global      *)
(*                                       requirement using the same schemes   *)
(*                                       with other scopes)                   *)
(*         auth_call {scheme, k, scopes} an authenticator was consulted      *)
(*         authz_call {principal}        the authorizer was consulted        *)
(*         done {status, err, ran, bind, consumer_calls, principal, scopes}  *)
EXTENDS Security, Json, IOUtils

VARIABLES l, st, skipping, fails, cs

SInit(e) == [c |-> [alts |-> e.alts, avail |-> e.avail, authz |-> e.authz, out |-> <<>>],
             calls |-> <<>>, cscopes |-> <<>>, authz |-> <<>>, open |-> FALSE]

\* buildAuthenticators: one RouteAuthenticator per alternative, same schemes, anonymous detected
StructureOK(c, e) ==
  /\ e.found
  /\ Len(e.alts) = Len(c.alts) /\ Len(e.anon) = Len(c.alts)
  /\ \A i \in DOMAIN c.alts :
        /\ e.anon[i] = IsAnon(c.alts[i])
        /\ ~e.anon[i] => /\ Range(e.alts[i]) = Range(c.alts[i].schemes)
                         /\ Len(e.alts[i]) = Len(c.alts[i].schemes)

SAllowed(s, e) ==
  CASE e.ev = "built"      -> StructureOK(s.c, e)
    [] e.ev = "req"        -> ~s.open /\ e.variant \in Variants
    [] e.ev = "auth_call"  -> /\ s.open
                              /\ CallOK(s.c, e.scheme)
                              /\ e.k = s.c.out[e.scheme].k          \* the outcome the credentials presented call for (scripted
                                                                    \* authenticators: as scripted; real api-key authenticators:
                                                                    \* decided by the key in the header / query of the request)
                              /\ CallScopesOK(s.c, Append(s.calls, e.scheme), Append(s.cscopes, e.scopes))
    [] e.ev = "authz_call" -> s.open /\ s.c.authz # "none" /\ s.authz = <<>>
    [] e.ev = "done"       -> s.open /\ ~e.panic /\ DoneOK(s.c, s.calls, s.authz, e)
    [] OTHER -> FALSE

SWhy(s, e) ==
  CASE e.ev = "built"      -> "router-structure-differs-from-declared-requirements"
    [] e.ev = "req"        -> "driver-protocol"
    [] e.ev = "auth_call"  -> IF s.open /\ ~CallOK(s.c, e.scheme) THEN "authenticator-consulted-that-is-not-required-or-not-registered"
                              ELSE IF s.open /\ e.k = s.c.out[e.scheme].k THEN "authenticator-handed-scopes-of-no-alternative-of-the-requested-operation"
                              ELSE IF s.open THEN "scheme-outcome-differs-from-the-credentials-presented-in-the-request"
                              ELSE "driver-protocol"
    [] e.ev = "authz_call" -> IF s.c.authz = "none" THEN "driver-protocol" ELSE "authorizer-consulted-twice"
    [] e.ev = "done"       -> IF ~s.open THEN "driver-protocol" ELSE IF e.panic THEN "panic"
                              ELSE DoneWhy(s.c, s.calls, s.authz, e)
    [] OTHER -> "unknown-event"

SStep(s, e) ==
  CASE e.ev = "req"        -> [s EXCEPT !.c.out = e.out, !.c.alts = e.alts, !.calls = <<>>, !.cscopes = <<>>,
                                        !.authz = <<>>, !.open = TRUE]
    [] e.ev = "auth_call"  -> [s EXCEPT !.calls = Append(@, e.scheme), !.cscopes = Append(@, e.scopes)]
    [] e.ev = "authz_call" -> [s EXCEPT !.authz = Append(@, e.principal)]
    [] e.ev = "done"       -> [s EXCEPT !.open = FALSE]
    [] OTHER -> s

TheTrace == ndJsonDeserialize(IOEnv.TRACE_FILE)
TC == INSTANCE TraceCommon WITH TInit <- SInit, TAllowed <- SAllowed, TStep <- SStep,
                                TWhy <- SWhy, TStateful <- TRUE, Trace <- TheTrace
Spec == TC!Spec
=============================================================================
