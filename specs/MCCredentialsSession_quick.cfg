SPECIFICATION Spec
CONSTANTS
  Mutant = "none"
  MaxSteps = 3
INVARIANTS Holds NothingRemembered OperationUnchanged
CHECK_DEADLOCK FALSE
