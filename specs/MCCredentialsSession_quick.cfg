SPECIFICATION Spec
CONSTANTS
  Mutant = "none"
  MaxSteps = 3
INVARIANTS Holds NothingRemembered
CHECK_DEADLOCK FALSE
