SPECIFICATION Spec
CONSTANTS
  N = 3
  SharedBuffer = TRUE
INVARIANT FullContent
CHECK_DEADLOCK FALSE
