SPECIFICATION Spec
CONSTANTS
  ClosesPipeOnBuildError = TRUE
  ClosesFilesOnParamsError = TRUE
  CopyMarksEndSeen = TRUE
  CancelsBeforeClose = FALSE
  ClosesFilesOnFieldError = TRUE
  FileLen = 2
  RespLen = 2
  ZeroLenReadSetsEOF = FALSE
  PNames = {"buffer"}
  Auths = {"none", "ok", "read"}
  Readers = {"all", "w1"}
  Cancels = {"none"}
  MaxFaults = 1
INVARIANTS InvReleased
CHECK_DEADLOCK FALSE
