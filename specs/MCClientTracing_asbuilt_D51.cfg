SPECIFICATION Spec
CONSTANTS
  RestoresOp = TRUE
  ClientStatusRule = FALSE
  CopiesOpts = TRUE
  SharedSpanVar = FALSE
  MaxCalls = 1
  Statuses = {200, 404, 500}
  Unassigned = {}
INVARIANTS InvError
CHECK_DEADLOCK FALSE
