SPECIFICATION Spec
CONSTANTS
  OAuthEscapes = TRUE
CHECK_DEADLOCK FALSE
