SPECIFICATION Spec
CONSTANTS
  OAuthEscapes = TRUE
  SpecRouteEscaped = FALSE
CHECK_DEADLOCK FALSE
