SPECIFICATION Spec
CONSTANTS
  NumberDefaultsToDouble = TRUE
  ArrayDefaultConverted = TRUE
  FormatDefaultParsed = TRUE
  HeaderCanonicalLookup = TRUE
  NamedStringValidated = TRUE
  RequiredFileIs422 = TRUE
  ItemFormatValidated = TRUE
  FormDataFromBodyOnly = FALSE
  Thorough = FALSE
INVARIANTS Property
CHECK_DEADLOCK FALSE
