SPECIFICATION Spec
CONSTANTS
  AbsentBodyRule = TRUE
  ScalarTargets = TRUE
  NullIsNull = TRUE
  LibraryConforms = TRUE
CHECK_DEADLOCK FALSE
