SPECIFICATION Spec
CONSTANTS
  SkipsUnregistered = FALSE
  Schemes <- SchemesABC
  MaxAlts = 2
  MaxPerAlt = 3
INVARIANTS PropertyHolds CallsOK TypeOK
CHECK_DEADLOCK FALSE
