---------------------------- MODULE MCNegotiate ----------------------------
(* Exhaustive small-scope check of Negotiate: faithful = declarative for     *)
(* every small header / offer list.  Inputs are chosen step by step in Next. *)
(*   mode "ct"  : parsed ranges x offers      NegotiateLoop = BestOffer ...  *)
(*   mode "enc" : codings x offers            EncodingLoop  = BestEncoding   *)
(*   mode "syn" : structured header           Parse(Render(h)) = SpecsOf(h)  *)
EXTENDS Negotiate

CONSTANTS MaxSpecs, MaxOffers, MaxSynRanges, BigQ, CheckMonotone

VARIABLES mode, specs, offers, hdr
vars == <<mode, specs, offers, hdr>>

B(c) == <<c>>
cA == 97  cB == 98  cX == 120  cY == 121

\* ---- pools ---------------------------------------------------------------
Q(i, f) == [i |-> i, f |-> f]
QPool == IF BigQ
         THEN { Q(1, <<>>), Q(0, <<>>), Q(0, <<5>>), Q(0, <<5, 0>>), Q(0, <<9>>), Q(1, <<0>>), Q(0, <<0, 0>>) }
         ELSE { Q(1, <<>>), Q(0, <<>>), Q(0, <<5>>), Q(0, <<5, 0>>), Q(1, <<0>>) }

RangeValues == { <<cA, SLASH, cX>>, <<cA, SLASH, cY>>, <<cA, SLASH, STAR>>, <<cB, SLASH, cX>>, <<STAR, SLASH, STAR>> }

Offer(t, s, sep, p) == [t |-> t, s |-> s, sep |-> sep, p |-> p]
OfferPool == { Offer(B(cA), B(cX), <<>>, <<>>), Offer(B(cA), B(cY), <<>>, <<>>), Offer(B(cB), B(cX), <<>>, <<>>),
               Offer(B(cB), B(cY), <<>>, <<>>), Offer(B(cA), B(cX), <<SEMI>>, <<99, EQUAL, 49>>) }

EncValues == { <<103>>, <<98>>, <<STAR>>, <<105>> }      \* g, b, *, i
EncOffers == { <<103>>, <<98>>, <<105>> }

\* structured ranges for the syntax check
Par(k, v) == [k |-> k, v |-> v]
SynRanges ==
  { [t |-> ts[1], s |-> ts[2], hasq |-> hq, q |-> q, pb |-> pb, pa |-> pa, ws |-> ws, lead |-> lead] :
      ts \in { <<B(cA), B(cX)>>, <<B(cA), B(STAR)>>, <<B(STAR), <<>>>> },
      hq \in BOOLEAN, q \in { Q(0, <<5>>), Q(0, <<>>), Q(1, <<0>>) },
      pb \in { <<>>, <<Par(<<108>>, <<34, 120, 92, 34, 121, 34>>)>>, <<Par(<<115, 113>>, <<48>>)>> },   \* l="x\"y" (quoted-pair) ; sq=0
      pa \in { <<>>, <<Par(<<101>>, <<49, 47, 50, 58, 64>>)>> },                        \* e=1/2:@  (a value need not be a token)
      ws \in { <<>>, <<32>> }, lead \in BOOLEAN }
SynPool == { r \in SynRanges : /\ (~r.hasq => (r.pa = <<>> /\ r.q = Q(0, <<5>>) /\ r.lead))   \* canonical when unused
                               /\ (r.q.i = 1 => r.lead) }

Init == mode = "init" /\ specs = <<>> /\ offers = <<>> /\ hdr = <<>>

ChooseMode == /\ mode = "init"
              /\ mode' \in {"ct", "enc", "syn"}
              /\ UNCHANGED <<specs, offers, hdr>>

AddSpec == /\ mode \in {"ct", "enc"} /\ offers = <<>> /\ Len(specs) < MaxSpecs
           /\ \E v \in (IF mode = "ct" THEN RangeValues ELSE EncValues), q \in QPool :
                specs' = Append(specs, [v |-> v, q |-> q])
           /\ UNCHANGED <<mode, offers, hdr>>

AddOffer == /\ mode \in {"ct", "enc"} /\ Len(offers) < MaxOffers
            /\ \E o \in (IF mode = "ct" THEN OfferPool ELSE EncOffers) : offers' = Append(offers, o)
            /\ UNCHANGED <<mode, specs, hdr>>

NRanges == Len(Flatten(hdr))
AddRange == /\ mode = "syn" /\ NRanges < MaxSynRanges
            /\ \E r \in SynPool :
                 \/ hdr' = Append(hdr, <<r>>)                                            \* new header line
                 \/ hdr # <<>> /\ hdr[Len(hdr)] # <<>> /\ hdr' = [hdr EXCEPT ![Len(hdr)] = Append(@, r)]   \* same line
            /\ UNCHANGED <<mode, specs, offers>>

\* a header line without ranges, at any position
AddBlankLine == /\ mode = "syn" /\ Len(hdr) < MaxSynRanges + 1 /\ NRanges < MaxSynRanges
                /\ hdr' = Append(hdr, <<>>)
                /\ UNCHANGED <<mode, specs, offers>>

Next == ChooseMode \/ AddSpec \/ AddOffer \/ AddRange \/ AddBlankLine
Spec == Init /\ [][Next]_vars

\* ---- invariants -----------------------------------------------------------
\* (one invariant per mode so that the loop is evaluated once per state)
LoopIsBest(k)             == k = BestOffer(specs, offers)
ResultIsOfferOrDefault(k) == k \in 0..Len(offers)
ZeroQNeverSelects(k)      == ZeroNeverSelects(specs, offers, k)
SmallerNeverOutranks(k)   == NoSmallerOutranks(specs, offers, k)
NoAcceptFirstOffer(k)     == (specs = <<>> /\ offers # <<>>) => k = 1

ContentTypeProperty ==
  mode = "ct" => LET k == NegotiateLoop(specs, offers) IN
                 /\ LoopIsBest(k) /\ ResultIsOfferOrDefault(k) /\ ZeroQNeverSelects(k)
                 /\ SmallerNeverOutranks(k) /\ NoAcceptFirstOffer(k)

\* raising the q of one range leaves the choice or moves it to an offer that this range admits
Monotone ==
  (mode = "ct" /\ CheckMonotone) =>
    \A j \in DOMAIN specs : \A q \in QPool :
      QLess(specs[j].q, q) =>
        LET k2 == NegotiateLoop(Raise(specs, j, q), offers) IN
        \/ k2 = NegotiateLoop(specs, offers)
        \/ k2 # 0 /\ Matches(specs[j].v, NormOffer(offers[k2]))

EncLoopIsBest == mode = "enc" => EncodingLoop(specs, offers) = BestEncoding(specs, offers)

ParseRoundTrip == mode = "syn" => ParseAcceptBytes(RenderHeader(hdr)) = SpecsOf(hdr)

\* non-vacuity witnesses (violated when checked)
NeverWildcardWins == ~(mode = "ct" /\ NegotiateLoop(specs, offers) > 1)
=============================================================================
