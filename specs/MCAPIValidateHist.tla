------------------------- MODULE MCAPIValidateHist -------------------------
(* One API value over time (C19, "Validate reflects the CURRENT               *)
(* registrations"): every history of <= MaxLen calls out of a pool of          *)
(* registration changes (Register*, WithJSONDefaults, WithoutJSONDefaults)     *)
(* and Validate, on a fixed small description; each Validate is judged         *)
(* against the registrations at that moment.                                   *)
(* The faithful Validate has no memory; Mutant = "memoised" models an          *)
(* implementation that caches a successful verdict until the next Register*    *)
(* (and forgets that the two JSON-default calls change registrations too).     *)
EXTENDS APIValidate

CONSTANT MaxLen

VARIABLES reg, memo, last, n
vars == <<reg, memo, last, n>>

J == JSONMime
X == <<97,112,112,108,105,99,97,116,105,111,110,47,120,109,108>>        \* application/xml
get == <<103,101,116>>   put == <<112,117,116>>
pa == <<47,97>>  pc == <<47,99>>
NoSec == [present |-> FALSE, alts |-> <<>>]

Desc == [consumes |-> <<J, X>>, produces |-> <<J>>, sec |-> NoSec, defs |-> <<>>,
         ops |-> <<[method |-> get, path |-> pa, consumes |-> <<>>, produces |-> <<>>, sec |-> NoSec, body |-> FALSE, nocontent |-> FALSE]>>]

A(act, arg, arg2) == [act |-> act, arg |-> arg, arg2 |-> arg2]
Actions == {A("RegisterConsumer", X, <<>>), A("RegisterConsumer", J, <<>>), A("RegisterProducer", X, <<>>),
            A("RegisterOperation", get, pa), A("RegisterOperation", put, pc),
            A("WithJSONDefaults", <<>>, <<>>), A("WithoutJSONDefaults", <<>>, <<>>)}

None == [ok |-> FALSE, section |-> "none", missingSpec |-> {}, missingReg |-> {}]

Init == reg = NewAPI /\ memo = FALSE /\ last = None /\ n = 0

Do == /\ n < MaxLen
      /\ \E a \in Actions : /\ reg' = Apply(reg, a)
                            /\ memo' = IF IsRegister(a) THEN FALSE ELSE memo
      /\ last' = None /\ n' = n + 1

DoValidate ==
  /\ n < MaxLen
  /\ LET r == IF Mutant = "memoised" /\ memo THEN OKRes ELSE Validate(Desc, reg) IN
     /\ last' = r /\ memo' = r.ok
  /\ n' = n + 1 /\ UNCHANGED reg

Next == Do \/ DoValidate
Spec == Init /\ [][Next]_vars

ValidateIsCurrent == last.section # "none" => ValidateAllowed(Desc, reg, last)

\* non-vacuity witness (must be VIOLATED): some history validates
NeverPasses == ~last.ok
=============================================================================
