------------------------- MODULE TraceClientTracing -------------------------
(* Trace validation of the real tracing transports                           *)
(* (Runtime.WithOpenTracing / Runtime.WithOpenTelemetry on a real            *)
(* client.Runtime with a scripted RoundTripper; recording decorators around  *)
(* mocktracer / the OpenTelemetry SDK with the in-memory span recorder)      *)
(* against ClientTracing.                                                    *)
(*                                                                           *)
(* case "seq" : Submits of one operation value, one after the other          *)
(*              (script = e.calls exported by GenClientTracing).             *)
(* case "conc": n callers with their own operation through one transport;    *)
(*              the events are grouped per caller after the run (each group  *)
(*              in its real order; t = global logical clock).                *)
(* Per call:  base (the same script WITHOUT tracing), submit, span_start /   *)
(*            span_op / span_finish (recorded by the tracer decorators),     *)
(*            params / roundtrip / reader (harness callbacks), return.       *)
(* End of case: end.  case "race": the race detector's report count.         *)
(*                                                                           *)
(* Every span event is checked when it happens (inside a call, on a span of  *)
(* this call, not after Finish, at most one start, only with context/parent, *)
(* child of the caller's span); at `return` the observation of the call must *)
(* satisfy Prop (every clause of the statement) and agree with the model's   *)
(* observation for the script (RunCall), and the caller-visible behaviour    *)
(* must be that of the untraced run.                                         *)
EXTENDS ClientTracing, Json, IOUtils

VARIABLES l, st, skipping, fails, cs

Range(s) == { s[i] : i \in DOMAIN s }

Cur0 == [pargs |-> <<>>, rargs |-> <<>>, sent |-> FALSE, out |-> {}, rts |-> 0]

TInit(e) ==
  IF e.kind = "race" THEN [kind |-> "race"]
  ELSE [kind |-> e.kind, E |-> [fl |-> e.flavor, spare |-> e.spare],
        op |-> [id |-> e.id, method |-> e.method, path |-> e.path, host |-> e.host],
        calls |-> e.calls, reuse |-> e.reuse, gates |-> e.gates,
        n |-> 0, phase |-> "idle", based |-> FALSE,
        mc |-> CInit, mg |-> GInit, want |-> <<>>,
        spans |-> <<>>, base |-> <<>>, cur |-> Cur0]

\* ---- concrete tag names per flavor
Lower(m) == CASE m = "GET" -> "get" [] m = "POST" -> "post" [] m = "PUT" -> "put" [] m = "DELETE" -> "delete" [] OTHER -> m
SpanName(fl, op) == IF op.id # "" THEN op.id
                    ELSE IF fl = "ot" THEN op.method \o "_" \o op.path ELSE Lower(op.method) \o "_" \o op.path
PathKey(fl) == IF fl = "ot" THEN "http.path" ELSE "http.route"
HostKey(fl) == IF fl = "ot" THEN "peer.hostname" ELSE "net.peer.name"
StatusKey   == "http.status_code"

TagsOf(e) == { <<p[1], p[2]>> : p \in Range(e.tags) }
KeysOf(fl, op, e) ==
  LET tg == TagsOf(e) IN
     (IF e.name = SpanName(fl, op) THEN {"name"} ELSE {})
  \cup (IF <<"http.method", op.method>> \in tg THEN {"method"} ELSE {})
  \cup (IF <<PathKey(fl), op.path>> \in tg THEN {"path"} ELSE {})
  \cup (IF <<HostKey(fl), op.host>> \in tg THEN {"host"} ELSE {})
  \cup (IF e.kind = "client" THEN {"kind"} ELSE {})
  \cup (IF <<"peer.service", "svc">> \in tg THEN {"opt"} ELSE {})
  \cup (IF \E p \in tg : p[1] = StatusKey THEN {"status"} ELSE {})
StatusOf(sc, e) ==
  LET tg == TagsOf(e) IN
  IF <<StatusKey, ToString(sc.status)>> \in tg /\ Cardinality({ p \in tg : p[1] = StatusKey }) = 1 THEN sc.status
  ELSE IF \E p \in tg : p[1] = StatusKey THEN -1 ELSE 0

\* ---- helpers on the monitor state
Sc(s)      == s.calls[s.n]
Me(s)      == IF s.kind = "conc" THEN s.n ELSE 1                    \* whose caller span is "the caller's span"
ParentName(p, me) == IF p = me THEN "caller" ELSE IF p = 0 THEN "root" ELSE "other"
MineIds(s) == { id \in DOMAIN s.spans : s.spans[id].by = <<1, s.n>> }
MineObs(s) == { s.spans[id] : id \in MineIds(s) }

ObsAtReturn(s, e) ==
  [mine |-> MineObs(s), pcalls |-> Len(s.cur.pargs), rcalls |-> Len(s.cur.rargs), err |-> e.err,
   sent |-> s.cur.sent, out |-> s.cur.out, opclean |-> (e.params_same /\ e.reader_same /\ e.rest_same), panic |-> e.panic]

\* the caller-visible behaviour is that of the run without tracing
SameAsBase(s, e) ==
  /\ s.cur.pargs = s.base.pargs /\ s.cur.rargs = s.base.rargs /\ s.cur.rts = s.base.rts
  /\ e.err = s.base.err /\ e.err_is = s.base.err_is /\ e.err_text = s.base.err_text /\ e.val_ok = s.base.val_ok

\* the untraced run itself is what the script says (binds the script rendering of the driver)
BaseOK(sc, e) ==
  /\ ~e.panic
  /\ Len(e.pargs) = (IF ReachedParams(sc) THEN 1 ELSE 0)
  /\ Len(e.rargs) = (IF ReadResponse(sc) THEN 1 ELSE 0)
  /\ e.rts = (IF SentRequest(sc) THEN 1 ELSE 0)
  /\ e.err = ReturnsErr(sc)
  /\ e.err_is = (IF sc.end \in {"params", "auth", "transport", "reader"} THEN sc.end ELSE IF sc.end = "ok" THEN "none" ELSE "other")
  /\ e.val_ok = (sc.end = "ok")
  /\ \A i \in DOMAIN e.rargs : e.rargs[i].code = sc.status /\ e.rargs[i].cons_ok
  /\ \A i \in DOMAIN e.pargs : e.pargs[i].reg_ok

SpanLive(s, e) == /\ s.phase = "in" /\ e.span \in DOMAIN s.spans
                  /\ s.spans[e.span].by = <<1, s.n>> /\ s.spans[e.span].fin = 0

ReturnOK(s, e) ==
  LET o == ObsAtReturn(s, e) IN
  /\ s.phase = "in"
  /\ \A x \in o.mine : x.tlast < e.t
  /\ Prop(s.E.fl, Sc(s), o)
  /\ \/ ObsProj(o) = s.want[1]
     \/ SpanOptional(s.E.fl, Sc(s)) /\ o.mine = {} /\ ObsProj(o) = NoSpanProj(s.want[1])
  /\ SameAsBase(s, e)

CaseAllowed(s, e) ==
  CASE e.ev = "base"   -> s.phase = "idle" /\ ~s.based /\ s.n < Len(s.calls) /\ e.k = s.n + 1 /\ BaseOK(s.calls[s.n + 1], e)
    [] e.ev = "submit" -> s.phase = "idle" /\ s.based /\ e.k = s.n + 1
    [] e.ev = "span_start" ->
         /\ s.phase = "in" /\ e.span \notin DOMAIN s.spans
         /\ MineIds(s) = {}                                        \* at most one span per call
         /\ Traceable(s.E.fl, Sc(s).ctx)                            \* only with a context (OpenTracing: a parent span)
         /\ ParentName(e.parent, Me(s)) = (IF Sc(s).ctx = "span" THEN "caller" ELSE "root")
    [] e.ev = "span_op"     -> SpanLive(s, e)
    [] e.ev = "span_finish" -> SpanLive(s, e)
    [] e.ev = "params"    -> s.phase = "in"
    [] e.ev = "roundtrip" -> s.phase = "in"
    [] e.ev = "reader"    -> s.phase = "in"
    [] e.ev = "return"    -> ReturnOK(s, e)
    [] e.ev = "gates"     -> /\ s.kind = "conc" /\ LegalGates(e.released, [i \in 1..Len(s.calls) |-> 0])
                             /\ e.exact => e.released = s.gates
    [] e.ev = "end"       -> /\ s.phase = "idle" /\ s.n = Len(s.calls)
                             /\ \A id \in DOMAIN s.spans : s.spans[id].fin = 1
                             /\ e.open = 0 /\ e.stray = 0 /\ e.started = Cardinality(DOMAIN s.spans)
    [] OTHER -> FALSE

MAllowed(s, e) == IF s.kind = "race" THEN e.ev = "race" /\ e.reports = 0 ELSE CaseAllowed(s, e)

MStep(s, e) ==
  IF s.kind = "race" THEN s
  ELSE CASE e.ev = "base" -> [s EXCEPT !.base = e, !.based = TRUE]
    [] e.ev = "submit" ->
         LET sc == s.calls[s.n + 1]
             r  == IF s.reuse THEN RunCall(s.E, 1, s.mc, s.mg, sc) ELSE RunCall(s.E, 1, CInit, GInit, sc) IN
         [s EXCEPT !.n = @ + 1, !.phase = "in", !.based = FALSE, !.cur = Cur0,
                   !.mc = r.c, !.mg = r.g, !.want = <<ObsProj(ObsOf(r.c, r.g, 1))>>]
    [] e.ev = "span_start" ->
         [s EXCEPT !.spans = (e.span :> [id |-> e.span, by |-> <<1, s.n>>, parent |-> ParentName(e.parent, Me(s)), keys |-> {},
                                         status |-> 0, err |-> FALSE, fin |-> 0, late |-> FALSE, tlast |-> e.t]) @@ s.spans]
    [] e.ev = "span_op" ->
         [s EXCEPT !.spans = (e.span :> [s.spans[e.span] EXCEPT !.tlast = e.t]) @@ s.spans]
    [] e.ev = "span_finish" ->
         [s EXCEPT !.spans = (e.span :> [s.spans[e.span] EXCEPT !.fin = 1, !.tlast = e.t, !.err = e.err,
                                                                 !.keys = KeysOf(s.E.fl, s.op, e),
                                                                 !.status = StatusOf(Sc(s), e)]) @@ s.spans]
    [] e.ev = "params"    -> [s EXCEPT !.cur.pargs = Append(@, [req_type |-> e.req_type, reg_ok |-> e.reg_ok])]
    [] e.ev = "roundtrip" -> [s EXCEPT !.cur.sent = TRUE, !.cur.out = Range(e.hdr), !.cur.rts = @ + 1]
    [] e.ev = "reader"    -> [s EXCEPT !.cur.rargs = Append(@, [code |-> e.code, cons_ok |-> e.cons_ok])]
    [] e.ev = "return"    -> [s EXCEPT !.phase = "idle"]
    [] OTHER -> s

SpanWhy(s, e) ==
  IF s.phase # "in" THEN "span-event-outside-a-call"
  ELSE IF e.span \notin DOMAIN s.spans THEN "event-on-unknown-span"
  ELSE IF s.spans[e.span].by # <<1, s.n>> THEN "span-of-an-earlier-call-used"
  ELSE IF e.ev = "span_finish" THEN "span-finished-twice" ELSE "span-used-after-finish"

MWhy(s, e) ==
  IF s.kind = "race" THEN "data-race-reported"
  ELSE CASE e.ev = "base" -> "untraced-run-does-not-follow-the-script"
    [] e.ev = "submit" -> "protocol"
    [] e.ev = "span_start" ->
         IF s.phase # "in" THEN "span-started-outside-a-call"
         ELSE IF MineIds(s) # {} THEN "more-than-one-span-per-call"
         ELSE IF ~Traceable(s.E.fl, Sc(s).ctx) THEN "span-started-without-context-or-parent"
         ELSE "span-is-not-a-child-of-the-callers-span"
    [] e.ev \in {"span_op", "span_finish"} -> SpanWhy(s, e)
    [] e.ev = "return" ->
         IF s.phase # "in" THEN "protocol"
         ELSE LET o == ObsAtReturn(s, e) IN
              IF \E x \in o.mine : x.tlast >= e.t THEN "span-used-after-return"
              ELSE IF ~Prop(s.E.fl, Sc(s), o) THEN PropWhy(s.E.fl, Sc(s), o)
              ELSE IF ~SameAsBase(s, e) THEN "caller-visible-behaviour-differs-from-untraced-run"
              ELSE "observation-differs-from-model"
    [] e.ev = "gates" -> "gate-history-is-not-the-scheduled-interleaving"
    [] e.ev = "end" -> IF \E id \in DOMAIN s.spans : s.spans[id].fin # 1 \/ e.open # 0 THEN "span-left-unfinished"
                       ELSE IF e.stray # 0 THEN "span-not-attributable-to-a-call" ELSE "case-incomplete"
    [] OTHER -> "unknown-event"

TheTrace == ndJsonDeserialize(IOEnv.TRACE_FILE)
TC == INSTANCE TraceCommon WITH TInit <- TInit, TAllowed <- MAllowed, TStep <- MStep, TWhy <- MWhy,
                                TStateful <- TRUE, Trace <- TheTrace
Spec == TC!Spec
=============================================================================
