SPECIFICATION Spec
CONSTANTS
  NCallers = 3
  RecyclesWrappers = FALSE
  SharedDefaults = FALSE
  SharedCloser = FALSE
  OnceIsNilCheck = FALSE
CHECK_DEADLOCK FALSE
