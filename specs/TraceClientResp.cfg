SPECIFICATION Spec
CONSTANTS
  NCallers = 3
  RecyclesWrappers = FALSE
  OnceIsNilCheck = FALSE
CHECK_DEADLOCK FALSE
