SPECIFICATION Spec
CONSTANTS
  NCallers = 3
  OnceIsNilCheck = FALSE
CHECK_DEADLOCK FALSE
