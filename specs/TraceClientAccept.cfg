SPECIFICATION Spec
CONSTANTS Variant = "head"
CHECK_DEADLOCK FALSE
