---------------------------- MODULE ServePipeline ----------------------------
(***************************************************************************)
(* C09 - per-request state is private under concurrency; stage results are *)
(* reused.                                                                 *)
(*                                                                         *)
(* Part 1 (schedules).  N concurrent requests against one handler.  Each   *)
(* request advances through the stages of its operation; every stage is one*)
(* atomic step named after the hook (verifStage in middleware/context.go,  *)
(* validation.go) or harness-owned callback (authenticator, consumer,      *)
(* handler, producer) that reports it.  The per-request mutable route part *)
(* (Params, Consumer, Authenticator of the MatchedRoute copy) and the bound*)
(* values live in mr[r]/cx[r]; the constant SharedField moves one of them  *)
(* to the shared route entry, which is what a careless change to the code  *)
(* would do.  Private: every observation a request makes equals the one it *)
(* makes when it runs alone.                                               *)
(*                                                                         *)
(* Part 2 (accessor histories) is in module AccessorMemo.                  *)
(***************************************************************************)
EXTENDS Naturals, Sequences, FiniteSets, TLC

CONSTANT SharedField   \* "none" (the code) | "params" | "consumer" | "alt" | "bound"

(* ---- the fixed test API (mirrored by harness/drive/c09) ---------------- *)
(* opA: POST /a/{id}  security [{key:[ska]}]            body, json|text     *)
(* opB: POST /b/{id}  no security                       body, json|text     *)
(* opC: GET  /c/{id}  security [{key:[skc]},{tok:[stc2,stc1]}] (declared out of lexical order on purpose: a reader must not sort the shared slice, seed C09-17)  no body     *)
(* opD: POST /d       security [{key:[skd]}]            body, json|text     *)
(*      (a parameter-free, static route)                                    *)
(* opE: POST /e       no security                       body, json|text     *)
(*      (a parameter-free, static AND unsecured route)                      *)
Ops == {"opA", "opB", "opC", "opD", "opE"}
Pattern(op) == CASE op = "opA" -> "/a/{id}" [] op = "opB" -> "/b/{id}" [] op = "opC" -> "/c/{id}" [] op = "opD" -> "/d"
                 [] op = "opE" -> "/e"
HasBody(op) == op \in {"opA", "opB", "opD", "opE"}
HasId(op) == op \notin {"opD", "opE"}
Alts(op) == CASE op = "opA" -> << [scheme |-> "key", scopes |-> <<"ska">>] >>
              [] op = "opD" -> << [scheme |-> "key", scopes |-> <<"skd">>] >>
              [] op = "opB" -> << >>
              [] op = "opE" -> << >>
              [] op = "opC" -> << [scheme |-> "key", scopes |-> <<"skc">>],
                                  [scheme |-> "tok", scopes |-> <<"stc2", "stc1">>] >>
Secured(op) == Alts(op) # << >>
ScopesAt(op, i) == IF i \in DOMAIN Alts(op) THEN Alts(op)[i].scopes ELSE <<"?">>

(* A request: [op, id, body, ctype, accept, cs, cu, rt, q, h]                            *)
(*   cs/cu : credential scheme / user; cu = "bad": the authenticator rejects it;         *)
(*           cs = "-": no credential                                                     *)
(*   ctype : "json" | "text" | "xml" (not admitted: 415) | "bad" (unparsable: 400)       *)
(*   accept: "json" | "text" | "none" (matches no offer: 406)                            *)
(*   rt    : "ok" | "404" (no such path) | "405" (path known under another method)      *)
(*   q     : "ok" | "bad" (integer query parameter n is not a number: 422)              *)
(*   h     : "ok" | "err" (the handler returns an error with status 418)                *)
(* The refusal classes take precedence in the order of the pipeline:                     *)
(*   routing > security > content type > accept > parameters > handler                  *)
Admits(op, cs) == \E i \in DOMAIN Alts(op) : Alts(op)[i].scheme = cs
AdmittingAlt(op, cs) == CHOOSE i \in DOMAIN Alts(op) : Alts(op)[i].scheme = cs

NoneStr == "-"
IdOf(in) == IF HasId(in.op) THEN in.id ELSE NoneStr      \* the path parameter, if the route has one
(* The media-type lists of the matched route, projected onto what they were when the router first  *)
(* handed the route out (index of each entry in that first view): the operations consume            *)
(* "application/json; charset=utf-8", "text/plain" + the appended API default, and produce two      *)
(* types.  No request may reorder or rewrite them for the requests that follow (seeds C09-13/14).   *)
RouteView == <<"c:0,1,2", "p:0,1">>

DataOf(in) == IF HasId(in.op) THEN in.id ELSE in.body    \* what the test handler returns

AuthOK(in) == Secured(in.op) /\ in.cs # NoneStr /\ Admits(in.op, in.cs) /\ in.cu # "bad"
AuthCallsOf(in) == IF AuthOK(in) THEN AdmittingAlt(in.op, in.cs) ELSE Len(Alts(in.op))

Routed(in)      == in.rt = "ok"
AuthRefused(in) == Routed(in) /\ Secured(in.op) /\ ~AuthOK(in)
Reaches(in)     == Routed(in) /\ ~AuthRefused(in)                   \* binding is reached
CtParseErr(in)  == Reaches(in) /\ HasBody(in.op) /\ in.ctype = "bad"
CtUnadmitted(in) == Reaches(in) /\ HasBody(in.op) /\ in.ctype = "xml"
CtErr(in)       == CtParseErr(in) \/ CtUnadmitted(in)
AcceptErr(in)   == Reaches(in) /\ ~CtErr(in) /\ in.accept = "none"
ParamsReached(in) == Reaches(in) /\ ~CtErr(in) /\ ~AcceptErr(in)
ParamErr(in)    == ParamsReached(in) /\ in.q = "bad"
Valid(in)       == ParamsReached(in) /\ ~ParamErr(in)
HandlerErr(in)  == Valid(in) /\ in.h = "err"

Status(in) ==
  CASE in.rt = "404" -> "404" [] in.rt = "405" -> "405"
    [] AuthRefused(in) -> "401"
    [] CtParseErr(in) -> "400" [] CtUnadmitted(in) -> "415"
    [] AcceptErr(in) -> "406"
    [] ParamErr(in) -> "422"
    [] HandlerErr(in) -> "418"
    [] OTHER -> "200"

(* Request families used by MCServePipeline and GenServePipeline: the k-th concurrent request has  *)
(* its own id, body, media types and user (so that cross-talk is visible); it varies over the       *)
(* operation/credential kind and over what is wrong with it.                                        *)
Profiles == <<[ctype |-> "json", accept |-> "json", cu |-> "u1"],
              [ctype |-> "text", accept |-> "text", cu |-> "u2"],
              [ctype |-> "json", accept |-> "text", cu |-> "u1"]>>
OpCreds == { <<"opA", "key">>, <<"opB", NoneStr>>, <<"opC", "key">>, <<"opC", "tok">>, <<"opD", "key">>, <<"opE", NoneStr>> }
DefectKinds == {"none", "404", "405", "badcred", "nocred", "xml", "badct", "noaccept", "badparam", "handlererr"}

Req(k, op, c) == [op |-> op, id |-> "i" \o ToString(k), body |-> "b" \o ToString(k),
                  ctype |-> Profiles[k].ctype, accept |-> Profiles[k].accept,
                  cs |-> c, cu |-> Profiles[k].cu, rt |-> "ok", q |-> "ok", h |-> "ok"]

WithDefect(r, d) ==
  CASE d = "none"       -> r
    [] d = "404"        -> [r EXCEPT !.rt = "404"]
    [] d = "405"        -> [r EXCEPT !.rt = "405"]
    [] d = "badcred"    -> [r EXCEPT !.cu = "bad"]
    [] d = "nocred"     -> [r EXCEPT !.cs = NoneStr]
    [] d = "xml"        -> [r EXCEPT !.ctype = "xml"]
    [] d = "badct"      -> [r EXCEPT !.ctype = "bad"]
    [] d = "noaccept"   -> [r EXCEPT !.accept = "none"]
    [] d = "badparam"   -> [r EXCEPT !.q = "bad"]
    [] d = "handlererr" -> [r EXCEPT !.h = "err"]

RECURSIVE WithDefects(_, _)
WithDefects(r, ds) == IF ds = {} THEN r
                      ELSE LET d == CHOOSE x \in ds : TRUE IN WithDefects(WithDefect(r, d), ds \ {d})
Consistent(ds) == /\ ~({"404", "405"} \subseteq ds) /\ ~({"xml", "badct"} \subseteq ds)
                  /\ ~({"badcred", "nocred"} \subseteq ds) /\ "none" \notin ds

\* a defect that does not apply to the operation (credentials of an unsecured one, body of a GET) is left out
DefectApplies(op, d) == /\ (d \in {"badcred", "nocred"} => Secured(op))
                        /\ (d \in {"xml", "badct"} => HasBody(op))

(* Respond with an error: the format is negotiated (and stored) only when the Accept header admits an offer *)
RespondErr(in) == (IF in.accept # "none" THEN <<"format">> ELSE << >>) \o <<"respond", "done">>

(* Stage names in execution order for a request.                            *)
AuthCalls(in) == [i \in 1..AuthCallsOf(in) |-> "authcall"]
Stages(in) ==
  IF ~Routed(in) THEN RespondErr(in)
  ELSE <<"route">> \o
    (IF Secured(in.op) THEN AuthCalls(in) ELSE << >>) \o
    (IF AuthRefused(in) THEN RespondErr(in)
     ELSE (IF Secured(in.op) THEN <<"alt", "principal">> ELSE << >>)
       \o (IF HasBody(in.op) /\ ~CtParseErr(in) THEN <<"ctype">> ELSE << >>)
       \o (IF HasBody(in.op) /\ ~CtErr(in) THEN <<"consumer">> ELSE << >>)
       \o (IF ~CtErr(in) /\ ~AcceptErr(in) THEN <<"format">> ELSE << >>)
       \o (IF ParamsReached(in) /\ HasBody(in.op) THEN <<"consume">> ELSE << >>)
       \o <<"bound">>
       \o (IF Valid(in)
           THEN <<"handle", "format", "respond">> \o (IF in.h = "ok" THEN <<"produce">> ELSE << >>) \o <<"done">>
           ELSE RespondErr(in)))

(* ---- state ------------------------------------------------------------- *)
(* s = [in, stg, pc, mr, cx, sh]                                            *)
EmptyMR == [params |-> NoneStr, consumer |-> NoneStr, alt |-> 0]
EmptyCX == [scopes |-> << >>, bid |-> NoneStr, bbody |-> NoneStr]

InitState(ins) ==
  [in |-> ins,
   stg |-> [r \in DOMAIN ins |-> Stages(ins[r])],   \* computed once (TLC does not memoise operators)
   pc |-> [r \in DOMAIN ins |-> 1],
   mr |-> [r \in DOMAIN ins |-> EmptyMR],
   cx |-> [r \in DOMAIN ins |-> EmptyCX],
   sh |-> [params |-> NoneStr, consumer |-> NoneStr, alt |-> 0, bid |-> NoneStr, bbody |-> NoneStr]]

Finished(s, r) == s.pc[r] > Len(s.stg[r])
Stage(s, r) == s.stg[r][s.pc[r]]

\* field access honouring SharedField
RdParams(s, r)   == IF SharedField = "params"   THEN s.sh.params   ELSE s.mr[r].params
RdConsumer(s, r) == IF SharedField = "consumer" THEN s.sh.consumer ELSE s.mr[r].consumer
RdAlt(s, r)      == IF SharedField = "alt"      THEN s.sh.alt      ELSE s.mr[r].alt
RdBid(s, r)      == IF SharedField = "bound"    THEN s.sh.bid      ELSE s.cx[r].bid
RdBbody(s, r)    == IF SharedField = "bound"    THEN s.sh.bbody    ELSE s.cx[r].bbody

\* which authenticator is consulted by the k-th authcall of request r
AuthCallIndex(s, r) ==   \* number of authcall stages among the first pc[r] stages
  Cardinality({i \in 1..s.pc[r] : s.stg[r][i] = "authcall"})

(* The state after request r performs its next stage.                       *)
StepState(s, r) ==
  LET in == s.in[r]
      k  == Stage(s, r)
      adv == [s EXCEPT !.pc[r] = @ + 1]
  IN CASE k = "route" ->
            IF SharedField = "params" THEN [adv EXCEPT !.sh.params = IdOf(in)]
            ELSE [adv EXCEPT !.mr[r].params = IdOf(in)]
       [] k = "alt" ->
            IF SharedField = "alt" THEN [adv EXCEPT !.sh.alt = AdmittingAlt(in.op, in.cs)]
            ELSE [adv EXCEPT !.mr[r].alt = AdmittingAlt(in.op, in.cs)]
       [] k = "principal" ->
            [adv EXCEPT !.cx[r].scopes = ScopesAt(in.op, RdAlt(s, r))]
       [] k = "consumer" ->
            IF SharedField = "consumer" THEN [adv EXCEPT !.sh.consumer = in.ctype]
            ELSE [adv EXCEPT !.mr[r].consumer = in.ctype]
       [] k = "bound" ->
            IF SharedField = "bound"
            THEN [adv EXCEPT !.sh.bid = RdParams(s, r), !.sh.bbody = IF HasBody(in.op) THEN in.body ELSE NoneStr]
            ELSE [adv EXCEPT !.cx[r].bid = RdParams(s, r), !.cx[r].bbody = IF HasBody(in.op) THEN in.body ELSE NoneStr]
       [] OTHER -> adv

(* What request r observably does/sees at its next stage: a string tuple.  *)
StepObs(s, r) ==
  LET in == s.in[r]
      k  == Stage(s, r)
  IN CASE k = "route"     -> (<<Pattern(in.op), IdOf(in)>> \o RouteView)   \* the fresh MatchedRoute copy carries this request's params
       [] k = "authcall"  -> LET sch == Alts(in.op)[AuthCallIndex(s, r)].scheme
                             IN <<sch, IF in.cs = sch THEN in.cu ELSE NoneStr>>
       [] k = "alt"       -> <<in.cs>>
       [] k = "principal" -> <<in.cs, in.cu>> \o ScopesAt(in.op, RdAlt(s, r))
       [] k = "ctype"     -> <<in.ctype>>
       [] k = "consumer"  -> <<in.ctype>>
       [] k = "format"    -> <<in.accept>>
       [] k = "consume"   -> <<RdConsumer(s, r), in.body>>
       [] k = "bound"     -> IF Valid(in) THEN <<RdParams(s, r), IF HasBody(in.op) THEN in.body ELSE NoneStr>>
                             ELSE <<"invalid">>
       [] k = "handle"    -> <<RdBid(s, r), RdBbody(s, r)>>
                             \o (IF Secured(in.op) THEN <<in.cs, in.cu>> \o s.cx[r].scopes ELSE << >>)
                             \o <<"t:x,y">>   \* the declared default of the array parameter no request sends
       [] k = "respond"   -> <<IF in.accept = "none" THEN "" ELSE in.accept>>
       [] k = "produce"   -> <<in.accept, DataOf(in)>>
       [] k = "done"      -> IF Status(in) = "200" THEN <<"200", in.accept, DataOf(in)>>
                             ELSE <<Status(in), "json", "err">>    \* errors.ServeError always answers JSON

(* The observations of a request that runs alone.                           *)
RECURSIVE SoloFrom(_, _)
SoloFrom(s, acc) == IF Finished(s, 1) THEN acc ELSE SoloFrom(StepState(s, 1), Append(acc, StepObs(s, 1)))
Solo(in) == SoloFrom(InitState(<<in>>), << >>)

(* C09, first half: whatever the others do, r observes what it observes alone. *)
PrivateStep(s, r) == StepObs(s, r) = Solo(s.in[r])[s.pc[r]]
=============================================================================
