---------------------------- MODULE ServePipeline ----------------------------
(***************************************************************************)
(* C09 - per-request state is private under concurrency; stage results are *)
(* reused.                                                                 *)
(*                                                                         *)
(* Part 1 (schedules).  N concurrent requests against one handler.  Each   *)
(* request advances through the stages of its operation; every stage is one*)
(* atomic step named after the hook (verifStage in middleware/context.go,  *)
(* validation.go) or harness-owned callback (authenticator, consumer,      *)
(* handler, producer) that reports it.  The per-request mutable route part *)
(* (Params, Consumer, Authenticator of the MatchedRoute copy) and the bound*)
(* values live in mr[r]/cx[r]; the constant SharedField moves one of them  *)
(* to the shared route entry, which is what a careless change to the code  *)
(* would do.  Private: every observation a request makes equals the one it *)
(* makes when it runs alone.                                               *)
(*                                                                         *)
(* Part 2 (accessor histories) is in module AccessorMemo.                  *)
(***************************************************************************)
EXTENDS Naturals, Sequences, FiniteSets, TLC

CONSTANT SharedField   \* "none" (the code) | "params" | "consumer" | "alt" | "bound"

(* ---- the fixed test API (mirrored by harness/drive/c09) ---------------- *)
(* opA: POST /a/{id}  security [{key:[ska]}]            body, json|text     *)
(* opB: POST /b/{id}  no security                       body, json|text     *)
(* opC: GET  /c/{id}  security [{key:[skc]},{tok:[stc1,stc2]}]  no body     *)
(* opD: POST /d       security [{key:[skd]}]            body, json|text     *)
(*      (a parameter-free, static route)                                    *)
Ops == {"opA", "opB", "opC", "opD"}
Pattern(op) == CASE op = "opA" -> "/a/{id}" [] op = "opB" -> "/b/{id}" [] op = "opC" -> "/c/{id}" [] op = "opD" -> "/d"
HasBody(op) == op \in {"opA", "opB", "opD"}
HasId(op) == op # "opD"
Alts(op) == CASE op = "opA" -> << [scheme |-> "key", scopes |-> <<"ska">>] >>
              [] op = "opD" -> << [scheme |-> "key", scopes |-> <<"skd">>] >>
              [] op = "opB" -> << >>
              [] op = "opC" -> << [scheme |-> "key", scopes |-> <<"skc">>],
                                  [scheme |-> "tok", scopes |-> <<"stc1", "stc2">>] >>
Secured(op) == Alts(op) # << >>
ScopesAt(op, i) == IF i \in DOMAIN Alts(op) THEN Alts(op)[i].scopes ELSE <<"?">>

(* A request: [op, id, body, ctype, accept, cs (credential scheme), cu (credential user)] *)
(* Only well-formed, admissible requests are scheduled (the refusal paths   *)
(* are C02's); cs must be a scheme of some alternative of the operation.    *)
Admits(op, cs) == \E i \in DOMAIN Alts(op) : Alts(op)[i].scheme = cs
AdmittingAlt(op, cs) == CHOOSE i \in DOMAIN Alts(op) : Alts(op)[i].scheme = cs

(* Stage names in execution order for a request.                            *)
AuthCalls(in) == [i \in 1..AdmittingAlt(in.op, in.cs) |-> "authcall"]
Stages(in) ==
  <<"route">>
  \o (IF Secured(in.op) THEN AuthCalls(in) \o <<"alt", "principal">> ELSE << >>)
  \o (IF HasBody(in.op) THEN <<"ctype", "consumer">> ELSE << >>)
  \o <<"format">>
  \o (IF HasBody(in.op) THEN <<"consume">> ELSE << >>)
  \o <<"bound", "handle", "format", "respond", "produce", "done">>

NoneStr == "-"
IdOf(in) == IF HasId(in.op) THEN in.id ELSE NoneStr      \* the path parameter, if the route has one
DataOf(in) == IF HasId(in.op) THEN in.id ELSE in.body    \* what the test handler returns

(* ---- state ------------------------------------------------------------- *)
(* s = [in, pc, mr, cx, sh]                                                 *)
EmptyMR == [params |-> NoneStr, consumer |-> NoneStr, alt |-> 0]
EmptyCX == [scopes |-> << >>, bid |-> NoneStr, bbody |-> NoneStr]

InitState(ins) ==
  [in |-> ins,
   pc |-> [r \in DOMAIN ins |-> 1],
   mr |-> [r \in DOMAIN ins |-> EmptyMR],
   cx |-> [r \in DOMAIN ins |-> EmptyCX],
   sh |-> [params |-> NoneStr, consumer |-> NoneStr, alt |-> 0, bid |-> NoneStr, bbody |-> NoneStr]]

Finished(s, r) == s.pc[r] > Len(Stages(s.in[r]))
Stage(s, r) == Stages(s.in[r])[s.pc[r]]

\* field access honouring SharedField
RdParams(s, r)   == IF SharedField = "params"   THEN s.sh.params   ELSE s.mr[r].params
RdConsumer(s, r) == IF SharedField = "consumer" THEN s.sh.consumer ELSE s.mr[r].consumer
RdAlt(s, r)      == IF SharedField = "alt"      THEN s.sh.alt      ELSE s.mr[r].alt
RdBid(s, r)      == IF SharedField = "bound"    THEN s.sh.bid      ELSE s.cx[r].bid
RdBbody(s, r)    == IF SharedField = "bound"    THEN s.sh.bbody    ELSE s.cx[r].bbody

\* which authenticator is consulted by the k-th authcall of request r
AuthCallIndex(s, r) ==   \* number of authcall stages among the first pc[r] stages
  Cardinality({i \in 1..s.pc[r] : Stages(s.in[r])[i] = "authcall"})

(* The state after request r performs its next stage.                       *)
StepState(s, r) ==
  LET in == s.in[r]
      k  == Stage(s, r)
      adv == [s EXCEPT !.pc[r] = @ + 1]
  IN CASE k = "route" ->
            IF SharedField = "params" THEN [adv EXCEPT !.sh.params = IdOf(in)]
            ELSE [adv EXCEPT !.mr[r].params = IdOf(in)]
       [] k = "alt" ->
            IF SharedField = "alt" THEN [adv EXCEPT !.sh.alt = AdmittingAlt(in.op, in.cs)]
            ELSE [adv EXCEPT !.mr[r].alt = AdmittingAlt(in.op, in.cs)]
       [] k = "principal" ->
            [adv EXCEPT !.cx[r].scopes = ScopesAt(in.op, RdAlt(s, r))]
       [] k = "consumer" ->
            IF SharedField = "consumer" THEN [adv EXCEPT !.sh.consumer = in.ctype]
            ELSE [adv EXCEPT !.mr[r].consumer = in.ctype]
       [] k = "bound" ->
            IF SharedField = "bound"
            THEN [adv EXCEPT !.sh.bid = RdParams(s, r), !.sh.bbody = IF HasBody(in.op) THEN in.body ELSE NoneStr]
            ELSE [adv EXCEPT !.cx[r].bid = RdParams(s, r), !.cx[r].bbody = IF HasBody(in.op) THEN in.body ELSE NoneStr]
       [] OTHER -> adv

(* What request r observably does/sees at its next stage: a string tuple.  *)
StepObs(s, r) ==
  LET in == s.in[r]
      k  == Stage(s, r)
  IN CASE k = "route"     -> <<Pattern(in.op), IdOf(in)>>   \* the fresh MatchedRoute copy carries this request's params
       [] k = "authcall"  -> LET sch == Alts(in.op)[AuthCallIndex(s, r)].scheme
                             IN <<sch, IF in.cs = sch THEN in.cu ELSE NoneStr>>
       [] k = "alt"       -> <<in.cs>>
       [] k = "principal" -> <<in.cs, in.cu>> \o ScopesAt(in.op, RdAlt(s, r))
       [] k = "ctype"     -> <<in.ctype>>
       [] k = "consumer"  -> <<in.ctype>>
       [] k = "format"    -> <<in.accept>>
       [] k = "consume"   -> <<RdConsumer(s, r), in.body>>
       [] k = "bound"     -> <<RdParams(s, r), IF HasBody(in.op) THEN in.body ELSE NoneStr>>
       [] k = "handle"    -> <<RdBid(s, r), RdBbody(s, r)>>
                             \o (IF Secured(in.op) THEN <<in.cs, in.cu>> \o s.cx[r].scopes ELSE << >>)
       [] k = "respond"   -> <<in.accept>>
       [] k = "produce"   -> <<in.accept, DataOf(in)>>
       [] k = "done"      -> <<"200", in.accept, DataOf(in)>>

(* The observations of a request that runs alone.                           *)
RECURSIVE SoloFrom(_, _)
SoloFrom(s, acc) == IF Finished(s, 1) THEN acc ELSE SoloFrom(StepState(s, 1), Append(acc, StepObs(s, 1)))
Solo(in) == SoloFrom(InitState(<<in>>), << >>)

(* C09, first half: whatever the others do, r observes what it observes alone. *)
PrivateStep(s, r) == StepObs(s, r) = Solo(s.in[r])[s.pc[r]]
=============================================================================
