SPECIFICATION Spec
CONSTANTS
  SniffMode = "fixed"
  Mutant = "none"
CHECK_DEADLOCK FALSE
