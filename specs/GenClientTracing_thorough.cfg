SPECIFICATION Spec
CONSTANTS
  RestoresOp = TRUE
  ClientStatusRule = TRUE
  CopiesOpts = TRUE
  SharedSpanVar = FALSE
  MaxCalls = 3
  Statuses = {}
  Unassigned <- UnassignedCodes
  Sts1 = {100, 200, 204, 299, 302, 399, 400, 404, 451, 499, 500, 503}
  Sts2 = {200, 299, 404, 500}
  Sts3 = {404}
  Ends3 = {"pre", "params", "transport", "noconsumer", "reader", "ok"}
  Ns = {2, 3}
CHECK_DEADLOCK FALSE
