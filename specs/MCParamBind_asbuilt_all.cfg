SPECIFICATION Spec
CONSTANTS
  NumberDefaultsToDouble = FALSE
  ArrayDefaultConverted = FALSE
  FormatDefaultParsed = FALSE
  HeaderCanonicalLookup = FALSE
  NamedStringValidated = FALSE
  RequiredFileIs422 = FALSE
  ItemFormatValidated = FALSE
  FormDataFromBodyOnly = TRUE
  Thorough = FALSE
INVARIANTS Property
CHECK_DEADLOCK FALSE
