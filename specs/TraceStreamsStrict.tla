------------------------- MODULE TraceStreamsStrict -------------------------
(* Faithfulness check of the PeekBody MODEL (not a verdict on the code):    *)
(* the same traces as TraceStreams, but every observation - including the   *)
(* number of Read/Close calls the underlying stream has seen - must EQUAL    *)
(* what Streams!Step predicts (bufio buffer of 4096 bytes).  Run by hand on  *)
(* the unchanged tree (see notes/C17.md); a mismatch means the model of      *)
(* section 3 does not describe request.go / bufio, i.e. a spec bug.          *)
EXTENDS Streams, Json, IOUtils

VARIABLES l, st, skipping, fails, cs

ActOf(e) == [a |-> e.ev, k |-> e.k]
ObsOf(e) == [b |-> e.b, n |-> e.n, bytes |-> e.bytes, err |-> e.err, panic |-> e.panic, uc |-> e.uc, ur |-> e.ur]

XInit(e) == InitState(e.sc, e.declared, e.bodyNil)

\* the driver's drain gives up after many more reads than DrainCap; both stop at the first error
XAllowed(s, e) ==
  IF e.ev = "nilbody" THEN s.bodyNil /\ s.layers = <<>>   \* nil Body, not probed yet (HasBody installs a wrapper)
  ELSE ObsOf(e) = Step(s, ActOf(e)).ret

XStep(s, e) == IF e.ev = "nilbody" THEN s ELSE Step(s, ActOf(e))

XWhy(s, e) == "model-predicts-something-else"

TheTrace == ndJsonDeserialize(IOEnv.TRACE_FILE)
TC == INSTANCE TraceCommon WITH TInit <- XInit, TAllowed <- XAllowed, TStep <- XStep,
                                TWhy <- XWhy, TStateful <- TRUE, Trace <- TheTrace
Spec == TC!Spec
=============================================================================
