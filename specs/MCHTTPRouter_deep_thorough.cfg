SPECIFICATION Spec
CONSTANTS
  GuardReserved = TRUE
  GuardNul = TRUE
  UseEscapedPath = TRUE
  MaxOps = 2
  MaxSegs = 5
  Bases = {"empty", "/api"}
  TemplateIds = {"axcy", "ax", "ab"}
  OpMethods = {"GET"}
  ReqMethods = {"get", "POST"}
  SegIds = {"a", "c", "api", "a%2Fb", "%2e%2e"}
INVARIANTS PropertyHolds
CHECK_DEADLOCK FALSE
