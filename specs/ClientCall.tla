---------------------------- MODULE ClientCall ----------------------------
(* C12 - client calls always terminate, release what they hold, surface     *)
(* faults.  Faithful model of client.Runtime.Submit / request.buildHTTP /   *)
(* the multipart writer goroutine / KeepAliveTransport, as four processes:  *)
(*   caller    Submit: WriteToRequest -> buildHTTP (body source, spawn the  *)
(*             writer goroutine, auth, URL) -> client.Do -> reader ->       *)
(*             deferred Body.Close (drain when reuse) -> deferred cancel    *)
(*   writer    the goroutine of request.go:141-200 writing into the pipe    *)
(*   transport RoundTripper + server: consume the request body, answer      *)
(*   clock     abstract time: 0 = before the effective deadline, 1 = the    *)
(*             deadline (context done), 2 = well past the deadline          *)
(* A *script* c (a record) fixes the payload kind, reuse on/off, what the    *)
(* harness callbacks do and every fault placement; each fault action of the *)
(* model is enabled exactly at its point when the script says so, and TLC   *)
(* explores every script of the bounded space x every interleaving.         *)
(* All step operators are functional (state -> set of successor states) so  *)
(* that MC (Next), script export (GenClientCall) and trace validation       *)
(* (TraceClientCall: terminal states of one script) share them.             *)
EXTENDS Integers, Sequences, FiniteSets, TLC

CONSTANTS
  ClosesPipeOnBuildError,   \* FALSE = as built (D9): error returns of buildHTTP after the goroutine start leave the pipe open
  ClosesFilesOnParamsError, \* FALSE = as built (D9b): a params-writer error after SetFileParam leaves the files open
  ClosesFilesOnFieldError,  \* FALSE = as built (D18): a failed WriteField returns before the file-closing defer is registered
  CopyMarksEndSeen,         \* TRUE = mutant: a copy of the body (WriterTo) marks its end as seen even when the destination failed
  CancelsBeforeClose,       \* TRUE = mutant: the call's own context is cancelled before the response body is closed
  FileLen,                  \* units per upload source (>= 1); unit 1 is what the content-type sniffing Read delivers
  RespLen                   \* units of the response body (>= 1)

NoSrc == [kind |-> "none", off |-> 0]
NoSrv == [kind |-> "none", at |-> "none", k |-> 0]

(***************************************************************************)
(* Scripts                                                                 *)
(***************************************************************************)
\* payload  : "none" | "buffer" (value through a producer / urlencoded form) | "reader" (io.Reader payload) | "mp" (multipart)
\* fields   : number of form fields of a multipart request (0/1); nfiles: number of file parameters (0..2)
\* reuse    : EnableConnectionReuse was called
\* werr     : params writer fails "before" / "after" it handed the files over (SetFileParam)
\* auth     : "none" | "ok" (auth writer present) | "read" (auth writer calls GetBody)
\* autherr / authwait : auth writer returns an error / blocks until the caller's context is done (deadline hit during auth)
\* urlerr   : unparsable base path
\* src[i]   : fault of upload source i: read error ("err") or short read ("short") when `off` units have been delivered
\* tfault   : transport error "before" / "after" the request body was consumed
\* srv      : server closes / stalls / truncates inside the status line, the headers or after k complete body units
\* cancel   : the context is cancelled during "auth", during "send" (request consumed, nothing answered) or by the reader ("read")
\* texp     : the request timeout is already over when the exchange starts (SetTimeout with a negative or a
\*            vanishing duration, e.g. time.Until(a spent budget)): the effective deadline has passed at once
\* reader   : the response reader reads to the end ("all"), nothing ("p0") or one unit ("p1"), or copies the body into a
\*            destination that fails after one unit ("w1": io.Copy / WriterTo into a failing io.Writer; the reader then
\*            returns that error without having seen the end of the body)
Payloads ==
  [ none   |-> [payload |-> "none",   fields |-> 0, nfiles |-> 0],
    buffer |-> [payload |-> "buffer", fields |-> 0, nfiles |-> 0],
    reader |-> [payload |-> "reader", fields |-> 0, nfiles |-> 0],
    mp10   |-> [payload |-> "mp",     fields |-> 1, nfiles |-> 0],
    mp01   |-> [payload |-> "mp",     fields |-> 0, nfiles |-> 1],
    mp11   |-> [payload |-> "mp",     fields |-> 1, nfiles |-> 1],
    mp02   |-> [payload |-> "mp",     fields |-> 0, nfiles |-> 2],
    mp12   |-> [payload |-> "mp",     fields |-> 1, nfiles |-> 2] ]

Base(p, reuse, auth, reader, cancel) ==
  [payload |-> p.payload, fields |-> p.fields, nfiles |-> p.nfiles, reuse |-> reuse, auth |-> auth,
   reader |-> reader, cancel |-> cancel, werr |-> "none", autherr |-> FALSE, authwait |-> FALSE,
   urlerr |-> FALSE, src |-> <<NoSrc, NoSrc>>, tfault |-> "none", srv |-> NoSrv, texp |-> FALSE]

BaseScripts(PNames, Auths, Readers, Cancels) ==
  { Base(Payloads[q[1]], q[2], q[3], q[4], q[5]) :
      q \in { x \in PNames \X BOOLEAN \X Auths \X Readers \X Cancels : x[5] = "auth" => x[3] # "none" } }

NSources(c) == IF c.payload = "mp" THEN c.nfiles ELSE IF c.payload = "reader" THEN 1 ELSE 0

NFaults(c) ==
    (IF c.werr # "none" THEN 1 ELSE 0) + (IF c.autherr THEN 1 ELSE 0) + (IF c.authwait THEN 1 ELSE 0)
  + (IF c.urlerr THEN 1 ELSE 0) + (IF c.src[1].kind # "none" THEN 1 ELSE 0) + (IF c.src[2].kind # "none" THEN 1 ELSE 0)
  + (IF c.tfault # "none" THEN 1 ELSE 0) + (IF c.srv.kind # "none" THEN 1 ELSE 0) + (IF c.texp THEN 1 ELSE 0)

HasFault(c) == NFaults(c) > 0 \/ c.cancel # "none"

\* every script with exactly one more fault than c
FaultOptions(c) ==
       { [c EXCEPT !.werr = w] : w \in IF c.werr # "none" THEN {} ELSE IF c.nfiles > 0 THEN {"before", "after"} ELSE {"before"} }
  \cup (IF c.auth # "none" /\ ~c.autherr THEN { [c EXCEPT !.autherr = TRUE] } ELSE {})
  \cup (IF c.auth # "none" /\ ~c.authwait THEN { [c EXCEPT !.authwait = TRUE] } ELSE {})
  \cup (IF ~c.urlerr THEN { [c EXCEPT !.urlerr = TRUE] } ELSE {})
  \cup (IF ~c.texp THEN { [c EXCEPT !.texp = TRUE] } ELSE {})
  \cup { [c EXCEPT !.src[i] = [kind |-> k, off |-> o]] :
           i \in { j \in 1..NSources(c) : c.src[j].kind = "none" }, k \in {"err", "short"}, o \in 0..FileLen }
  \cup (IF c.tfault = "none" THEN { [c EXCEPT !.tfault = t] : t \in {"before", "after"} } ELSE {})
  \cup (IF c.srv.kind = "none"
        THEN { [c EXCEPT !.srv = [kind |-> k, at |-> a, k |-> 0]] : k \in {"close", "stall", "trunc"}, a \in {"status", "headers"} }
             \cup { [c EXCEPT !.srv = [kind |-> k, at |-> "body", k |-> n]] : k \in {"close", "stall", "trunc"}, n \in 0..(RespLen - 1) }
        ELSE {})

(***************************************************************************)
(* State                                                                   *)
(***************************************************************************)
CInit(c) ==
  [ pc |-> "write",        \* caller: write build auth authcopy authret url send hdrs read close returned
    res |-> "none",        \* result of Submit: none / ok / err
    wpc |-> "none",        \* writer goroutine: none fields sniff part copy closefiles trailer done
    wf |-> 1, woff |-> 0, shortDone |-> FALSE,
    fileOpen |-> <<FALSE, FALSE>>,   \* upload source i was handed over and is not closed yet
    pw |-> "open",         \* pipe, writer end: open / eof (Close) / err (CloseWithError)
    pr |-> "open",         \* pipe, reader end: open / closed
    consumer |-> "none",   \* who currently reads the request body: none / auth (GetBody copy) / tr (transport)
    body |-> "nil",        \* body source of the http.Request: nil / buf / pipe / reader
    rdoff |-> 0,           \* units delivered by an io.Reader payload
    tpc |-> "idle",        \* transport: idle start consume respond stalled fail done
    resp |-> FALSE,        \* a response was returned by the transport
    rread |-> 0, eofSeen |-> FALSE,   \* the wrapper's flag "end of the body seen" (what Close consults)
    endSeen |-> FALSE,                \* the reader really was told the end of the body (EOF or an error)
    respOpen |-> FALSE, drained |-> FALSE,
    ctx |-> "no",          \* context of the call: no / cancel (by the caller) / deadline / self (the call's own deferred cancel)
    now |-> 0,
    srcHit |-> FALSE ]     \* an upload source failed

OpenAll(c) == [i \in 1..2 |-> i <= c.nfiles]
CloseAll   == <<FALSE, FALSE>>

WriterAlive(s) == s.wpc \notin {"none", "done"}

(***************************************************************************)
(* Caller: Runtime.Submit                                                  *)
(***************************************************************************)
\* an error return of createHttpRequest/buildHTTP after WriteToRequest ran.  As built nothing is released;
\* normatively the pipe reader is closed (which makes the goroutine close the files) or, when no goroutine
\* was started yet, the files are closed directly.
BuildFail(c, s) ==
  [s EXCEPT !.res = "err", !.pc = "returned", !.consumer = "none",
            !.pr = IF ClosesPipeOnBuildError /\ s.wpc # "none" THEN "closed" ELSE @,
            !.fileOpen = IF ClosesFilesOnParamsError /\ s.wpc = "none" THEN CloseAll ELSE @]

FirstWpc(c) == IF c.fields > 0 THEN "fields" ELSE IF c.nfiles > 0 THEN "sniff" ELSE "closefiles"

\* one Read of the io.Reader payload (source 1) by whoever consumes the body
ReaderSrcRead(c, s) ==
  LET f == c.src[1] IN
  IF f.kind = "err" /\ f.off = s.rdoff THEN [st |-> [s EXCEPT !.srcHit = TRUE], r |-> "err"]
  ELSE IF f.kind = "short" /\ f.off = s.rdoff /\ ~s.shortDone THEN [st |-> [s EXCEPT !.shortDone = TRUE], r |-> "more"]
  ELSE IF s.rdoff < FileLen THEN [st |-> [s EXCEPT !.rdoff = @ + 1], r |-> "more"]
  ELSE [st |-> s, r |-> "eof"]

BodyLimit(c) == IF c.srv.at = "body" THEN c.srv.k ELSE RespLen
BodyEnd(c)   == IF c.srv.at = "body" THEN c.srv.kind ELSE "none"

\* one Read of the response body: set of [st, r] with r in data / eof / err (the stream's own fault) / ctxerr.  After
\* the context is done a Read may fail at any moment (NondetReadAfterCancel: buffered data may still be delivered).
RespRead(c, s) ==
  (IF s.rread < BodyLimit(c) THEN { [st |-> [s EXCEPT !.rread = @ + 1], r |-> "data"] }
   ELSE IF BodyEnd(c) = "none" THEN { [st |-> s, r |-> "eof"] }
   ELSE IF BodyEnd(c) \in {"close", "trunc"} THEN { [st |-> s, r |-> "err"] }
   ELSE {})   \* stalled: blocks until the context is done
  \cup (IF s.ctx # "no" THEN { [st |-> s, r |-> "ctxerr"] } ELSE {})

\* the reader returned: the deferred calls run.  As written: res.Body.Close() first, then cancel().  The mutant cancels first.
EnterClose(s) == [s EXCEPT !.pc = "close", !.ctx = IF CancelsBeforeClose /\ @ = "no" THEN "self" ELSE @]

CallerNext(c, s) ==
  CASE s.pc = "write" ->      \* operation.Params.WriteToRequest
         IF c.werr = "before" THEN { [s EXCEPT !.res = "err", !.pc = "returned"] }
         ELSE IF c.werr = "after" THEN { BuildFail(c, [s EXCEPT !.fileOpen = OpenAll(c)]) }
         ELSE { [s EXCEPT !.fileOpen = OpenAll(c), !.pc = "build"] }
    [] s.pc = "build" ->      \* choose the body source; multipart: pipe + goroutine
         { [s EXCEPT !.pc = "auth",
                     !.body = CASE c.payload = "none" -> "nil" [] c.payload = "buffer" -> "buf"
                                [] c.payload = "reader" -> "reader" [] OTHER -> "pipe",
                     !.wpc = IF c.payload = "mp" THEN FirstWpc(c) ELSE "none"] }
    [] s.pc = "auth" ->       \* auth.AuthenticateRequest
         IF c.auth = "none" THEN { [s EXCEPT !.pc = "url"] }
         ELSE IF c.authwait /\ s.ctx = "no" THEN {}
         ELSE LET s1 == IF c.cancel = "auth" /\ s.ctx = "no" THEN [s EXCEPT !.ctx = "cancel"] ELSE s IN
              IF c.auth = "read" /\ s.body \in {"pipe", "reader"}
              THEN { [s1 EXCEPT !.pc = "authcopy", !.consumer = "auth"] }
              ELSE { [s1 EXCEPT !.pc = "authret"] }
    [] s.pc = "authcopy" ->   \* GetBody: io.Copy(r.buf, body); Close; body = r.buf
         IF s.body = "pipe"
         THEN IF s.pw = "eof" THEN { [s EXCEPT !.pc = "authret", !.consumer = "none", !.pr = "closed", !.body = "buf"] }
              ELSE IF s.pw = "err" THEN { BuildFail(c, s) }      \* copyErr
              ELSE {}
         ELSE LET x == ReaderSrcRead(c, s) IN
              CASE x.r = "more" -> { x.st }
                [] x.r = "eof"  -> { [x.st EXCEPT !.pc = "authret", !.consumer = "none", !.body = "buf"] }
                [] OTHER        -> { BuildFail(c, x.st) }
    [] s.pc = "authret" -> IF c.autherr THEN { BuildFail(c, s) } ELSE { [s EXCEPT !.pc = "url"] }
    [] s.pc = "url"     -> IF c.urlerr  THEN { BuildFail(c, s) } ELSE { [s EXCEPT !.pc = "send"] }
    [] s.pc = "send"    ->     \* context.WithTimeout(parent, request.timeout) - already expired when texp; client.Do
         { [s EXCEPT !.pc = "hdrs", !.tpc = "start", !.ctx = IF c.texp /\ @ = "no" THEN "deadline" ELSE @] }
    [] s.pc = "hdrs" ->
         IF s.tpc = "fail" THEN { [s EXCEPT !.res = "err", !.pc = "returned"] }
         ELSE IF s.resp THEN { [s EXCEPT !.pc = "read",
                                         !.ctx = IF c.cancel = "read" /\ @ = "no" THEN "cancel" ELSE @] }
         ELSE IF s.ctx # "no" THEN { [s EXCEPT !.res = "err", !.pc = "returned"] }
         ELSE {}
    [] s.pc = "read" ->       \* readResponse.ReadResponse
         IF c.reader = "p0" THEN { EnterClose([s EXCEPT !.res = "ok"]) }
         ELSE { CASE x.r = "data" -> IF c.reader = "p1" THEN EnterClose([x.st EXCEPT !.res = "ok"])
                                     ELSE IF c.reader = "w1"                                     \* the destination failed
                                          THEN EnterClose([x.st EXCEPT !.res = "err", !.eofSeen = CopyMarksEndSeen])
                                     ELSE x.st
                  [] x.r = "eof"  -> EnterClose([x.st EXCEPT !.eofSeen = TRUE, !.endSeen = TRUE, !.res = "ok"])
                  [] OTHER        -> EnterClose([x.st EXCEPT !.eofSeen = TRUE, !.endSeen = TRUE, !.res = "err"])
                : x \in RespRead(c, s) }
    [] s.pc = "close" ->      \* deferred res.Body.Close(): drainingReadCloser when reuse; then deferred cancel()
         IF c.reuse /\ ~s.eofSeen
         THEN { CASE x.r = "data" -> x.st
                  [] x.r = "ctxerr" ->    \* the drain is cut short.  By the caller's cancellation / the deadline: nothing more can
                                          \* be read (DrainCutByDoneContext); by the call's own cancel: the body was not drained
                       [x.st EXCEPT !.drained = (s.ctx \in {"cancel", "deadline"}), !.respOpen = FALSE, !.pc = "returned"]
                  [] OTHER -> [x.st EXCEPT !.drained = TRUE, !.respOpen = FALSE, !.pc = "returned"]
                : x \in RespRead(c, s) }
         ELSE { [s EXCEPT !.respOpen = FALSE, !.pc = "returned"] }
    [] OTHER -> {}

(***************************************************************************)
(* Writer goroutine (request.go:141-200)                                   *)
(***************************************************************************)
CanWrite(s)   == s.consumer # "none" /\ s.pr = "open" /\ s.pw = "open"
WriteFails(s) == s.pr = "closed" \/ s.pw # "open"
LogClose(s)   == [s EXCEPT !.pw = IF @ = "open" THEN "err" ELSE @]
NextFile(c, s) == IF s.wf < c.nfiles THEN [s EXCEPT !.wf = @ + 1, !.woff = 0, !.shortDone = FALSE, !.wpc = "sniff"]
                  ELSE [s EXCEPT !.wpc = "closefiles"]

WriterNext(c, s) ==
  CASE s.wpc = "fields" ->     \* mp.WriteField; on error: logClose; return  (the file-closing defer is registered later)
         IF CanWrite(s) THEN { [s EXCEPT !.wpc = IF c.nfiles > 0 THEN "sniff" ELSE "closefiles"] }
         ELSE IF WriteFails(s) THEN { [LogClose(s) EXCEPT !.wpc = IF ClosesFilesOnFieldError THEN "closefiles" ELSE "trailer"] }
         ELSE {}
    [] s.wpc = "sniff" ->      \* fi.Read(buf) to detect the content type
         LET f == c.src[s.wf] IN
         IF f.kind = "err" /\ f.off = 0 THEN { [LogClose(s) EXCEPT !.srcHit = TRUE, !.wpc = "closefiles"] }
         ELSE IF f.kind = "short" /\ f.off = 0 THEN { [s EXCEPT !.shortDone = TRUE, !.wpc = "part"] }
         ELSE { [s EXCEPT !.woff = 1, !.wpc = "part"] }
    [] s.wpc = "part" ->       \* mp.CreatePart
         IF CanWrite(s) THEN { [s EXCEPT !.wpc = "copy"] }
         ELSE IF WriteFails(s) THEN { [LogClose(s) EXCEPT !.wpc = "closefiles"] }
         ELSE {}
    [] s.wpc = "copy" ->       \* io.Copy(wrtr, fi); on error: logClose, and on to the next file (no return)
         LET f == c.src[s.wf] IN
         IF f.kind = "err" /\ f.off = s.woff /\ f.off > 0 THEN { NextFile(c, [LogClose(s) EXCEPT !.srcHit = TRUE]) }
         ELSE IF s.woff = FileLen THEN { NextFile(c, s) }
         ELSE IF f.kind = "short" /\ f.off = s.woff /\ ~s.shortDone THEN { [s EXCEPT !.shortDone = TRUE] }
         ELSE IF CanWrite(s) THEN { [s EXCEPT !.woff = @ + 1] }
         ELSE IF WriteFails(s) THEN { NextFile(c, LogClose(s)) }
         ELSE {}
    [] s.wpc = "closefiles" -> { [s EXCEPT !.fileOpen = CloseAll, !.wpc = "trailer"] }   \* deferred: ffi.Close()
    [] s.wpc = "trailer" ->    \* deferred: mp.Close(); pw.Close()
         IF CanWrite(s) \/ WriteFails(s) THEN { [s EXCEPT !.pw = IF @ = "open" THEN "eof" ELSE @, !.wpc = "done"] }
         ELSE {}
    [] OTHER -> {}

(***************************************************************************)
(* Transport + server.  A RoundTripper always closes the request body.     *)
(***************************************************************************)
TFail(s)    == [s EXCEPT !.tpc = "fail", !.pr = "closed", !.consumer = "none"]
TRespond(s) == [s EXCEPT !.tpc = "respond", !.pr = "closed", !.consumer = "none"]

TransportNext(c, s) ==
  CASE s.tpc = "start" ->
         IF s.ctx # "no" \/ c.tfault = "before" THEN { TFail(s) }
         ELSE { [s EXCEPT !.tpc = "consume", !.consumer = IF s.body = "pipe" THEN "tr" ELSE "none"] }
    [] s.tpc = "consume" ->
         IF s.pc = "returned" THEN { [TFail(s) EXCEPT !.tpc = "done"] }     \* the caller gave up: abort, close the body
         ELSE IF s.body = "pipe"
              THEN IF s.pw = "eof" THEN { TRespond(s) } ELSE IF s.pw = "err" THEN { TFail(s) } ELSE {}
         ELSE IF s.body = "reader"
              THEN LET x == ReaderSrcRead(c, s) IN
                   CASE x.r = "more" -> { x.st } [] x.r = "eof" -> { TRespond(x.st) } [] OTHER -> { TFail(x.st) }
         ELSE { TRespond(s) }
    [] s.tpc = "respond" ->
         IF s.pc = "returned" THEN { [s EXCEPT !.tpc = "done"] }
         ELSE IF c.tfault = "after" THEN { TFail(s) }
         ELSE IF c.cancel = "send" /\ s.ctx = "no" THEN { [s EXCEPT !.ctx = "cancel", !.tpc = "stalled"] }
         ELSE IF c.srv.kind # "none" /\ c.srv.at \in {"status", "headers"}
              THEN IF c.srv.kind = "stall" THEN { [s EXCEPT !.tpc = "stalled"] } ELSE { TFail(s) }
         ELSE { [s EXCEPT !.tpc = "done", !.resp = TRUE, !.respOpen = TRUE] }
    [] s.tpc = "stalled" ->
         IF s.pc = "returned" THEN { [s EXCEPT !.tpc = "done"] }
         ELSE IF s.ctx # "no" THEN { TFail(s) } ELSE {}
    [] OTHER -> {}

(***************************************************************************)
(* Clock.  Computation steps take no time (MaximalProgress): time passes   *)
(* only when no process can move while the call has not returned.  The     *)
(* first tick is the effective deadline (context done); a second tick      *)
(* means the call is still blocked well after the deadline.                *)
(***************************************************************************)
ProcNext(c, s) == CallerNext(c, s) \cup WriterNext(c, s) \cup TransportNext(c, s)

ClockNext(c, s) ==
  IF s.pc # "returned" /\ ProcNext(c, s) = {} /\ s.now < 2
  THEN { [s EXCEPT !.now = @ + 1, !.ctx = IF @ = "no" THEN "deadline" ELSE @] }
  ELSE {}

Succ(c, s) == ProcNext(c, s) \cup ClockNext(c, s)

RECURSIVE Reach(_, _, _)
Reach(c, frontier, seen) ==
  IF frontier = {} THEN seen
  ELSE LET new == (UNION { Succ(c, s) : s \in frontier }) \ seen
       IN Reach(c, new, seen \cup new)

Terminals(c) == { s \in Reach(c, {CInit(c)}, {CInit(c)}) : Succ(c, s) = {} }

(***************************************************************************)
(* The property (C12), stated declaratively                                *)
(***************************************************************************)
Settled(c, s) == Succ(c, s) = {}

\* everything the call held has been released once it has settled
Released(c, s) ==
  /\ s.pc = "returned"
  /\ \A i \in 1..2 : ~s.fileOpen[i]                       \* every file handed over has been closed
  /\ ~WriterAlive(s)                                      \* no goroutine started by the call remains
  /\ ~s.respOpen                                          \* the response body has been closed ...
  /\ (c.reuse /\ s.resp => s.endSeen \/ s.drained)        \* ... after being drained when reuse is on and its end was not seen

\* an error unless the complete response was obtained; a failing source is never a success
ResultSound(c, s) ==
  s.pc = "returned" =>
     /\ s.res \in {"ok", "err"}
     /\ s.res = "ok" => /\ s.resp
                        /\ ~s.srcHit
                        /\ (c.reader = "all" => s.rread = RespLen)
     /\ ~HasFault(c) => s.res = (IF c.reader = "w1" THEN "err" ELSE "ok")    \* w1: the reader itself fails

\* the call never is blocked past the effective deadline
TimeOK(s) == s.now <= 1

\* the effective deadline of a call in real time (ms from its start): the shorter of the request timeout (explicitly
\* set, or left at the default; none when set to 0) and the deadline of the caller's context (none: < 0); a cancelled
\* context is done at once.  `none` stands for "no deadline".
MinMs(a, b) == IF a < b THEN a ELSE b
EffectiveDeadline(tsrc, timeoutMs, ctxMs, cancelMs, none) ==
  MinMs(IF tsrc = "zero" THEN none ELSE timeoutMs,
        MinMs(IF ctxMs < 0 THEN none ELSE ctxMs, IF cancelMs < 0 THEN none ELSE cancelMs))

\* Sequential calls on one Runtime over a keep-alive transport (no faults): every response body is closed, and with
\* connection reuse enabled it is drained to its end first (its end seen by the reader, or reached by the drain; a drain cut
\* short by the *caller's* done context is the only excuse) - so the calls share one connection (KeptAliveWhenDrained:
\* net/http keeps an HTTP/1.1 connection whose response was read to its end).
SeqCallReleased(reuse, reader, e) ==
  /\ e.result = (IF reader = "w1" THEN "err" ELSE "ok") /\ e.resp_obtained /\ e.resp_closes >= 1
  /\ reuse => e.reader_saw_end \/ e.term_before_close \/ e.drain_cut = "env"
SeqConnsAllowed(reuse, allEnded, conns) == conns >= 1 /\ (reuse /\ allEnded => conns = 1)

Obs(c, s) ==
  [ res |-> s.res, resp |-> s.resp,
    files_closed |-> \A i \in 1..2 : ~s.fileOpen[i],
    writer_dead |-> ~WriterAlive(s),
    resp_closed |-> ~s.respOpen,
    drain_ok |-> (c.reuse /\ s.resp => s.endSeen \/ s.drained),
    src_hit |-> s.srcHit ]

Outcomes(c) == { Obs(c, s) : s \in Terminals(c) }

(***************************************************************************)
(* KeepAliveTransport's body (drainingReadCloser): any sequence of Read    *)
(* sizes then Close.  The underlying body has `rem` units left; a Read of  *)
(* size n > 0 delivers min(n, rem, chunk) units; the end is reported with  *)
(* the last data (eofWithData) or by the next Read; a zero-length Read     *)
(* returns (0, nil) while data remains.                                    *)
(***************************************************************************)
CONSTANT ZeroLenReadSetsEOF    \* TRUE = as built (D16): n == 0 marks the end as seen even for an empty buffer

\* u = [len, chunk, eofWithData, failAt]: the underlying stream; failAt >= 0: it fails (sticky) at that offset
DInit == [pos |-> 0, uterm |-> FALSE, seen |-> FALSE, closed |-> FALSE]

DMin(a, b) == IF a < b THEN a ELSE b
UStop(u) == IF u.failAt >= 0 THEN u.failAt ELSE u.len

\* underlying Read with a buffer of n bytes: [n, r] ; r: nil / eof / err
URead(d, n, u) ==
  LET avail == UStop(u) - d.pos
      k == DMin(n, DMin(u.chunk, avail)) IN
  IF avail = 0 THEN [n |-> 0, r |-> IF u.failAt >= 0 THEN "err" ELSE "eof"]
  ELSE IF n = 0 THEN [n |-> 0, r |-> "nil"]
  ELSE [n |-> k, r |-> IF k = avail /\ u.failAt < 0 /\ u.eofWithData THEN "eof" ELSE "nil"]

\* drainingReadCloser.Read: passes the underlying result through; marks the end as seen
DRead(d, n, u) ==
  LET x == URead(d, n, u) IN
  [d EXCEPT !.pos = @ + x.n, !.uterm = @ \/ x.r # "nil",
            !.seen = @ \/ x.r = "eof" \/ (x.n = 0 /\ (n > 0 \/ ZeroLenReadSetsEOF))]

\* drainingReadCloser.Close: io.Copy(io.Discard, rdr) unless the end was seen; then close
DClose(d, u) == IF d.seen THEN [d EXCEPT !.closed = TRUE]
                ELSE [d EXCEPT !.pos = UStop(u), !.uterm = TRUE, !.closed = TRUE]

\* "drained when its end was not yet seen": when the body is closed the underlying stream has reached its end
DrainedAtClose(d) == d.closed => d.uterm
=============================================================================
