SPECIFICATION Spec
CONSTANTS
  AbsentBodyRule = TRUE
  ScalarTargets = TRUE
  NullIsNull = TRUE
  LibraryConforms = TRUE
  Thorough = FALSE
INVARIANTS PropertyHolds OracleAgrees
CHECK_DEADLOCK FALSE
