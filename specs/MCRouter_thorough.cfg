SPECIFICATION Spec
CONSTANTS
  GuardReserved = TRUE
  MaxSegs = 2
  MaxRecs = 3
  MaxPath = 4
  PathBytes = {97, 98, 47, 58, 42, 35}
  WithRestconf = TRUE
INVARIANTS PropertyHolds OrderIndependent
CHECK_DEADLOCK FALSE
