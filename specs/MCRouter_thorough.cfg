SPECIFICATION Spec
CONSTANTS
  GuardReserved = TRUE
  GuardNul = TRUE
  MaxSegs = 2
  MaxRecs = 2
  MaxPath = 5
  PathBytes = {97, 47, 58, 42, 35}
  WithRestconf = TRUE
INVARIANTS PropertyHolds OrderIndependent
CHECK_DEADLOCK FALSE
