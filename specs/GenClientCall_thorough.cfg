SPECIFICATION Spec
CONSTANTS
  ClosesPipeOnBuildError = TRUE
  ClosesFilesOnParamsError = TRUE
  CopyMarksEndSeen = FALSE
  CancelsBeforeClose = FALSE
  ClosesFilesOnFieldError = TRUE
  ZeroLenReadSetsEOF = FALSE
  FileLen = 2
  RespLen = 2
  PNames = {"none", "buffer", "reader", "mp10", "mp01", "mp11", "mp02", "mp12"}
  Auths = {"none", "ok", "read"}
  Readers = {"all", "p0", "p1", "w1"}
  Cancels = {"none", "auth", "send", "read"}
  P2Names = {"reader", "mp11", "mp02"}
  Auths2 = {"read"}
  Readers2 = {"all"}
  Cancels2 = {"none", "send"}
CHECK_DEADLOCK FALSE
