SPECIFICATION Spec
CONSTANTS
  SharedField = "none"
  MemoBound = FALSE
  MaxHist = 5
INVARIANT Memo
CHECK_DEADLOCK FALSE
