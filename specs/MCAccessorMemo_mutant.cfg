SPECIFICATION Spec
CONSTANTS
  SharedField = "none"
  MemoBound = FALSE
  SampleKinds = FALSE
  MaxHist = 5
INVARIANT Memo
CHECK_DEADLOCK FALSE
