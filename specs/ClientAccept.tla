---------------------------- MODULE ClientAccept ----------------------------
(***************************************************************************)
(* G04 (growth check, not one of the listed properties): the Accept header *)
(* of the request the client builds.  client/runtime.go createHttpRequest: *)
(*   var accept []string; accept = append(accept, op.ProducesMediaTypes...) *)
(*   request.SetHeaderParam("Accept", accept...)                           *)
(* then request.buildHTTP runs the params writer and, later, the auth      *)
(* writer, whose SetHeaderParam("Accept", ...) REPLACES the values.         *)
(*                                                                         *)
(* What HEAD does and a reader of the API relies on:                        *)
(*  - the Accept header field has one VALUE PER produces entry, in order   *)
(*    (http.Header with several values - they are not joined by the        *)
(*    client; net/http writes one header line per value);                   *)
(*  - named reading CallerAcceptReplaces: an Accept header parameter set by *)
(*    the params writer replaces the produces list, one set by the auth     *)
(*    writer in force replaces both (it runs last);                         *)
(*  - named reading NoProducesNoAccept: without produces (and without a     *)
(*    caller-set value) no Accept value is sent;                            *)
(*  - the same through CreateHttpRequest, Submit and the tracing            *)
(*    transports, and for every operation of a history on one Runtime.      *)
(*                                                                         *)
(* in = [produces : Seq(STRING),                                            *)
(*       pset, aset : <<>> (not set) or <<values>> (set to Seq(STRING),     *)
(*                    possibly the empty list)]   params / auth writer      *)
(***************************************************************************)
EXTENDS Integers, Sequences, TLC

CONSTANT Variant   \* "head" | "dropproduces" (the produces list is not put into the header)
                   \*        | "producesafterparams" (the produces list overrides the params writer's value)
                   \*        | "otelfirst" (the OpenTelemetry transport passes only the first produces entry on)

Entries == {"create", "submit", "otel", "opentracing"}

\* the operation as the runtime receives it through the entry point
ViaEntry(entry, in) ==
  IF Variant = "otelfirst" /\ entry = "otel" /\ in.produces # <<>>
  THEN [in EXCEPT !.produces = <<in.produces[1]>>] ELSE in

\* the code, step by step
CodeAccept(entry, in0) ==
  LET in == ViaEntry(entry, in0)
      h0 == IF Variant = "dropproduces" THEN <<>> ELSE in.produces          \* createHttpRequest
      h1 == IF in.pset # <<>> THEN in.pset[1] ELSE h0                        \* params writer: SetHeaderParam replaces
      h1b == IF Variant = "producesafterparams" /\ in.produces # <<>> THEN in.produces ELSE h1
      h2 == IF in.aset # <<>> THEN in.aset[1] ELSE h1b                       \* auth writer, last
  IN h2

\* the statement
ExpectedAccept(in) ==
  IF in.aset # <<>> THEN in.aset[1]            \* CallerAcceptReplaces (auth writer last)
  ELSE IF in.pset # <<>> THEN in.pset[1]       \* CallerAcceptReplaces
  ELSE in.produces                             \* one value per produces entry, in order; NoProducesNoAccept

AcceptOK(in, values) == values = ExpectedAccept(in)

WhyAccept(in, values) ==
  IF in.aset = <<>> /\ in.pset = <<>> THEN
       (IF values = <<>> THEN "accept-missing" ELSE "accept-differs-from-produces")
  ELSE "caller-set-accept-not-kept"
=============================================================================
