SPECIFICATION Spec
CONSTANTS
  OAuthEscapes = TRUE
  SpecRouteEscaped = FALSE
  MaxSegs = 3
  MaxPayload = 3
  SegIds = {"docs", "swagger.json", "api", "api.json", "specs", "..", "empty", "my specs"}
  PayloadBytes = {97, 60, 62, 38, 34, 39, 43, 47, 92, 32}
INVARIANTS RoutingHolds EscapingHolds
CHECK_DEADLOCK FALSE
