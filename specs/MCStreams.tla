------------------------------ MODULE MCStreams ------------------------------
(* Exhaustive small-scope check of PeekBody (C17): for every scripted stream *)
(* (content, chunking incl. zero-length reads, eof/err alone or with data),  *)
(* every declared length, nil body, and every history of HasBody / Read(k) / *)
(* Close up to MaxHist actions, the faithful model of request.go satisfies   *)
(* the declarative property (ObsAllowed on every step) and the state         *)
(* invariants NothingLost / CloseCountOK / DrainDelivers.                    *)
EXTENDS Streams, TLC

CONSTANTS MaxContent,     \* contents are the prefixes of <<1, 2, .., MaxContent>> (distinct bytes expose reordering)
          MaxChunks,      \* chunks per script
          MaxChunk,       \* largest chunk
          ReadSizes,      \* Read buffer sizes (a set; 0 = zero-length read)
          MaxHist,        \* actions per history
          MaxConds,       \* one-shot (non-sticky) conditions per script
          OneShots,       \* their kinds, a subset of {"eof", "err"}
          CloseErrs       \* subset of BOOLEAN: the stream's Close returns an error

ContentBytes == [i \in 1..MaxContent |-> i]

VARIABLES s, act, started, why
vars == <<s, act, started, why>>

Chunkings(L) == { c \in UNION { [1..m -> 0..MaxChunk] : m \in 0..MaxChunks } : SumSeq(c) = L }

(* at most MaxConds one-shot conditions per script, of the kinds OneShots; Close fails or not *)
CondSeqs(m) == { c \in [1..m -> {"none"} \cup OneShots] : Cardinality({ i \in 1..m : c[i] # "none" }) <= MaxConds }

Scripts ==
  { sc \in [content : { Take(ContentBytes, n) : n \in 0..MaxContent },
            chunks  : UNION { Chunkings(n) : n \in 0..MaxContent },
            conds   : UNION { CondSeqs(m) : m \in 0..MaxChunks },
            term    : {"eof", "err"},
            withData : BOOLEAN,
            closeErr : CloseErrs] : WellFormedScript(sc) }

NilScript == [content |-> <<>>, chunks |-> <<>>, conds |-> <<>>, term |-> "eof", withData |-> FALSE, closeErr |-> FALSE]

Declared == {"pos", "zero", "absent"}

Acts == { [a |-> "has", k |-> 0], [a |-> "close", k |-> 0] } \cup { [a |-> "read", k |-> k] : k \in ReadSizes }

Init == /\ s = InitState(NilScript, "absent", TRUE) /\ act = [a |-> "none", k |-> 0]
        /\ started = FALSE /\ why = ""

Choose ==
  /\ ~started /\ started' = TRUE /\ UNCHANGED <<act, why>>
  /\ \/ \E sc \in Scripts, d \in Declared : s' = InitState(sc, d, FALSE)
     \/ \E d \in Declared : s' = InitState(NilScript, d, TRUE)

Act ==
  /\ started
  /\ \E a \in Acts :
       /\ Enabled(s, a)
       /\ s' = Step(s, a)
       /\ act' = a
       /\ why' = IF ObsAllowed(s.p, a, s'.ret) THEN "" ELSE Why(s.p, a, s'.ret)
  /\ UNCHANGED started

Next == Choose \/ Act
Spec == Init /\ [][Next]_vars

Bound == TLCGet("level") <= MaxHist + 1

(* the property on every step of the faithful model *)
StepsAllowed == why = ""

StateInv == started =>
  /\ NothingLost(s)
  /\ CloseCountOK(s)
  /\ \A k \in ReadSizes \ {0} : DrainDelivers(s, k)

(* non-vacuity witnesses: each must be VIOLATED (checked during development) *)
NeverTrue      == ~(act.a = "has" /\ s.ret.b /\ s.declared = "absent")
NeverNested    == Len(s.layers) < 3
NeverDataEOF   == ~(act.a = "read" /\ s.ret.n > 0 /\ s.ret.err # "none")
NeverSwallow   == ~(act.a = "has" /\ started /\ Len(s.p.conds) < Len(CondList(s.sc)) /\ s.p.delivered = 0 /\ ~s.ret.b /\ s.sc.content # <<>>)
NeverBypass    == ~(act.a = "read" /\ act.k >= BufSize /\ s.ret.n >= BufSize)
=============================================================================
