SPECIFICATION Spec
CONSTANTS
  GuardReserved = TRUE
  GuardNul = TRUE
  MaxSegs = 1
  MaxRecs = 3
  MaxPath = 4
  PathBytes = {97, 98, 47, 58, 42, 35, 61}
  WithRestconf = TRUE
INVARIANTS PropertyHolds OrderIndependent
CHECK_DEADLOCK FALSE
