-------------------------- MODULE GenServePipeline --------------------------
(* TG: exports the interleavings (behaviours of ServePipeline) that the      *)
(* gated replayer executes against the real handler.  One ndjson line per   *)
(* behaviour: the requests and the order in which they take their stages.   *)
EXTENDS ServePipeline, Json, IOUtils

CONSTANTS NReqs, MaxSwitches, Mode   \* context-switch bound (CHESS style); NReqs * stages when unbounded

VARIABLES s, hist, sw, done
vars == <<s, hist, sw, done>>

\* Mode "good": all pairs of admissible requests; "mixed": an admissible request next to one with exactly
\* one thing wrong (either order); "solo": one request, every operation/credential kind x every defect.
Choices(k) ==
  CASE Mode = "good"  -> { <<oc, "none">> : oc \in OpCreds }
    [] Mode = "solo"  -> { <<oc, d>> \in OpCreds \X DefectKinds : DefectApplies(oc[1], d) }
    [] Mode = "mixed" -> { <<oc, d>> \in OpCreds \X DefectKinds : DefectApplies(oc[1], d) }

MixedOK(f) == Mode = "mixed" => (Cardinality({k \in DOMAIN f : f[k][2] # "none"}) = 1)

\* "solo": every consistent SET of defects at once (what is answered when several things are wrong)
SoloInit == \E oc \in OpCreds, ds \in SUBSET (DefectKinds \ {"none"}) :
              /\ Consistent(ds) /\ \A d \in ds : DefectApplies(oc[1], d)
              /\ s = InitState(<<WithDefects(Req(1, oc[1], oc[2]), ds)>>)

Init == /\ IF Mode = "solo" THEN SoloInit
           ELSE \E f \in [1..NReqs -> UNION {Choices(k) : k \in 1..NReqs}] :
              /\ MixedOK(f)
              /\ s = InitState([k \in 1..NReqs |-> WithDefect(Req(k, f[k][1][1], f[k][1][2]), f[k][2])])
        /\ hist = << >> /\ sw = 0 /\ done = FALSE
        /\ TLCSet(1, << >>)

Move == /\ ~done
        /\ \E r \in DOMAIN s.in :
             /\ ~Finished(s, r)
             /\ LET switch == hist # << >> /\ hist[Len(hist)] # r /\ ~Finished(s, hist[Len(hist)])
                IN /\ (switch => sw < MaxSwitches)
                   /\ sw' = IF switch THEN sw + 1 ELSE sw
             /\ s' = StepState(s, r)
             /\ hist' = Append(hist, r)
        /\ UNCHANGED done

Export == /\ ~done
          /\ \A r \in DOMAIN s.in : Finished(s, r)
          /\ TLCSet(1, Append(TLCGet(1), [reqs |-> s.in, sched |-> hist]))
          /\ done' = TRUE
          /\ UNCHANGED <<s, hist, sw>>

Next == Move \/ Export
Spec == Init /\ [][Next]_vars

Written == ndJsonSerialize(IOEnv.OUT_FILE, TLCGet(1))
=============================================================================
