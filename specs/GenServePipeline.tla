-------------------------- MODULE GenServePipeline --------------------------
(* TG: exports the interleavings (behaviours of ServePipeline) that the      *)
(* gated replayer executes against the real handler.  One ndjson line per   *)
(* behaviour: the requests and the order in which they take their stages.   *)
EXTENDS ServePipeline, Json, IOUtils

CONSTANTS NReqs, MaxSwitches   \* context-switch bound (CHESS style); NReqs * stages when unbounded

VARIABLES s, hist, sw, done
vars == <<s, hist, sw, done>>

Profiles == <<[ctype |-> "json", accept |-> "json", cu |-> "u1"],
              [ctype |-> "text", accept |-> "text", cu |-> "u2"],
              [ctype |-> "json", accept |-> "text", cu |-> "u1"]>>

Req(k, op, c) == [op |-> op, id |-> "i" \o ToString(k), body |-> "b" \o ToString(k),
                  ctype |-> Profiles[k].ctype, accept |-> Profiles[k].accept,
                  cs |-> c, cu |-> Profiles[k].cu]

OpCreds == { <<"opA", "key">>, <<"opB", NoneStr>>, <<"opC", "key">>, <<"opC", "tok">>, <<"opD", "key">> }

Init == /\ \E f \in [1..NReqs -> OpCreds] :
              s = InitState([k \in 1..NReqs |-> Req(k, f[k][1], f[k][2])])
        /\ hist = << >> /\ sw = 0 /\ done = FALSE
        /\ TLCSet(1, << >>)

Move == /\ ~done
        /\ \E r \in DOMAIN s.in :
             /\ ~Finished(s, r)
             /\ LET switch == hist # << >> /\ hist[Len(hist)] # r /\ ~Finished(s, hist[Len(hist)])
                IN /\ (switch => sw < MaxSwitches)
                   /\ sw' = IF switch THEN sw + 1 ELSE sw
             /\ s' = StepState(s, r)
             /\ hist' = Append(hist, r)
        /\ UNCHANGED done

Export == /\ ~done
          /\ \A r \in DOMAIN s.in : Finished(s, r)
          /\ TLCSet(1, Append(TLCGet(1), [reqs |-> s.in, sched |-> hist]))
          /\ done' = TRUE
          /\ UNCHANGED <<s, hist, sw>>

Next == Move \/ Export
Spec == Init /\ [][Next]_vars

Written == ndJsonSerialize(IOEnv.OUT_FILE, TLCGet(1))
=============================================================================
