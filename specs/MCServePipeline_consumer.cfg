SPECIFICATION Spec
CONSTANTS
  SharedField = "consumer"
  MaxReqs = 2
  Media = {"json", "text"}
  Users = {"u1", "u2"}
  MaxDefects = 1
INVARIANT Private
CHECK_DEADLOCK FALSE
