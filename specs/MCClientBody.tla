--------------------------- MODULE MCClientBody ---------------------------
(* Exhaustive small-scope check of ClientBody: the transcribed body        *)
(* selection / multipart writer / sniffing / getBody override satisfies    *)
(* C11.  Three independent tracks (no cross product):                      *)
(*  sniff     - one undeclared/declared file, every length around the      *)
(*              512-byte window x head class x NUL position x first-Read   *)
(*              size of the source                                         *)
(*  structure - <=2 file fields x <=2 files (names with directories,       *)
(*              quotes, backslashes; declared or not) x <=2 form fields    *)
(*              x <=2 values x form media types                            *)
(*  payload   - payload kinds x media types x auth writer calling GetBody  *)
(*              0..MaxK times (streaming and buffered bodies)              *)
EXTENDS ClientBody

CONSTANTS Lens, Chunks, MaxK, MaxFileFields, MaxItems, MaxFields, MaxValues

VARIABLES track, in
vars == <<track, in>>

JSON == "application/json"
TEXT == "text/plain"
Medias == {JSON, TEXT, OCTET, URLENCODED, MULTIPART}

Names == { <<102, 46, 116>>,                 \* "f.t"
           <<100, 47, 102, 46, 116>>,        \* "d/f.t"
           <<47, 120, 47>>,                  \* "/x/"
           <<97, 34, 98, 92, 99>>,           \* a"b\c
           <<97, 92, 40, 98>>,               \* a\(b   backslash before a tspecial, no quote
           <<97, 92, 92, 98>>,               \* a\\b   double backslash
           <<97, 92>> }                      \* a\     trailing backslash
Declared == { "", "text/csv" }
Keys == { <<97>>, <<98, 92, 92>>, <<99, 92>> }     \* "a", "b\\", "c\" (field names travel in a quoted-string too)
Vals == { <<120>>, <<121, 32, 38>> }

Item(n, d, l, h, z, c) == [name |-> n, declared |-> d, len |-> l, head |-> h, nul |-> z, chunk |-> c, seekable |-> FALSE, skip |-> 0]
WellFormedItem(it) ==
  /\ it.head \in {"png", "pdf", "gif"} => it.len >= 16
  /\ it.head = "bin" => it.len >= 1
  /\ it.nul # 0 => it.head = "text" /\ it.nul <= it.len
SniffItems == { it \in { Item(<<102>>, d, l, h, z, c) : d \in Declared, l \in Lens, h \in {"text", "png", "pdf", "bin"},
                                                        z \in {0, 1, 512, 513}, c \in Chunks } : WellFormedItem(it) }
SeekItems == { [it EXCEPT !.seekable = TRUE, !.skip = k] : it \in { i \in SniffItems : i.chunk = 0 /\ i.len \in {1, 513} }, k \in {0, 5} }
PlainItems == { Item(n, d, 1500, "text", 0, 0) : n \in Names, d \in Declared }

In0 == [media |-> MULTIPART, method |-> "POST", presetct |-> "", payload |-> "none", fields |-> <<>>, files |-> <<>>, auth |-> FALSE, defauth |-> FALSE, k |-> 0,
        fault |-> FALSE, debug |-> FALSE, pseek |-> FALSE, pskip |-> 0]
Init == track = "start" /\ in = In0

Ids == [payload |-> "P", ref |-> "P", files |-> [i \in 1..Len(in.files) |-> [j \in 1..Len(in.files[i].items) |-> <<i, j>>]]]

SniffTrack ==
  /\ track = "start"
  /\ \E it \in SniffItems \cup SeekItems, m \in {MULTIPART, URLENCODED, JSON} :
        in' = [in EXCEPT !.media = m, !.files = << [field |-> <<117>>, items |-> <<it>>] >>]
  /\ track' = "sniff"

StartStructure == track = "start" /\ track' = "structure" /\ \E m \in {MULTIPART, URLENCODED} : in' = [in EXCEPT !.media = m]
AddFileField ==
  /\ track = "structure" /\ Len(in.files) < MaxFileFields
  /\ \E it \in PlainItems : in' = [in EXCEPT !.files = Append(@, [field |-> <<117, 48 + Len(in.files)>>, items |-> <<it>>])]
  /\ UNCHANGED track
AddItem ==
  /\ track = "structure" /\ in.files # <<>> /\ Len(in.files[Len(in.files)].items) < MaxItems
  /\ \E it \in PlainItems : in' = [in EXCEPT !.files[Len(in.files)].items = Append(@, it)]
  /\ UNCHANGED track
AddField ==
  /\ track = "structure" /\ Len(in.fields) < MaxFields
  /\ \E k \in Keys : /\ \A i \in 1..Len(in.fields) : in.fields[i].k # k
                     /\ in' = [in EXCEPT !.fields = Append(@, [k |-> k, vs |-> <<>>])]
  /\ UNCHANGED track
AddValue ==
  /\ track = "structure" /\ in.fields # <<>> /\ Len(in.fields[Len(in.fields)].vs) < MaxValues
  /\ \E v \in Vals : in' = [in EXCEPT !.fields[Len(in.fields)].vs = Append(@, v)]
  /\ UNCHANGED track

PayloadTrack ==
  /\ track = "start"
  /\ \E p \in {"none", "value", "reader", "readcloser"}, m \in {JSON, TEXT, OCTET}, a \in BOOLEAN, k \in 0..MaxK,
        me \in {"GET", "OPTIONS", "POST", "DELETE"}, pc \in {"", JSON, TEXT}, dbg \in BOOLEAN :
        in' = [in EXCEPT !.payload = p, !.media = m, !.auth = a, !.k = k, !.method = me, !.presetct = pc, !.debug = dbg]
  /\ track' = "payload"
DefaultPlacement ==   \* the runtime-wide default writer, alone or next to the operation's
  /\ track = "payload" /\ ~in.defauth
  /\ in' = [in EXCEPT !.defauth = TRUE]
  /\ track' = "payload"
SeekablePayload ==    \* a seekable reader payload handed over at its start or past a consumed preamble
  /\ track = "payload" /\ ~in.pseek /\ in.payload \in {"reader", "readcloser"}
  /\ \E k \in {0, 1} : in' = [in EXCEPT !.pseek = TRUE, !.pskip = k]
  /\ UNCHANGED track
AuthOnForms ==      \* auth writers on form bodies (buffered urlencoded, streaming multipart)
  /\ track = "structure" /\ ~in.auth
  /\ \E k \in 0..MaxK, dbg \in BOOLEAN, pl \in {"op", "default", "both"} :
        /\ (dbg => pl = "op")
        /\ in' = [in EXCEPT !.auth = (pl # "default"), !.defauth = (pl # "op"), !.k = k, !.debug = dbg]
  /\ track' = "structure-auth"

Next == SeekablePayload \/ DefaultPlacement \/ SniffTrack \/ StartStructure \/ AddFileField \/ AddItem \/ AddField \/ AddValue \/ PayloadTrack \/ AuthOnForms
Spec == Init /\ [][Next]_vars

\* the observation a faithful recorder makes of the model's body
ObsOf(b) == [err |-> FALSE, ctmedia |-> b.ctmedia, boundary |-> b.boundary,
             kind |-> CASE b.kind = "empty" -> "empty" [] b.kind = "multipart" -> "multipart" [] OTHER -> "bytes",
             pairs |-> b.pairs, parts |-> b.parts, payload |-> b.payload, producers |-> b.producers]

BodyHolds == BodyOK(in, Ids, ObsOf(CodeBody(in, Ids)))

\* streaming bodies (reader payloads, multipart pipe) and buffered ones, content of three abstract units;
\* the stream may fail once after 0, 1 or 2 units (or never): then the call fails, or everything holds
AuthHolds ==
  LET kind == CodeKind(in) IN
  \A f \in {-1, 0, 1, 2} :
    LET a == CodeAuth(in, kind \in {"raw", "multipart"}, IF kind = "empty" THEN <<>> ELSE <<1, 2, 3>>, f)
    IN IF f >= 0 THEN a.err \/ (AuthOK(in, a.shown, a.sent) /\ a.sent = (IF kind = "empty" THEN <<>> ELSE <<1, 2, 3>>))
       ELSE ~a.err /\ AuthOK(in, a.shown, a.sent) /\ a.sent = (IF kind = "empty" THEN <<>> ELSE <<1, 2, 3>>)

\* non-vacuity witnesses (development): violated when checked
NeverSniffsText == \A i \in 1..Len(in.files) : \A j \in 1..Len(in.files[i].items) : CodeSniff(in.files[i].items[j]) # TEXTPLAIN
=============================================================================
