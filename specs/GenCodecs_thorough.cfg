SPECIFICATION GSpec
CONSTANTS
  BufSize = 4096
  MaxEmptyReads = 100
  NilCloseGuarded = TRUE
  GuardTypedNil = TRUE
  CloseOnNilPayload = TRUE
  PooledBuffer = FALSE
  UEOFIsEnd = FALSE
  ZeroCopyBuffer = FALSE
  SeqReaders = {"script", "bytesbuffer", "bytesreader", "stringsreader"}
  SeqDeepReaders = {"script", "bytesbuffer"}
  MaxSeq = 3
  MaxContent = 3
  MaxChunks = 4
  MaxChunk = 3
  Depth2 = TRUE
CHECK_DEADLOCK FALSE
