SPECIFICATION Spec
CONSTANTS
  Types = {"application/json", "text/plain", "application/xml"}
  NCallers = 2
  RecyclesWrappers = FALSE
  SharedDefaults = FALSE
  MaxOps = 4
  SharedCloser = FALSE
  OnceIsNilCheck = TRUE
INVARIANTS InvOneClient
CHECK_DEADLOCK FALSE
