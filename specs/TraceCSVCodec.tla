--------------------------- MODULE TraceCSVCodec ---------------------------
(* Trace validation of CSVConsumer / CSVProducer (C16) against the property *)
(* of CSVCodec.  case: one call = direction, kind, options, skipped lines,  *)
(* pre-population, the CSV text and its reference parse (table, bad);       *)
(* event: {err, delivered (records; byte-valued outputs re-parsed with      *)
(* encoding/csv, rp = that re-parse succeeded), alias, panic}.              *)
EXTENDS CSVCodec, Json, IOUtils

VARIABLES l, st, skipping, fails, cs

XInit(e) == e

RpOK(c, e) == (Supported(c) /\ ~c.bad) => e.rp      \* what was written is CSV again

\* e.i = 0: the only call of the case; e.i >= 1: i-th call with the SAME codec value (c.calls[i] is its input)
Cfg(c, e) == IF e.i = 0 THEN c ELSE CallCfg(c, e.i)

\* "stress": c.stress.calls repetitions of the case's call, aggregated (CSVCodec!StressAllowed)
XAllowed(c, e) ==
  IF e.ev = "stress" THEN "stress" \in DOMAIN c /\ ~e.panic /\ StressAllowed(c, c.stress.calls, e)
  ELSE /\ e.ev = "csv" /\ (e.i > 0 => e.i <= Len(c.calls)) /\ Allowed(Cfg(c, e), e) /\ RpOK(Cfg(c, e), e)
       /\ (e.i > 0 => RetainedOK(c, e.i, e.retained))     \* what the caller kept from earlier calls into the same variable

XWhy(c, e) == IF e.ev = "stress" THEN (IF e.hang THEN "call-did-not-return" ELSE IF e.other > 0 THEN "not-the-parsers-error" ELSE "stress-family-outcome")
              ELSE IF e.ev # "csv" THEN "unknown-event"
              ELSE IF ~Allowed(Cfg(c, e), e)
                   THEN (IF e.i > 1 /\ WhyNot(Cfg(c, e), e) \in {"records-differ", "unexpected-error"}
                         THEN "codec-reuse-differs-from-first-call" ELSE WhyNot(Cfg(c, e), e))
                   ELSE IF e.i > 0 /\ ~RetainedOK(c, e.i, e.retained) THEN "earlier-result-overwritten"
                   ELSE "output-not-csv"

XStep(c, e) == c

TheTrace == ndJsonDeserialize(IOEnv.TRACE_FILE)
TC == INSTANCE TraceCommon WITH TInit <- XInit, TAllowed <- XAllowed, TStep <- XStep,
                                TWhy <- XWhy, TStateful <- FALSE, Trace <- TheTrace
Spec == TC!Spec
=============================================================================
