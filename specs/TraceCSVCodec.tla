--------------------------- MODULE TraceCSVCodec ---------------------------
(* Trace validation of CSVConsumer / CSVProducer (C16) against the property *)
(* of CSVCodec.  case: one call = direction, kind, options, skipped lines,  *)
(* pre-population, the CSV text and its reference parse (table, bad);       *)
(* event: {err, delivered (records; byte-valued outputs re-parsed with      *)
(* encoding/csv, rp = that re-parse succeeded), alias, panic}.              *)
EXTENDS CSVCodec, Json, IOUtils

VARIABLES l, st, skipping, fails, cs

XInit(e) == e

RpOK(c, e) == (Supported(c) /\ ~c.bad) => e.rp      \* what was written is CSV again

XAllowed(c, e) == e.ev = "csv" /\ Allowed(c, e) /\ RpOK(c, e)

XWhy(c, e) == IF e.ev # "csv" THEN "unknown-event"
              ELSE IF ~Allowed(c, e) THEN WhyNot(c, e) ELSE "output-not-csv"

XStep(c, e) == c

TheTrace == ndJsonDeserialize(IOEnv.TRACE_FILE)
TC == INSTANCE TraceCommon WITH TInit <- XInit, TAllowed <- XAllowed, TStep <- XStep,
                                TWhy <- XWhy, TStateful <- FALSE, Trace <- TheTrace
Spec == TC!Spec
=============================================================================
