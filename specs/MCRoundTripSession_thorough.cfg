SPECIFICATION Spec
CONSTANTS
  Mutant = "none"
  PathAtoms = {97, 98, 47, 37}
  BodyAtoms = {97, 34, 92, 10}
  MaxLenName = 4
  MaxLenBody = 3
  MaxSteps = 4
  MaxUpload = 9
  SniffLen = 3
INVARIANTS SessionAgrees HistoryIndependent NothingRemembered UploadAgreesMC FormAgreesMC PiecesIntactMC
CHECK_DEADLOCK FALSE
