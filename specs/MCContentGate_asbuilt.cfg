SPECIFICATION Spec
CONSTANTS
  EntryParamsNormalised = FALSE
  StrictWildcardConsumer = FALSE
  MaxEntries = 2
INVARIANTS UntypedOK TypedOK Equivalent BodyViewOK
CHECK_DEADLOCK FALSE
