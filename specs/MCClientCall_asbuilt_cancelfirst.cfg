SPECIFICATION Spec
CONSTANTS
  ClosesPipeOnBuildError = TRUE
  ClosesFilesOnParamsError = TRUE
  CopyMarksEndSeen = FALSE
  CancelsBeforeClose = TRUE
  ClosesFilesOnFieldError = TRUE
  FileLen = 2
  RespLen = 2
  ZeroLenReadSetsEOF = FALSE
  PNames = {"buffer"}
  Auths = {"none", "ok", "read"}
  Readers = {"all", "p0", "p1"}
  Cancels = {"none"}
  MaxFaults = 1
INVARIANTS InvReleased
CHECK_DEADLOCK FALSE
