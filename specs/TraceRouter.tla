---------------------------- MODULE TraceRouter ----------------------------
(* Trace validation of the real denco.Router against Router!LookupAllowed.  *)
(* case  : one table, built in several insertion orders                     *)
(* events: build {err}; lookup {path, obs: one observation per order}       *)
EXTENDS Router, Json, IOUtils

VARIABLES l, st, skipping, fails, cs

(* case kind "mux": the http.Handler built by denco.Mux - one table per method,  *)
(* looked up with the request's URL.Path; no match => the NotFound handler (404) *)
RInit(e) == IF e.kind = "mux" THEN [kind |-> "mux", records |-> e.handlers]
            ELSE [kind |-> "table", records |-> e.records]

Of(hs, method) == SelectSeq(hs, LAMBDA h : h.method = method)

AnyDup(records) == \E i \in DOMAIN records : DupNames(records[i].pat)

(* CHECK 0 marks the unused slots of the double-array, so a NUL byte cannot label an edge: Build  *)
(* rejects a parameterised pattern with a NUL byte in its literal text (D55); static patterns are *)
(* served from a map and may contain any byte.                                                    *)
NulInTrie(pat) == /\ \E i \in DOMAIN pat : IsPlaceholder(pat[i])
                  /\ \E i \in DOMAIN pat : ~IsPlaceholder(pat[i]) /\ \E j \in DOMAIN pat[i].s : pat[i].s[j] = 0
AnyNul(records) == \E i \in DOMAIN records : NulInTrie(records[i].pat)

RAllowed(s, e) ==
  CASE e.ev = "build"  -> e.err = (AnyDup(s.records) \/ AnyNul(s.records))
    [] e.ev = "serve"  -> /\ s.kind = "mux"
                          /\ LookupAllowed(Of(s.records, e.method), e.path, e.obs)
                          /\ (~e.obs.found => e.status = 404)
    [] e.ev = "lookup" -> /\ \A k \in DOMAIN e.obs : LookupAllowed(s.records, e.path, e.obs[k])
                          /\ \A k \in DOMAIN e.obs : e.obs[k] = e.obs[1]
    [] OTHER -> FALSE

RWhy(s, e) ==
  CASE e.ev = "build"  -> "build-accepts-iff-no-duplicate-names-and-no-NUL-in-a-parameterised-pattern"
    [] e.ev = "serve" -> IF ~LookupAllowed(Of(s.records, e.method), e.path, e.obs)
                         THEN WhyNot(Of(s.records, e.method), e.path, e.obs) ELSE "not-found-must-answer-404"
    [] e.ev = "lookup" ->
         IF \E k \in DOMAIN e.obs : ~LookupAllowed(s.records, e.path, e.obs[k])
         THEN WhyNot(s.records, e.path, e.obs[CHOOSE k \in DOMAIN e.obs : ~LookupAllowed(s.records, e.path, e.obs[k])])
         ELSE "order-dependent"
    [] OTHER -> "unknown-event"

RStep(s, e) == s

TheTrace == ndJsonDeserialize(IOEnv.TRACE_FILE)
TC == INSTANCE TraceCommon WITH TInit <- RInit, TAllowed <- RAllowed, TStep <- RStep,
                                TWhy <- RWhy, TStateful <- FALSE, Trace <- TheTrace
Spec == TC!Spec
=============================================================================
