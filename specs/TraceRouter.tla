---------------------------- MODULE TraceRouter ----------------------------
(* Trace validation of the real denco.Router against Router!LookupAllowed.  *)
(* case  : one table, built in several insertion orders                     *)
(* events: build {err}; lookup {path, obs: one observation per order}       *)
EXTENDS Router, Json, IOUtils

VARIABLES l, st, skipping, fails, cs

RInit(e) == [records |-> e.records]

AnyDup(records) == \E i \in DOMAIN records : DupNames(records[i].pat)

RAllowed(s, e) ==
  CASE e.ev = "build"  -> e.err = AnyDup(s.records)
    [] e.ev = "lookup" -> /\ \A k \in DOMAIN e.obs : LookupAllowed(s.records, e.path, e.obs[k])
                          /\ \A k \in DOMAIN e.obs : e.obs[k] = e.obs[1]
    [] OTHER -> FALSE

RWhy(s, e) ==
  CASE e.ev = "build"  -> "build-accepts-iff-no-duplicate-names"
    [] e.ev = "lookup" ->
         IF \E k \in DOMAIN e.obs : ~LookupAllowed(s.records, e.path, e.obs[k])
         THEN WhyNot(s.records, e.path, e.obs[CHOOSE k \in DOMAIN e.obs : ~LookupAllowed(s.records, e.path, e.obs[k])])
         ELSE "order-dependent"
    [] OTHER -> "unknown-event"

RStep(s, e) == s

TheTrace == ndJsonDeserialize(IOEnv.TRACE_FILE)
TC == INSTANCE TraceCommon WITH TInit <- RInit, TAllowed <- RAllowed, TStep <- RStep,
                                TWhy <- RWhy, TStateful <- FALSE, Trace <- TheTrace
Spec == TC!Spec
=============================================================================
