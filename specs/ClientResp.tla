----------------------------- MODULE ClientResp -----------------------------
(* C13 - the response reaches the reader with the right consumer; per-     *)
(* operation client/context take precedence; concurrent Submit calls on    *)
(* one Runtime are safe and every caller gets the response to its own      *)
(* request.                                                                *)
(* Part A (functional): consumer selection of Runtime.Submit               *)
(*   (runtime.go:498-527) and the client/context choice (runtime.go:459-   *)
(*   490).  Part B (stateful): N callers, the sync.Once initialisation of  *)
(*   the shared http.Client, then private request/response.                *)
EXTENDS Integers, Sequences, FiniteSets, TLC

STAR == "*/*"

(***************************************************************************)
(* Part A.  A response header h = [form, t]:                               *)
(*   absent  no Content-Type header      empty    header present, value "" *)
(*   plain   t                           params   t; charset=utf-8         *)
(*   upper   t in upper case             upperparams  both                 *)
(*   badparam  t followed by a malformed parameter ("t; charset")          *)
(*   garbage   no media type can be recovered ("/", "a/b/c", ";;")         *)
(* cfg = [reg (set of media types with a consumer), star, default,         *)
(*        defForm: how Runtime.DefaultMediaType spells that type:          *)
(*        plain | params ("t; charset=utf-8") | upper ("T")]               *)
(***************************************************************************)
Forms == {"absent", "empty", "plain", "params", "upper", "upperparams", "badparam", "garbage"}
WellFormed(h) == h.form \notin {"badparam", "garbage"}

DefForms == {"plain", "params", "upper"}

\* the media type the response denotes (parameters and case ignored; the default type when the header is absent/empty -
\* however DefaultMediaType spells it: the same normalisation applies to both sources)
MediaType(cfg, h) == IF h.form \in {"absent", "empty"} THEN cfg.default ELSE h.t

\* faithful: ct == "" -> DefaultMediaType; mime.ParseMediaType (any error is fatal: MalformedHeaderIsAnError);
\* Consumers[mt], else Consumers["*/*"], else error `no consumer: "<ct>"`
CodePick(cfg, h) ==
  IF ~WellFormed(h) THEN [kind |-> "err", id |-> "", names_ct |-> FALSE, parse |-> TRUE]
  ELSE LET mt == MediaType(cfg, h) IN
       IF mt \in cfg.reg THEN [kind |-> "consumer", id |-> mt, names_ct |-> FALSE, parse |-> FALSE]
       ELSE IF cfg.star THEN [kind |-> "consumer", id |-> STAR, names_ct |-> FALSE, parse |-> FALSE]
       ELSE [kind |-> "err", id |-> "", names_ct |-> TRUE, parse |-> FALSE]

\* mutant (must violate PickAllowed): the default is used verbatim as registry key, without mime.ParseMediaType
VerbatimDefaultPick(cfg, h) ==
  IF h.form \in {"absent", "empty"} /\ cfg.defForm # "plain"
  THEN (IF cfg.star THEN [kind |-> "consumer", id |-> STAR, names_ct |-> FALSE, parse |-> FALSE]
        ELSE [kind |-> "err", id |-> "", names_ct |-> TRUE, parse |-> FALSE])
  ELSE CodePick(cfg, h)

\* declarative: what the statement fixes.  For a malformed header the statement does not say which media type it
\* denotes: an error is allowed, and so is the consumer of the recoverable type / the catch-all - never another one.
PickAllowed(cfg, h, o) ==
  LET mt == MediaType(cfg, h)
      right == IF h.form # "garbage" /\ mt \in cfg.reg THEN mt ELSE STAR
      have  == (h.form # "garbage" /\ mt \in cfg.reg) \/ cfg.star IN
  /\ o.kind \in {"consumer", "err"}
  /\ o.kind = "consumer" => have /\ o.id = right                        \* the registered one, else the catch-all, never another
  /\ o.kind = "err" => \/ ~WellFormed(h)
                       \/ (~have /\ o.names_ct)                          \* only when there is no consumer; names the content type
  /\ WellFormed(h) /\ have => o.kind = "consumer"

\* per-operation client / context take precedence over the transport-wide ones
UsedClient(opClient) == IF opClient THEN "op" ELSE "rt"

\* The client lattice, observed on the wire.  op client: none | bare (no Transport, no Jar) | transport (own Transport
\* only) | jar (own Jar only) | full;  runtime: Transport default | marker (a RoundTripper that marks every request),
\* Jar holding a cookie for the host or none.  A per-operation client is used exactly as given: a nil Transport means
\* http.DefaultTransport, a nil Jar means no cookies - nothing of the runtime's is mixed in.
OpClientKinds == {"none", "bare", "transport", "jar", "full"}
CodeClient(opc) == IF opc # "none" THEN "op" ELSE "rt"          \* runtime.go:485-490
WireSeen(chosen, opc, rtMarker, rtJar) ==
  [ rt_marker |-> chosen = "rt" /\ rtMarker, op_marker |-> chosen = "op" /\ opc \in {"transport", "full"},
    rt_cookie |-> chosen = "rt" /\ rtJar,    op_cookie |-> chosen = "op" /\ opc \in {"jar", "full"} ]
WireAllowed(opc, rtMarker, rtJar, seen) == seen = WireSeen(IF opc # "none" THEN "op" ELSE "rt", opc, rtMarker, rtJar)
\* mutant (must violate): unset Transport / Jar of the operation client are filled in from the runtime
DefaultedWireSeen(opc, rtMarker, rtJar) ==
  [ rt_marker |-> rtMarker /\ opc \in {"none", "bare", "jar"}, op_marker |-> opc \in {"transport", "full"},
    rt_cookie |-> rtJar /\ opc \in {"none", "bare", "transport"}, op_cookie |-> opc \in {"jar", "full"} ]

\* The caller's context.  op  : nil | background (context.Background() itself) | todo | value (derived, carries the
\*                              operation marker) | cancelled (derived from "value", already cancelled)
\*                        rt  : nil | default (context.Background(), as New leaves it) | value | cancelled | deadline
\*                              (every non-default runtime context carries the runtime marker; "deadline" = a short one)
OpCtxKinds == {"nil", "background", "todo", "value", "cancelled"}
RtCtxKinds == {"nil", "default", "value", "cancelled", "deadline"}

\* faithful: switch { case operation.Context != nil; case r.Context != nil; default: context.Background() }
CodeCtx(op, rt) == IF op # "nil" THEN "op" ELSE IF rt # "nil" THEN "rt" ELSE "none"

\* what the request handed to the RoundTripper shows of the context `chosen`
CtxSeen(chosen, op, rt) ==
  [ op_value |-> chosen = "op" /\ op \in {"value", "cancelled"},
    rt_value |-> chosen = "rt" /\ rt \in {"value", "cancelled", "deadline"},
    err      |-> (chosen = "op" /\ op = "cancelled") \/ (chosen = "rt" /\ rt = "cancelled"),
    short    |-> chosen = "rt" /\ rt = "deadline" ]

\* declarative: the request carries the operation's context whenever it is non-nil - whatever that context is, also
\* context.Background() itself - and the runtime's only when the operation has none
CtxAllowed(op, rt, seen) ==
  seen = CtxSeen(IF op # "nil" THEN "op" ELSE IF rt # "nil" THEN "rt" ELSE "none", op, rt)

(***************************************************************************)
(* Part B.  N callers on a fresh Runtime.                                  *)
(*   pc: params -> once -> (init) -> send -> recv -> read -> done          *)
(* OnceIsNilCheck = TRUE models `if r.client == nil { r.client = new }`    *)
(* (check and assignment are two steps): the mutant the property excludes. *)
(***************************************************************************)
(* Every call hands its reader a response object of its own (`wrap`): a    *)
(* reader may keep it beyond the call.  RecyclesWrappers = TRUE models a   *)
(* pool that takes the wrapper back when the reader returns (mutant).      *)
(* The consumer a reader is handed may close the stream it consumed      *)
(* (ByteStreamConsumer(ClosesStream)): it closes the body of ITS call.     *)
(* SharedCloser = TRUE: the closer is one variable shared by all calls     *)
(* (mutant): the call that finishes closes the body of the call that       *)
(* entered the consumer last.                                              *)
CONSTANTS NCallers, OnceIsNilCheck, RecyclesWrappers, SharedCloser

Callers == 1..NCallers

BInit == [ pc     |-> [i \in Callers |-> "params"],
           req    |-> [i \in Callers |-> 0],       \* token written by caller i's params writer
           using  |-> [i \in Callers |-> 0],       \* the client generation caller i sends with (0 = none)
           wire   |-> {},                          \* requests in flight: [from, token]
           inbox  |-> [i \in Callers |-> 0],       \* token of the response handed to caller i's reader
           got    |-> [i \in Callers |-> 0],
           client |-> 0,                           \* generation of the shared client (0 = nil)
           inits  |-> 0,
           onceDone |-> FALSE, onceBusy |-> FALSE,
           wrap   |-> [i \in Callers |-> 0],       \* the response object handed to (and kept by) caller i's reader
           slots  |-> [k \in Callers |-> 0],       \* response objects: the token of the response they show
           free   |-> {},                          \* objects back in the pool
           lastIn |-> 0,                           \* the caller that entered the consumer last
           closed |-> {} ]                         \* callers whose body was closed while they were still reading it

BNext(b, i) ==
  CASE b.pc[i] = "params" -> { [b EXCEPT !.pc[i] = "once", !.req[i] = i] }
    [] b.pc[i] = "once" ->
         IF OnceIsNilCheck
         THEN IF b.client = 0 THEN { [b EXCEPT !.pc[i] = "init"] } ELSE { [b EXCEPT !.pc[i] = "send"] }
         ELSE IF b.onceDone THEN { [b EXCEPT !.pc[i] = "send"] }
              ELSE IF b.onceBusy THEN {}                                   \* sync.Once blocks the others until f returns
              ELSE { [b EXCEPT !.pc[i] = "init", !.onceBusy = TRUE] }
    [] b.pc[i] = "init" -> { [b EXCEPT !.pc[i] = "send", !.client = b.inits + 1, !.inits = @ + 1,
                                       !.onceDone = TRUE, !.onceBusy = FALSE] }
    [] b.pc[i] = "send" -> { [b EXCEPT !.pc[i] = "recv", !.using[i] = b.client,
                                       !.wire = @ \cup {[from |-> i, token |-> b.req[i]]}] }
    [] b.pc[i] = "recv" ->     \* the transport answers each request on its own exchange, echoing its token
         \* newResponse: a fresh object (the first unused one), or one from the pool
         LET fresh == CHOOSE k \in Callers : b.slots[k] = 0 /\ \A j \in Callers : (j < k => b.slots[j] # 0)
             cands == IF RecyclesWrappers /\ b.free # {} THEN b.free ELSE {fresh} IN
         { [b EXCEPT !.pc[i] = "read", !.inbox[i] = m.token, !.wire = @ \ {m},
                     !.wrap[i] = k, !.slots[k] = m.token, !.free = @ \ {k}, !.lastIn = i]
           : m \in { x \in b.wire : x.from = i }, k \in cands }
    [] b.pc[i] = "read" ->    \* the consumer finishes: reads the rest (fails if the body was closed under it), closes "its" stream
         LET victim == IF SharedCloser THEN b.lastIn ELSE i IN
         { [b EXCEPT !.pc[i] = "done", !.got[i] = IF i \in b.closed THEN 0 ELSE b.slots[b.wrap[i]],
                     !.closed = IF victim # i /\ b.pc[victim] = "read" THEN @ \cup {victim} ELSE @,
                     !.free = IF RecyclesWrappers THEN @ \cup {b.wrap[i]} ELSE @] }
    [] OTHER -> {}

\* each caller receives the response to its own request
OwnResponse(b) == \A i \in Callers : b.pc[i] = "done" => b.got[i] = b.req[i] /\ b.got[i] = i
\* a response kept by its reader keeps showing that caller's response, whatever calls follow
RetainedIntact(b) == \A i \in Callers : b.pc[i] = "done" => b.slots[b.wrap[i]] = i
\* the shared client is created exactly once and nobody sends with a nil or a superseded client
OneClient(b)   == b.inits <= 1 /\ \A i \in Callers : b.pc[i] \in {"recv", "read", "done"} => b.using[i] = 1

(***************************************************************************)
(* Part C.  State that must NOT survive between calls or be shared between *)
(* Runtimes.                                                               *)
(***************************************************************************)
\* (1) The body the reader sees is the body the transport returned, whatever Runtime.Debug says and however long it is.
\*     size classes relative to a cap a debug dump might apply: empty | small | atcap | overcap
BodySizes == {"empty", "small", "atcap", "overcap"}
CodeBodySeen(debug, size) == size                      \* DumpResponse re-installs the complete body
BodyAllowed(debug, size, seen) == seen = size
DebugCapsBody(debug, size) == IF debug /\ size = "overcap" THEN "atcap" ELSE size     \* mutant
\* ... and whether or not connection reuse wraps the body, also for a body whose Read sometimes makes no progress
\* ((0, nil) on a non-empty buffer: allowed by io.Reader, "nothing happened"): stutter = such Reads occur before the end
StutterBodySeen(reuse, stutter, size) == size
StutterIsEOF(reuse, stutter, size) == IF reuse /\ stutter /\ size # "empty" THEN "cut" ELSE size     \* mutant

\* (2) The ClientOperation is an input of Submit: it is not modified, so a second Submit of the same value sees the
\*     transport-wide context of *that* call.  rtNow = [id, cancelled] (id 0: none).
OpCtxSeen(opHasCtx, rtNow) ==
  [op_value |-> opHasCtx, rt_id |-> IF opHasCtx THEN 0 ELSE rtNow.id, err |-> ~opHasCtx /\ rtNow.cancelled]
\* mutant: the first call stores the runtime context in the operation (rtFirst), later calls use it
StickyOpCtxSeen(opHasCtx, rtFirst) == OpCtxSeen(opHasCtx, rtFirst)

\* (3) Every Runtime owns its consumer registry.  ops: new(r) | set(r, mt, id) | del(r, mt) | submit(r, t).
\*     `stores` are the registry maps, `at[r]` the map Runtime r uses; `own[r]` is the registry r would have if isolated.
DefaultTypes == {"application/json", "text/plain", "application/xml"}
Builtin == [mt \in DefaultTypes |-> "builtin"]
CInitM == [stores |-> <<>>, at |-> <<>>, own |-> <<>>]

Lookup(reg, t) == IF t \in DOMAIN reg THEN [kind |-> "consumer", id |-> reg[t]]
                  ELSE IF STAR \in DOMAIN reg THEN [kind |-> "consumer", id |-> reg[STAR]]
                  ELSE [kind |-> "err", id |-> ""]
MapSet(m, k, v) == [x \in DOMAIN m \cup {k} |-> IF x = k THEN v ELSE m[x]]
MapDel(m, k)    == [x \in DOMAIN m \ {k} |-> m[x]]

\* SharedDefaults = TRUE: New hands out one package-level map to every Runtime (mutant)
CONSTANT SharedDefaults
MApply(s, op) ==
  CASE op.op = "new" ->
         IF SharedDefaults /\ Len(s.stores) > 0
         THEN [s EXCEPT !.at = Append(@, 1), !.own = Append(@, Builtin)]
         ELSE [s EXCEPT !.stores = Append(@, Builtin), !.at = Append(@, Len(s.stores) + 1), !.own = Append(@, Builtin)]
    [] op.op = "set" -> [s EXCEPT !.stores[s.at[op.r]] = MapSet(@, op.mt, op.id), !.own[op.r] = MapSet(@, op.mt, op.id)]
    [] op.op = "del" -> [s EXCEPT !.stores[s.at[op.r]] = MapDel(@, op.mt), !.own[op.r] = MapDel(@, op.mt)]
    [] OTHER -> s
\* what Runtime r hands its reader for content type t / what it must hand (its own registry only)
CodeMLookup(s, r, t) == Lookup(s.stores[s.at[r]], t)
OwnLookup(s, r, t)   == Lookup(s.own[r], t)
Isolated(s) == \A r \in DOMAIN s.at : s.stores[s.at[r]] = s.own[r]

\* a gate history (what the harness scheduler released, in order) is a legal interleaving:
\* every caller passes params, rt, reader in this order, once each
GateOrder == <<"params", "rt", "reader">>
RECURSIVE LegalGates(_, _)
LegalGates(h, pos) ==      \* pos[i] = number of gates caller i has passed
  IF h = <<>> THEN TRUE
  ELSE LET g == Head(h) IN
       /\ g.caller \in DOMAIN pos /\ pos[g.caller] < 3
       /\ g.gate = GateOrder[pos[g.caller] + 1]
       /\ LegalGates(Tail(h), [pos EXCEPT ![g.caller] = @ + 1])
=============================================================================
