SPECIFICATION Spec
CONSTANTS
  ParamsParsed = TRUE
  LoopMutant = 0
CHECK_DEADLOCK FALSE
