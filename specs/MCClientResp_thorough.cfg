SPECIFICATION Spec
CONSTANTS
  Types = {"application/json", "text/plain", "application/xml", "application/octet-stream"}
  NCallers = 4
  OnceIsNilCheck = FALSE
INVARIANTS InvCtx InvPick InvOwn InvOneClient
PROPERTIES AllDone
CHECK_DEADLOCK FALSE
