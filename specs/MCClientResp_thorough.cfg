SPECIFICATION Spec
CONSTANTS
  Types = {"application/json", "text/plain", "application/xml", "application/octet-stream"}
  NCallers = 6
  RecyclesWrappers = FALSE
  OnceIsNilCheck = FALSE
INVARIANTS InvCtx InvWire InvRetained InvPick InvOwn InvOneClient
PROPERTIES AllDone
CHECK_DEADLOCK FALSE
