----------------------------- MODULE GenSecurity -----------------------------
(* TG: exports the configuration lattice that MCSecurity explores           *)
(* (structures x outcome vectors x registrations x authorizer modes) as     *)
(* ndjson scripts; the driver c02 replays every script against the real     *)
(* handler in every evaluation order and every request variant.             *)
EXTENDS MCSecurity, Json, IOUtils

CONSTANTS Schemes2, MaxAlts2     \* a second lattice: fewer schemes, longer requirement lists (MaxAlts2 = 0: none)

RECURSIVE AltSeqsL(_, _, _)
AltSeqsL(schemes, n, maxPerAlt) ==      \* requirement lists of exactly n alternatives
  IF n = 0 THEN { <<>> }
  ELSE { Append(a, AltOfL(schemes, S, n)) : a \in AltSeqsL(schemes, n - 1, maxPerAlt),
                                             S \in AltSubsetsL(schemes, maxPerAlt) }

ConfigsL(schemes, maxAlts, maxPerAlt) ==
  { [alts |-> a, out |-> OutOfL(schemes, v), avail |-> av, authz |-> m] :
      a \in UNION { AltSeqsL(schemes, n, maxPerAlt) : n \in 0..maxAlts },
      v \in OutVectorsL(schemes), av \in AvailChoicesL(schemes), m \in AuthzModes }

AllConfigs == ConfigsL(Schemes, MaxAlts, MaxPerAlt)
              \cup (IF MaxAlts2 = 0 THEN {} ELSE ConfigsL(Schemes2, MaxAlts2, MaxPerAlt))

GenNext == /\ stage = "alts" /\ stage' = "exported"
           /\ ndJsonSerialize(IOEnv.OUT_FILE, SetToSeq(AllConfigs))
           /\ UNCHANGED <<cfg, ev, variant>>
GenSpec == Init /\ [][GenNext]_vars
=============================================================================
