SPECIFICATION Spec
CONSTANTS
  Mutant = "stickydefault"
  MaxSteps = 3
INVARIANT Holds
CHECK_DEADLOCK FALSE
