-------------------------- MODULE TraceClientURL --------------------------
(* Trace validation of client.Runtime.CreateHttpRequest against C10.        *)
(* case  : one abstract input (reset line = the input)                      *)
(* event : url {obs: the distinct URLs observed over all orders in which    *)
(*         the path parameters were set x repetitions (Go randomises the    *)
(*         iteration of the value map), each with its count}                *)
(* Allowed: every observation satisfies ObsOK (scheme, host, escaped path   *)
(* with exactly the pattern's segments, query precedence) and there is      *)
(* exactly one distinct observation (order independence).                   *)
EXTENDS ClientURL, Json, IOUtils

VARIABLES l, st, skipping, fails, cs

UInit(e) == [base |-> e.base, pat |-> e.pat, vals |-> e.vals, cq |-> e.cq,
             rs |-> e.rs, os |-> e.os, host |-> e.host]

UAllowed(s, e) ==
  CASE e.ev = "url" -> /\ Len(e.obs) = 1
                       /\ \A k \in DOMAIN e.obs : ObsOK(s, e.obs[k])
    [] OTHER -> FALSE

UWhy(s, e) ==
  CASE e.ev = "url" ->
         IF \E k \in DOMAIN e.obs : ~ObsOK(s, e.obs[k])
         THEN WhyObs(s, e.obs[CHOOSE k \in DOMAIN e.obs : ~ObsOK(s, e.obs[k])])
         ELSE "order-dependent"
    [] OTHER -> "unknown-event"

UStep(s, e) == s

TheTrace == ndJsonDeserialize(IOEnv.TRACE_FILE)
TC == INSTANCE TraceCommon WITH TInit <- UInit, TAllowed <- UAllowed, TStep <- UStep,
                                TWhy <- UWhy, TStateful <- FALSE, Trace <- TheTrace
Spec == TC!Spec
=============================================================================
