-------------------------- MODULE TraceClientURL --------------------------
(* Trace validation of client.Runtime.CreateHttpRequest against C10.        *)
(* case  : a history of operations built on ONE Runtime (reset line: base   *)
(*         path, host, runtime schemes, steps = the operations in order)     *)
(*         (each operation is built through every entry point of its `entries`: *)
(*         CreateHttpRequest, Submit, WithOpenTelemetry().Submit,             *)
(*         WithOpenTracing().Submit - all must yield the same URL)            *)
(* event : url {step, obs: the distinct URLs observed over all orders in which    *)
(*         the path parameters were set x repetitions (Go randomises the    *)
(*         iteration of the value map), each with its count}                *)
(* Allowed: every observation satisfies ObsOK (scheme, host, escaped path   *)
(* with exactly the pattern's segments, query precedence) and there is      *)
(* exactly one distinct observation (order independence).                   *)
EXTENDS ClientURL, Json, IOUtils

VARIABLES l, st, skipping, fails, cs

UInit(e) == [base |-> e.base, rs |-> e.rs, host |-> e.host, dq |-> e.dq, steps |-> e.steps]

\* the input of the k-th operation: the property is per request, whatever was built before on the Runtime
In(s, k) == [base |-> s.base, pat |-> s.steps[k].pat, vals |-> s.steps[k].vals, cq |-> s.steps[k].cq,
             opauth |-> s.steps[k].opauth, aq |-> s.steps[k].aq, dq |-> s.dq,
             rs |-> s.rs, os |-> s.steps[k].os, host |-> s.host]

UAllowed(s, e) ==
  CASE e.ev = "url" -> /\ Len(e.obs) = 1
                       /\ \A k \in DOMAIN e.obs : ObsOK(In(s, e.step), e.obs[k])
    [] OTHER -> FALSE

UWhy(s, e) ==
  CASE e.ev = "url" ->
         IF \E k \in DOMAIN e.obs : ~ObsOK(In(s, e.step), e.obs[k])
         THEN WhyObs(In(s, e.step), e.obs[CHOOSE k \in DOMAIN e.obs : ~ObsOK(In(s, e.step), e.obs[k])])
         ELSE "order-dependent"
    [] OTHER -> "unknown-event"

UStep(s, e) == s

TheTrace == ndJsonDeserialize(IOEnv.TRACE_FILE)
TC == INSTANCE TraceCommon WITH TInit <- UInit, TAllowed <- UAllowed, TStep <- UStep,
                                TWhy <- UWhy, TStateful <- FALSE, Trace <- TheTrace
Spec == TC!Spec
=============================================================================
