SPECIFICATION Spec
CONSTANTS
  Mutant = "sharedcodecs"
INVARIANT OwnCodecsMC
CHECK_DEADLOCK FALSE
