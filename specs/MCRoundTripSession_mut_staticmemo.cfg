SPECIFICATION Spec
CONSTANTS
  Mutant = "staticmemo"
  PathAtoms = {97, 98, 47, 37}
  BodyAtoms = {97, 34, 92}
  MaxLenName = 2
  MaxLenBody = 1
  MaxSteps = 3
  MaxUpload = 6
  SniffLen = 2
INVARIANTS SessionAgrees UploadAgreesMC
CHECK_DEADLOCK FALSE
