SPECIFICATION Spec
CONSTANTS
  GuardReserved = TRUE
  GuardNul = TRUE
  UseEscapedPath = TRUE
  MaxOps = 2
  MaxSegs = 3
  Bases = {"empty", "/api", "/a"}
  TemplateIds = {"axcy", "ax", "ab"}
  OpMethods = {"GET"}
  ReqMethods = {"get", "POST"}
  SegIds = {"a", "b", "c", "api", "a%2Fb", "%25", "*", "hi", "%61", ";=", "%2e%2e", "%23", "."}
INVARIANTS PropertyHolds
CHECK_DEADLOCK FALSE
