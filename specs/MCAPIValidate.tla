--------------------------- MODULE MCAPIValidate ---------------------------
(* Exhaustive small-scope check of C19: every description over small pools   *)
(* (global/per-operation consumes and produces, security definitions and     *)
(* requirements, <= MaxOps operations) x every registration that is exact,    *)
(* exact minus one item, exact plus one item, or a case variant, with and     *)
(* without the JSON defaults.                                                *)
EXTENDS APIValidate, SequencesExt

CONSTANTS MaxOps, WithUpperCaseDesc, SmallSec, WithNoContent

VARIABLES phase, desc, reg
vars == <<phase, desc, reg>>

J == JSONMime
X == <<97,112,112,108,105,99,97,116,105,111,110,47,120,109,108>>        \* application/xml
U == <<65,112,112,108,105,99,97,116,105,111,110,47,88,77,76>>          \* Application/XML
JU == <<65,80,80,76,73,67,65,84,73,79,78,47,74,83,79,78>>             \* APPLICATION/JSON
T == <<116,101,120,116,47,112,108,97,105,110>>                         \* text/plain
get == <<103,101,116>>   GET == <<71,69,84>>   Get == <<71,101,116>>
post == <<112,111,115,116>>  put == <<112,117,116>>
pa == <<47,97>>  pb == <<47,98>>  pc == <<47,99>>
k == <<107>>  b == <<98>>  z == <<122>>

NoSec   == [present |-> FALSE, alts |-> <<>>]
Sec(a)  == [present |-> TRUE,  alts |-> a]

SecChoices == IF SmallSec THEN {NoSec, Sec(<<<<k, b>>>>)}
              ELSE {NoSec, Sec(<<<<k>>>>), Sec(<<<<k, b>>>>), Sec(<<<<k>>, <<b>>>>), Sec(<<<<>>>>), Sec(<<>>)}
OpMediaChoices == {<<>>, <<X>>} \cup (IF WithUpperCaseDesc THEN {<<U>>} ELSE {})

head == <<104,101,97,100>>
MethodPaths == { [method |-> get, path |-> pa, body |-> FALSE, nocontent |-> FALSE], [method |-> post, path |-> pa, body |-> TRUE, nocontent |-> FALSE],
                 [method |-> get, path |-> pb, body |-> FALSE, nocontent |-> FALSE] }
               \cup (IF WithNoContent THEN { [method |-> get, path |-> pc, body |-> FALSE, nocontent |-> TRUE],
                                             [method |-> head, path |-> pb, body |-> FALSE, nocontent |-> FALSE] } ELSE {})

OpPool == UNION { { [method |-> mp.method, path |-> mp.path, body |-> mp.body, nocontent |-> mp.nocontent, consumes |-> c, produces |-> p, sec |-> s] :
                      c \in (IF mp.body THEN OpMediaChoices ELSE IF mp.nocontent \/ mp.method = head THEN {<<>>} ELSE {<<>>, <<X>>}),
                      p \in (IF mp.nocontent \/ mp.method = head THEN {<<>>, <<X>>} ELSE OpMediaChoices), s \in SecChoices } :
                  mp \in MethodPaths }
OpSeq == SetToSeq(OpPool)

GlobalMedia == {<<>>, <<J>>, <<J, X>>}
GlobalSec   == {NoSec, Sec(<<<<k>>>>)}
Defs        == {<<>>, <<k>>, <<k, b>>}

Dummy == [json |-> TRUE, consumers |-> <<>>, producers |-> <<>>, ops |-> <<>>, auths |-> <<>>]

Init == /\ phase = "global" /\ reg = Dummy
        /\ desc = [consumes |-> <<>>, produces |-> <<>>, sec |-> NoSec, defs |-> <<>>, ops |-> <<>>, last |-> 0]

Global ==
  /\ phase = "global"
  /\ \E c \in GlobalMedia, p \in GlobalMedia, s \in GlobalSec, d \in Defs :
       desc' = [desc EXCEPT !.consumes = c, !.produces = p, !.sec = s, !.defs = d]
  /\ phase' = "ops" /\ UNCHANGED reg

AddOp ==
  /\ phase = "ops" /\ Len(desc.ops) < MaxOps
  /\ \E i \in DOMAIN OpSeq :
       /\ i > desc.last
       /\ \A o \in Rng(desc.ops) : OpKey(o.method, o.path) # OpKey(OpSeq[i].method, OpSeq[i].path)
       /\ desc' = [desc EXCEPT !.ops = Append(@, OpSeq[i]), !.last = i]
  /\ UNCHANGED <<phase, reg>>

(* the exact registration, then one perturbation *)
Exact(json) ==
  [json |-> json,
   consumers |-> SetToSeq(Need("consumes", desc) \ (IF json THEN {J} ELSE {})),
   producers |-> SetToSeq(Need("produces", desc) \ (IF json THEN {J} ELSE {})),
   ops   |-> [i \in DOMAIN desc.ops |-> [method |-> desc.ops[i].method, path |-> desc.ops[i].path]],
   auths |-> SetToSeq(Need("auth scheme", desc))]

Without(s, x) == SelectSeq(s, LAMBDA y : y # x)
UpperVariant(m) == IF m = X THEN U ELSE IF m = J THEN JU ELSE ToUpper(m)

Perturbations(e) ==
  {e}
  \cup {[e EXCEPT !.consumers = Without(@, x)] : x \in Rng(e.consumers)}
  \cup {[e EXCEPT !.producers = Without(@, x)] : x \in Rng(e.producers)}
  \cup {[e EXCEPT !.ops = Without(@, x)] : x \in Rng(e.ops)}
  \cup {[e EXCEPT !.auths = Without(@, x)] : x \in Rng(e.auths)}
  \cup {[e EXCEPT !.consumers = Append(@, y)] : y \in {J, X, T, U} \ Rng(e.consumers)}
  \cup {[e EXCEPT !.producers = Append(@, y)] : y \in {J, X, T, U} \ Rng(e.producers)}
  \cup {[e EXCEPT !.ops = Append(@, y)] : y \in {[method |-> put, path |-> pc], [method |-> post, path |-> pb]}}
  \cup {[e EXCEPT !.auths = Append(@, y)] : y \in {k, b, z} \ Rng(e.auths)}
  \* case variants: a media type registered in another letter case, a method in another letter case
  \cup {[e EXCEPT !.consumers = Append(Without(@, x), UpperVariant(x))] : x \in Rng(e.consumers)}
  \cup {[e EXCEPT !.producers = Append(Without(@, x), UpperVariant(x))] : x \in Rng(e.producers)}
  \cup {[e EXCEPT !.ops = [i \in DOMAIN @ |-> [method |-> IF @[i].method = get THEN Get ELSE ToUpper(@[i].method), path |-> @[i].path]]]}

Register ==
  /\ phase = "ops" /\ desc.ops # <<>>
  /\ \E json \in BOOLEAN : \E r \in Perturbations(Exact(json)) : reg' = r
  /\ phase' = "done" /\ UNCHANGED desc

Next == Global \/ AddOp \/ Register
Spec == Init /\ [][Next]_vars

ObsOf(r) == r
D == [consumes |-> desc.consumes, produces |-> desc.produces, sec |-> desc.sec, defs |-> desc.defs, ops |-> desc.ops]

ValidateExact == phase = "done" => ValidateAllowed(D, reg, Validate(D, reg))
ServingConsequence == phase = "done" => ServingHolds(D, reg)

\* non-vacuity witnesses (must be VIOLATED)
NeverPasses == phase = "done" => ~Validate(D, reg).ok
NeverServes == phase = "done" => ~(CleanDesc(D) /\ Validate(D, reg).ok /\ \E o \in Rng(D.ops) : o.body /\ ConsumesFor(D, o) # {} /\ ProducesFor(D, o) # {} /\ SecurityFor(D, o) # <<>>)
=============================================================================
