-------------------------- MODULE TraceTLSOptions --------------------------
(* Trace validation of client.TLSClientAuth / TLSTransport / TLSClient and  *)
(* of real handshakes against TLSOptions.  case = one lattice point         *)
(* (reset.opts); events: config, then handshake x servers A..E.             *)
EXTENDS TLSOptions, Json, IOUtils

VARIABLES l, st, skipping, fails, cs

Range(s) == { s[i] : i \in DOMAIN s }

TInit0(e) == IF e.kind = "rotate" THEN [kind |-> "rotate", o |-> e.opts, mutation |-> e.mutation, mutated |-> FALSE]
             ELSE [kind |-> "point", o |-> e.opts]

ObsCfg(e) ==
  [err |-> IF e.err THEN e.err_stage ELSE "", minVersion |-> e.min_version, skipVerify |-> e.skip_verify,
   serverName |-> e.server_name, system |-> e.system, roots |-> Range(e.roots), clientCert |-> e.client_cert,
   callback |-> e.callback_set, tickets |-> e.tickets, cache |-> e.cache_set]

\* identity of what is carried: the very server name, callback, cache and key pair that were supplied
CarriedIntact(e) ==
  ~e.err => /\ e.server_name # "foreign"                   \* the very name that was given (host name or IP literal)
            /\ ~e.selection_err /\ e.selected_cert = e.client_cert  \* what crypto/tls's own selection would present
            /\ (e.callback_set => e.callback_same)
            /\ (e.cache_set => e.cache_same)
            /\ (IF e.client_cert = "none" THEN e.n_certs = 0 ELSE e.n_certs = 1 /\ e.key_matches)
            /\ "foreign" \notin Range(e.roots)

ConfigOK(o, e) ==
  /\ ~e.panic
  /\ (e.err => e.err_stage # "")
  /\ ConfigAllowed(o, ObsCfg(e))
  /\ CarriedIntact(e)
  /\ e.wrappers_same                      \* TLSTransport / TLSClient give the same configuration or error
  /\ e.reuse_same                         \* ... also once wrapped by KeepAliveTransport / EnableConnectionReuse (ThroughReuse)

HandshakeObsOK(o, e) ==
  LET c == Config(o)                      \* the configuration the property determines for these options
      sv == Servers[e.server] IN
  /\ e.ok = HandshakeOK(c, sv)
  /\ e.ok => e.version >= TLS12
  /\ e.presented = Presented(c, sv)
  /\ e.ok /\ o.callback => e.callback_called

\* history: configuration -> handshake -> the files change -> new handshakes with the same configuration
RotateOK(s, e) ==
  LET c == Config(s.o) sv == Servers["D"] IN
  CASE e.ev = "rot_hs" ->
         /\ ~e.panic /\ e.phase = (IF s.mutated THEN 2 ELSE 1)
         /\ e.ok = HandshakeOK(c, sv)
         /\ e.presented = PresentedAfter(c, sv, IF s.mutated THEN s.mutation ELSE "none")
         /\ ~e.selection_err /\ e.selected = c.clientCert
    [] e.ev = "rot_mutate" -> ~s.mutated /\ e.mutation = s.mutation
    [] OTHER -> FALSE

MAllowed(s, e) ==
  IF s.kind = "rotate" THEN RotateOK(s, e)
  ELSE CASE e.ev = "config" -> ConfigOK(s.o, e)
         [] e.ev = "handshake" -> HandshakeObsOK(s.o, e)
         [] OTHER -> FALSE

MWhy(s, e) ==
  LET o == s.o IN
  CASE s.kind = "rotate" ->
         IF e.ev # "rot_hs" THEN "bad-rotate-event"
         ELSE IF s.mutated THEN "client-certificate-changed-after-configuration-when-files-changed"
         ELSE "client-certificate-presented-is-not-the-supplied-one"
    [] e.ev = "config" ->
         IF e.panic THEN "panic"
         ELSE IF ~ConfigAllowed(o, ObsCfg(e)) THEN WhyNot(o, ObsCfg(e))
         ELSE IF ~CarriedIntact(e) THEN "carried-value-not-the-supplied-one"
         ELSE IF ~e.wrappers_same THEN "tls-transport-or-client-wrapper-differs"
         ELSE IF ~e.reuse_same THEN "configuration-changed-by-connection-reuse-wrapper"
         ELSE "error-without-stage"
    [] e.ev = "handshake" ->
         LET c == Config(o) sv == Servers[e.server] IN
         IF e.ok /\ ~HandshakeOK(c, sv) THEN "handshake-succeeded-with-" \o e.server \o "-but-must-fail"
         ELSE IF ~e.ok /\ HandshakeOK(c, sv) THEN "handshake-failed-with-" \o e.server \o "-but-must-succeed"
         ELSE IF e.ok /\ e.version < TLS12 THEN "negotiated-below-tls12"
         ELSE IF e.presented # Presented(c, sv) THEN "client-certificate-presented-is-not-the-supplied-one"
         ELSE "verification-callback-not-invoked"
    [] OTHER -> "unknown-event"

MStep(s, e) == IF s.kind = "rotate" /\ e.ev = "rot_mutate" THEN [s EXCEPT !.mutated = TRUE] ELSE s

TheTrace == ndJsonDeserialize(IOEnv.TRACE_FILE)
TC == INSTANCE TraceCommon WITH TInit <- TInit0, TAllowed <- MAllowed, TStep <- MStep, TWhy <- MWhy,
                                TStateful <- FALSE, Trace <- TheTrace
Spec == TC!Spec
=============================================================================
