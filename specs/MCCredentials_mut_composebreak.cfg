SPECIFICATION Spec
CONSTANTS
  Mutant = "composebreak"
  Atoms = {97, 58, 32, 195, 43, 37, 61, 38}
  MaxLen = 2
INVARIANT Holds
CHECK_DEADLOCK FALSE
