--------------------------- MODULE TraceParamBind ---------------------------
(* Trace validation of the real untyped-API parameter binding against        *)
(* ParamBind!Allowed (the declarative side only).                            *)
(* case  : reset {kind "bind", decl, reqs}                                   *)
(* events: bind {i, status, ran, panic, has, val, dyn, msg}  - request i     *)
(*         served through middleware.NewContext(doc, api, nil).APIHandler;   *)
(*         val/dyn = what the recording handler found in its parameter map   *)
(*         build {ok, msg} - the declaration could not be served at all      *)
EXTENDS ParamBind, Json, IOUtils

VARIABLES l, st, skipping, fails, cs

PInit(e) == e

RECURSIVE ValEq(_, _)
ValEq(a, b) ==
  /\ a.k = b.k
  /\ CASE a.k = "int"   -> a.neg = b.neg /\ a.mag = b.mag
       [] a.k = "float" -> a.sp = "" /\ ((a.mag = <<>> /\ b.mag = <<>>) \/ (a.neg = b.neg /\ a.mag = b.mag /\ a.sci = b.sci))
       [] a.k = "bool"  -> a.b = b.b
       [] a.k \in {"str", "fmt", "bytes"} -> a.s = b.s
       [] a.k = "list"  -> Len(a.items) = Len(b.items) /\ \A i \in DOMAIN a.items : ValEq(a.items[i], b.items[i])
       [] a.k = "file"  -> a.s = b.s /\ Len(a.items) = Len(b.items) /\ \A i \in DOMAIN a.items : ValEq(a.items[i], b.items[i])
       [] OTHER -> FALSE

Accepted(e) == e.status = 200 /\ e.ran /\ e.has
Rejected(e, d) == e.status = 422 /\ ~e.ran /\ ContainsSeq(e.msg, d.name)     \* 422 naming the parameter, handler not run

MatchesOutcome(o, e, d) ==
  CASE o.k = "ok"    -> Accepted(e) /\ e.dyn = o.dyn /\ ValEq(e.val, o.val)
    [] o.k = "okany" -> Accepted(e) /\ e.dyn = o.dyn
    [] o.k = "rej"   -> Rejected(e, d)
    [] OTHER -> FALSE

PAllowed(s, e) ==
  CASE e.ev = "bind" -> /\ ~e.panic
                        /\ \E o \in Allowed(s.decl, s.reqs[e.i]) : MatchesOutcome(o, e, s.decl)
    [] OTHER -> FALSE

PWhy(s, e) ==
  IF e.ev = "build" THEN "declaration-cannot-be-served"
  ELSE IF e.ev # "bind" THEN "unknown-event"
  ELSE LET d == s.decl  S == Allowed(d, s.reqs[e.i]) IN
    IF e.panic THEN "binding-panics"
    ELSE IF S = {} THEN "harness-text-outside-the-format-tables"
    ELSE IF e.status = 200 /\ (\A o \in S : o.k = "rej") THEN "accepted-but-422-expected"
    ELSE IF e.status = 200 /\ ~e.ran THEN "200-but-handler-did-not-run"
    ELSE IF e.status = 200 /\ ~e.has THEN "parameter-missing-from-the-handler-map"
    ELSE IF e.status = 200 /\ (\A o \in S : o.k = "rej" \/ e.dyn # o.dyn) THEN "dynamic-type-differs"
    ELSE IF e.status = 200 THEN "bound-value-differs-from-what-the-text-denotes"
    ELSE IF e.status = 422 /\ e.ran THEN "422-but-handler-ran"
    ELSE IF e.status = 422 /\ (\E o \in S : o.k = "rej") THEN "422-does-not-name-the-parameter"
    ELSE IF e.status = 422 THEN "rejected-but-a-value-is-denoted"
    ELSE "status-neither-200-nor-422"

PStep(s, e) == s

TheTrace == ndJsonDeserialize(IOEnv.TRACE_FILE)
TC == INSTANCE TraceCommon WITH TInit <- PInit, TAllowed <- PAllowed, TStep <- PStep,
                                TWhy <- PWhy, TStateful <- FALSE, Trace <- TheTrace
Spec == TC!Spec
=============================================================================
