SPECIFICATION Spec
CONSTANTS
  SharedField = "none"
  NReqs = 3
  MaxSwitches = 3
POSTCONDITION Written
CHECK_DEADLOCK FALSE
