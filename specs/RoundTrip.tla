------------------------------ MODULE RoundTrip ------------------------------
(***************************************************************************)
(* C04 - client and server agree.  The client half (client/request.go:     *)
(* url.PathEscape of path values, url.Values.Encode for query and          *)
(* urlencoded forms, multipart writer, producer for the body) composed     *)
(* with the server half (middleware/router.go: URL.EscapedPath, path.Clean, *)
(* trie match, PathUnescape of captured texts; middleware/parameter.go:    *)
(* URL.Query(), Header, ParseForm / ParseMultipartForm, consumer) and, for *)
(* the way back, Context.Respond -> net/http -> Runtime.Submit ->          *)
(* ClientResponse.                                                         *)
(*                                                                         *)
(* The module carries its own compact encode/decode tables per parameter   *)
(* location over byte strings (in MCRoundTrip a byte stands for its class; *)
(* in TraceRoundTrip they are the real bytes); the byte-level escaping      *)
(* primitives are those of ClientURL (my C10 module).                      *)
(*                                                                         *)
(*  Encode(loc, v)   what the client puts on the wire for value v          *)
(*  Transport(loc,w) what HTTP delivers (header fields lose optional       *)
(*                   white space around the value)                         *)
(*  Decode(loc, w)   what the server hands to the handler                  *)
(*  InScope(loc, v)  the values C04 quantifies over                        *)
(* Property: InScope(loc, v) => Decode(loc, Transport(loc, Encode(loc, v))) *)
(* = v, the operation reached is the one called, and the handler's status, *)
(* headers and body are what the client's reader sees.                     *)
(***************************************************************************)
EXTENDS Integers, Sequences, FiniteSets, TLC

CONSTANT Mutant    \* "none" | "plusinpath" (server decodes '+' in path segments) | "queryaspath" (client escapes
                   \* query values like path segments) | "noclean-exclusion" (dot segments claimed in scope) | "trimform"

U == INSTANCE ClientURL WITH Variant <- "fixed"

SLASH == 47  DOT == 46  SPACE == 32  TAB == 9  CR == 13  LF == 10

Locs == {"path", "query", "header", "urlform", "multiform"}

IsOWS(c) == c = SPACE \/ c = TAB
RECURSIVE TrimLeft(_)
TrimLeft(s) == IF s # <<>> /\ IsOWS(Head(s)) THEN TrimLeft(Tail(s)) ELSE s
RECURSIVE TrimRight(_)
TrimRight(s) == IF s # <<>> /\ IsOWS(s[Len(s)]) THEN TrimRight(SubSeq(s, 1, Len(s) - 1)) ELSE s
TrimOWS(s) == TrimRight(TrimLeft(s))

\* a field value net/http is willing to send (httpguts.ValidHeaderFieldValue): no control byte but HTAB
Sendable(s) == \A i \in 1..Len(s) : (s[i] >= 32 /\ s[i] # 127) \/ s[i] = TAB

---------------------------------------------------------------------------
(* the tables                                                              *)
Encode(loc, v) ==
  CASE loc = "path"      -> U!PathEscape(v)                   \* strings.NewReplacer(... url.PathEscape(v))
    [] loc = "query"     -> IF Mutant = "queryaspath" THEN U!PathEscape(v) ELSE U!QueryEscape(v)   \* url.Values.Encode
    [] loc = "urlform"   -> U!QueryEscape(v)                  \* r.formFields.Encode()
    [] loc = "header"    -> v                                 \* http.Header, verbatim
    [] loc = "multiform" -> v                                 \* multipart.Writer.WriteField, verbatim part body

Transport(loc, w) == IF loc = "header" THEN TrimOWS(w) ELSE w

\* [ok, v]
Decode(loc, w) ==
  CASE loc = "path"      -> IF U!ValidPct(w) THEN [ok |-> TRUE, v |-> U!PctDecode(w, Mutant = "plusinpath")]   \* url.PathUnescape
                            ELSE [ok |-> FALSE, v |-> <<>>]
    [] loc \in {"query", "urlform"} ->
                            IF U!ValidPct(w) THEN [ok |-> TRUE, v |-> U!PctDecode(w, TRUE)]    \* url.ParseQuery
                            ELSE [ok |-> FALSE, v |-> <<>>]
    [] loc = "header"    -> [ok |-> TRUE, v |-> w]
    [] loc = "multiform" -> [ok |-> TRUE, v |-> IF Mutant = "trimform" THEN TrimOWS(w) ELSE w]

\* C04's quantifier: path values that are empty or dot segments are outside (paths are normalised by
\* design); header values must be transportable (no CR/LF/control bytes, no blanks at either end)
InScope(loc, v) ==
  CASE loc = "path"   -> v # <<>> /\ (Mutant = "noclean-exclusion" \/ (v # <<DOT>> /\ v # <<DOT, DOT>>))
    [] loc = "header" -> Sendable(v) /\ TrimOWS(v) = v
    [] OTHER          -> TRUE

RoundTrips(loc, v) ==
  LET d == Decode(loc, Transport(loc, Encode(loc, v))) IN d.ok /\ d.v = v

---------------------------------------------------------------------------
(* routing of the request path: the server cleans the escaped path          *)
(* (path.Clean) and matches it against the template segment by segment;    *)
(* a template is a sequence of segments [k |-> "lit", s |-> bytes, n |-> ""] *)
(* or [k |-> "ph", s |-> <<>>, n |-> name]                                  *)
RECURSIVE CleanSegs(_, _)
CleanSegs(parts, acc) ==
  IF parts = <<>> THEN acc
  ELSE LET p == Head(parts) IN
       IF p = <<>> \/ p = <<DOT>> THEN CleanSegs(Tail(parts), acc)
       ELSE IF p = <<DOT, DOT>> THEN CleanSegs(Tail(parts), IF acc = <<>> THEN acc ELSE SubSeq(acc, 1, Len(acc) - 1))
       ELSE CleanSegs(Tail(parts), Append(acc, p))

\* wire segments of a call: literals verbatim, placeholders replaced by the encoded value
WireSegs(tmpl, vals) == [i \in 1..Len(tmpl) |-> IF tmpl[i].k = "lit" THEN tmpl[i].s ELSE Encode("path", vals[tmpl[i].n])]

\* a wire segment can only be matched by a placeholder if it contains no separator
Matches(tmpl, segs) ==
  /\ Len(segs) = Len(tmpl)
  /\ \A i \in 1..Len(tmpl) : IF tmpl[i].k = "lit" THEN segs[i] = tmpl[i].s ELSE U!Index(segs[i], SLASH) = 0

\* what the server's route delivers for a call of the template with values vals (a function name -> bytes)
Routed(tmpl, vals) ==
  LET segs == CleanSegs(WireSegs(tmpl, vals), <<>>) IN
  IF Matches(tmpl, segs)
  THEN [found |-> TRUE,
        params |-> [n \in {tmpl[i].n : i \in {j \in 1..Len(tmpl) : tmpl[j].k = "ph"}} |->
                      LET i == CHOOSE j \in 1..Len(tmpl) : tmpl[j].k = "ph" /\ tmpl[j].n = n IN Decode("path", segs[i]).v]]
  ELSE [found |-> FALSE, params |-> <<>>]

NamesOf(tmpl) == {tmpl[i].n : i \in {j \in 1..Len(tmpl) : tmpl[j].k = "ph"}}
PathAgrees(tmpl, vals) ==
  (\A n \in NamesOf(tmpl) : InScope("path", vals[n])) =>
     LET r == Routed(tmpl, vals) IN r.found /\ \A n \in NamesOf(tmpl) : r.params[n] = vals[n]

---------------------------------------------------------------------------
(* the way back: status, header fields, body                               *)
\* status codes a handler may pick that carry through unchanged: final responses other than
\* redirects (the client's http.Client follows 3xx) - named deviation RedirectsFollowed
StatusInScope(code) == code >= 200 /\ code <= 599 /\ ~(code >= 300 /\ code <= 399 /\ code # 304)
BodyAllowed(code) == code # 204 /\ code # 304

ResponseSeen(h) ==     \* h = [code, hdrs : Seq([k, vs]), body]
  [code |-> h.code, hdrs |-> [i \in 1..Len(h.hdrs) |-> [k |-> h.hdrs[i].k, vs |-> [j \in 1..Len(h.hdrs[i].vs) |-> Transport("header", h.hdrs[i].vs[j])]]],
   body |-> h.body]

---------------------------------------------------------------------------
(* The property on one observed exchange (TraceRoundTrip).                 *)
(*  c = the call: [op, params : Seq([name, loc, kind, vs])], kind \in      *)
(*      {"scalar", "multi", "file", "body"}; vs = Seq(bytes) (scalar: one; *)
(*      file: <<base name, content id>>; body: <<canonical bytes>>)        *)
(*  o = the observation: [err, handled_op, received : Seq([name, vs]),     *)
(*      handler : [code, hdrs, body], seen : [code, hdrs, body]]           *)
ValueLoc(p) == IF p.loc \in {"file", "body"} THEN "multiform" ELSE p.loc    \* files and bodies travel verbatim

ParamInScope(p) == \A i \in 1..Len(p.vs) : InScope(ValueLoc(p), p.vs[i])
CallInScope(c)  == \A i \in 1..Len(c.params) : ParamInScope(c.params[i])

Received(o, name) == LET idx == {i \in 1..Len(o.received) : o.received[i].name = name}
                     IN IF idx = {} THEN <<>> ELSE << o.received[CHOOSE i \in idx : TRUE].vs >>

HdrSeen(o, k) == LET idx == {i \in 1..Len(o.seen.hdrs) : o.seen.hdrs[i].k = k}
                 IN IF idx = {} THEN <<>> ELSE o.seen.hdrs[CHOOSE i \in idx : TRUE].vs

RequestAgrees(c, o) ==
  /\ o.handled_op = c.op                                                  \* that operation's handler is invoked
  /\ \A i \in 1..Len(c.params) : Received(o, c.params[i].name) = << c.params[i].vs >>   \* with the values supplied

ResponseInScope(h) ==
  /\ StatusInScope(h.code)
  /\ \A i \in 1..Len(h.hdrs) : \A j \in 1..Len(h.hdrs[i].vs) : InScope("header", h.hdrs[i].vs[j])

ResponseAgrees(o) ==
  /\ o.seen.code = o.handler.code
  /\ \A i \in 1..Len(o.handler.hdrs) : HdrSeen(o, o.handler.hdrs[i].k) = o.handler.hdrs[i].vs
  /\ o.seen.body = o.handler.body

ExchangeOK(c, o) ==
  CallInScope(c) =>
    /\ ~o.err
    /\ RequestAgrees(c, o)
    /\ ResponseInScope(o.handler) => ResponseAgrees(o)

WhyExchange(c, o) ==
  IF o.err THEN "client-error"
  ELSE IF o.handled_op # c.op THEN "other-operation-or-none-invoked"
  ELSE IF ~RequestAgrees(c, o)
       THEN LET i == CHOOSE j \in 1..Len(c.params) : Received(o, c.params[j].name) # << c.params[j].vs >>
            IN CASE c.params[i].loc = "path"   -> "received-differs-path"
                 [] c.params[i].loc = "query"  -> "received-differs-query"
                 [] c.params[i].loc = "header" -> "received-differs-header"
                 [] c.params[i].loc = "file"   -> "received-differs-file"
                 [] c.params[i].loc = "body"   -> "received-differs-body"
                 [] OTHER                      -> "received-differs-form"
  ELSE IF o.seen.code # o.handler.code THEN "status-differs"
  ELSE IF o.seen.body # o.handler.body THEN "response-body-differs"
  ELSE "response-header-differs"
=============================================================================
