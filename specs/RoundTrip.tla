------------------------------ MODULE RoundTrip ------------------------------
(***************************************************************************)
(* C04 - client and server agree.  The client half (client/request.go:     *)
(* url.PathEscape of path values, url.Values.Encode for query and          *)
(* urlencoded forms, multipart writer, producer for the body) composed     *)
(* with the server half (middleware/router.go: URL.EscapedPath, path.Clean, *)
(* trie match, PathUnescape of captured texts; middleware/parameter.go:    *)
(* URL.Query(), Header, ParseForm / ParseMultipartForm, consumer) and, for *)
(* the way back, Context.Respond -> net/http -> Runtime.Submit ->          *)
(* ClientResponse.                                                         *)
(*                                                                         *)
(* The module carries its own compact encode/decode tables per parameter   *)
(* location over byte strings (in MCRoundTrip a byte stands for its class; *)
(* in TraceRoundTrip they are the real bytes); the byte-level escaping      *)
(* primitives are those of ClientURL (my C10 module).                      *)
(*                                                                         *)
(*  Encode(loc, v)   what the client puts on the wire for value v          *)
(*  Transport(loc,w) what HTTP delivers (header fields lose optional       *)
(*                   white space around the value)                         *)
(*  Decode(loc, w)   what the server hands to the handler                  *)
(*  InScope(loc, v)  the values C04 quantifies over                        *)
(* Property: InScope(loc, v) => Decode(loc, Transport(loc, Encode(loc, v))) *)
(* = v, the operation reached is the one called, and the handler's status, *)
(* headers and body are what the client's reader sees.                     *)
(***************************************************************************)
EXTENDS Integers, Sequences, FiniteSets, TLC

CONSTANT Mutant    \* "none" | "plusinpath" (server decodes '+' in path segments) | "queryaspath" (client escapes
                   \* query values like path segments) | "noclean-exclusion" (dot segments claimed in scope) | "trimform"
                   \* | "rewind" (a seekable upload source is rewound to its start after sniffing)
                   \* | "staticmemo" (one MatchedRoute shared by all requests of a parameter-free route: its consumer sticks)
                   \* | "decodedkeycache" (Context-level route cache keyed by method + DECODED path)
                   \* | "formfromquery" (urlencoded form fields bound from request.Form = body values, then the URL's query values)
                   \* | "truncateonerror" (an upload source that fails while it is copied: logged, the part and the request are completed)
                   \* | "shortreadeof" (keep-alive body wrapper: the first short read is taken for the end of the response body)
                   \* | "sharedbound" (the bound parameters of the untyped handler are one variable per operation, not per request)
                   \* | "multipass" (client: placeholders substituted one after the other with ReplaceAll - substituted text is scanned again)
                   \* | "stripkey" (security.APIKeyAuth removes the accepted key from the request before the parameters are bound)
                   \* | "sharedcodecs" (client.New hands every Runtime the same Consumers / Producers maps)
                   \* | "defaultonempty" (a multi array's declared default also replaces the supplied list <<"">>)

U == INSTANCE ClientURL WITH Variant <- "fixed"

SLASH == 47  DOT == 46  SPACE == 32  TAB == 9  CR == 13  LF == 10  QUOTE == 34  BSLASH == 92

Locs == {"path", "query", "header", "urlform", "multiform"}

IsOWS(c) == c = SPACE \/ c = TAB
RECURSIVE TrimLeft(_)
TrimLeft(s) == IF s # <<>> /\ IsOWS(Head(s)) THEN TrimLeft(Tail(s)) ELSE s
RECURSIVE TrimRight(_)
TrimRight(s) == IF s # <<>> /\ IsOWS(s[Len(s)]) THEN TrimRight(SubSeq(s, 1, Len(s) - 1)) ELSE s
TrimOWS(s) == TrimRight(TrimLeft(s))

\* a field value net/http is willing to send (httpguts.ValidHeaderFieldValue): no control byte but HTAB
Sendable(s) == \A i \in 1..Len(s) : (s[i] >= 32 /\ s[i] # 127) \/ s[i] = TAB

---------------------------------------------------------------------------
(* the tables                                                              *)
Encode(loc, v) ==
  CASE loc = "path"      -> U!PathEscape(v)                   \* strings.NewReplacer(... url.PathEscape(v))
    [] loc = "query"     -> IF Mutant = "queryaspath" THEN U!PathEscape(v) ELSE U!QueryEscape(v)   \* url.Values.Encode
    [] loc = "urlform"   -> U!QueryEscape(v)                  \* r.formFields.Encode()
    [] loc = "header"    -> v                                 \* http.Header, verbatim
    [] loc = "multiform" -> v                                 \* multipart.Writer.WriteField, verbatim part body

Transport(loc, w) == IF loc = "header" THEN TrimOWS(w) ELSE w

\* [ok, v]
Decode(loc, w) ==
  CASE loc = "path"      -> IF U!ValidPct(w) THEN [ok |-> TRUE, v |-> U!PctDecode(w, Mutant = "plusinpath")]   \* url.PathUnescape
                            ELSE [ok |-> FALSE, v |-> <<>>]
    [] loc \in {"query", "urlform"} ->
                            IF U!ValidPct(w) THEN [ok |-> TRUE, v |-> U!PctDecode(w, TRUE)]    \* url.ParseQuery
                            ELSE [ok |-> FALSE, v |-> <<>>]
    [] loc = "header"    -> [ok |-> TRUE, v |-> w]
    [] loc = "multiform" -> [ok |-> TRUE, v |-> IF Mutant = "trimform" THEN TrimOWS(w) ELSE w]

\* C04's quantifier: path values that are empty or dot segments are outside (paths are normalised by
\* design); header values must be transportable (no CR/LF/control bytes, no blanks at either end)
InScope(loc, v) ==
  CASE loc = "path"   -> v # <<>> /\ (Mutant = "noclean-exclusion" \/ (v # <<DOT>> /\ v # <<DOT, DOT>>))
    [] loc = "header" -> Sendable(v) /\ TrimOWS(v) = v
    [] OTHER          -> TRUE

RoundTrips(loc, v) ==
  LET d == Decode(loc, Transport(loc, Encode(loc, v))) IN d.ok /\ d.v = v

---------------------------------------------------------------------------
(* routing of the request path: the server cleans the escaped path          *)
(* (path.Clean) and matches it against the template segment by segment;    *)
(* a template is a sequence of segments [k |-> "lit", s |-> bytes, n |-> ""] *)
(* or [k |-> "ph", s |-> <<>>, n |-> name]                                  *)
RECURSIVE CleanSegs(_, _)
CleanSegs(parts, acc) ==
  IF parts = <<>> THEN acc
  ELSE LET p == Head(parts) IN
       IF p = <<>> \/ p = <<DOT>> THEN CleanSegs(Tail(parts), acc)
       ELSE IF p = <<DOT, DOT>> THEN CleanSegs(Tail(parts), IF acc = <<>> THEN acc ELSE SubSeq(acc, 1, Len(acc) - 1))
       ELSE CleanSegs(Tail(parts), Append(acc, p))

\* wire segments of a call: literals verbatim, placeholders replaced by the encoded value
WireSegs(tmpl, vals) == [i \in 1..Len(tmpl) |-> IF tmpl[i].k = "lit" THEN tmpl[i].s ELSE Encode("path", vals[tmpl[i].n])]

\* buildHTTP escapes the template too, so the placeholder {n} is spelled %7Bn%7D - exactly like the escaped VALUE "{n}".  All
\* placeholders are substituted in ONE pass (strings.NewReplacer): a substituted value is never scanned again.  nb: name -> bytes;
\* order: the sequence in which the path parameters happen to be visited (they are kept in a map).
PhText(nb, n) == <<37, 55, 66>> \o nb[n] \o <<37, 55, 68>>
RECURSIVE Rescan(_, _, _, _)
Rescan(text, later, nb, vals) ==
  IF later = <<>> THEN text
  ELSE Rescan(U!ReplaceAll(text, PhText(nb, Head(later)), Encode("path", vals[Head(later)])), Tail(later), nb, vals)
After(order, n) == LET i == CHOOSE j \in 1..Len(order) : order[j] = n IN SubSeq(order, i + 1, Len(order))
WireSegsOrdered(tmpl, vals, nb, order) ==
  [i \in 1..Len(tmpl) |->
     IF tmpl[i].k = "lit" THEN tmpl[i].s
     ELSE IF Mutant = "multipass" THEN Rescan(Encode("path", vals[tmpl[i].n]), After(order, tmpl[i].n), nb, vals)   \* the later passes see it
     ELSE Encode("path", vals[tmpl[i].n])]
\* a wire segment can only be matched by a placeholder if it contains no separator
Matches(tmpl, segs) ==
  /\ Len(segs) = Len(tmpl)
  /\ \A i \in 1..Len(tmpl) : IF tmpl[i].k = "lit" THEN segs[i] = tmpl[i].s ELSE U!Index(segs[i], SLASH) = 0

\* what the server's route delivers for a call of the template with values vals (a function name -> bytes)
Routed(tmpl, vals) ==
  LET segs == CleanSegs(WireSegs(tmpl, vals), <<>>) IN
  IF Matches(tmpl, segs)
  THEN [found |-> TRUE,
        params |-> [n \in {tmpl[i].n : i \in {j \in 1..Len(tmpl) : tmpl[j].k = "ph"}} |->
                      LET i == CHOOSE j \in 1..Len(tmpl) : tmpl[j].k = "ph" /\ tmpl[j].n = n IN Decode("path", segs[i]).v]]
  ELSE [found |-> FALSE, params |-> <<>>]

NamesOf(tmpl) == {tmpl[i].n : i \in {j \in 1..Len(tmpl) : tmpl[j].k = "ph"}}
PathAgrees(tmpl, vals) ==
  (\A n \in NamesOf(tmpl) : InScope("path", vals[n])) =>
     LET r == Routed(tmpl, vals) IN r.found /\ \A n \in NamesOf(tmpl) : r.params[n] = vals[n]

\* what the server's route delivers for a call whose path was built that way
RoutedOrdered(tmpl, vals, nb, order) ==
  LET segs == CleanSegs(WireSegsOrdered(tmpl, vals, nb, order), <<>>) IN
  IF Matches(tmpl, segs) THEN [found |-> TRUE, segs |-> [i \in 1..Len(tmpl) |-> IF tmpl[i].k = "ph" THEN Decode("path", segs[i]).v ELSE <<>>]]
  ELSE [found |-> FALSE, segs |-> <<>>]
SubstAgrees(tmpl, vals, nb, order) ==
  LET r == RoutedOrdered(tmpl, vals, nb, order) IN
  r.found /\ \A i \in 1..Len(tmpl) : tmpl[i].k = "ph" => r.segs[i] = vals[tmpl[i].n]

---------------------------------------------------------------------------
(* request bodies that are strings: sent with one of the media types the   *)
(* operation consumes - as a JSON string (runtime.JSONProducer:            *)
(* json.Encoder.Encode) or verbatim (runtime.TextProducer) - and decoded   *)
(* by the consumer the server selects for the request.  A byte stands for  *)
(* itself; only '"' and '\' need escaping in the model's alphabet.         *)
BodyMedia == {"json", "text"}

JsonEscByte(c) == IF c = QUOTE \/ c = BSLASH THEN <<BSLASH, c>> ELSE <<c>>
JsonString(v)  == <<QUOTE>> \o U!Flatten([i \in 1..Len(v) |-> JsonEscByte(v[i])]) \o <<QUOTE, LF>>

BadBody == [ok |-> FALSE, v |-> <<>>]
RECURSIVE JsonUnesc(_)          \* the inside of a JSON string literal -> [ok, v]
JsonUnesc(s) ==
  IF s = <<>> THEN [ok |-> TRUE, v |-> <<>>]
  ELSE IF Head(s) = QUOTE THEN BadBody
  ELSE IF Head(s) = BSLASH
       THEN IF Len(s) >= 2 /\ s[2] \in {QUOTE, BSLASH}
            THEN LET r == JsonUnesc(SubSeq(s, 3, Len(s))) IN [ok |-> r.ok, v |-> IF r.ok THEN <<s[2]>> \o r.v ELSE <<>>]
            ELSE BadBody
  ELSE LET r == JsonUnesc(Tail(s)) IN [ok |-> r.ok, v |-> IF r.ok THEN <<Head(s)>> \o r.v ELSE <<>>]

JsonParseString(w) ==           \* json.Decoder.Decode into interface{} of a document that is a string
  LET t == IF w # <<>> /\ w[Len(w)] = LF THEN SubSeq(w, 1, Len(w) - 1) ELSE w IN
  IF Len(t) >= 2 /\ t[1] = QUOTE /\ t[Len(t)] = QUOTE THEN JsonUnesc(SubSeq(t, 2, Len(t) - 1)) ELSE BadBody

BodyEncode(mt, v) == IF mt = "json" THEN JsonString(v) ELSE v
BodyDecode(mt, w) == IF mt = "json" THEN JsonParseString(w) ELSE [ok |-> TRUE, v |-> w]

\* an empty text/plain body is no body at all (Content-Length 0): named deviation EmptyTextBodyIsAbsent
BodyInScope(mt, v) == mt = "text" => v # <<>>

---------------------------------------------------------------------------
(* upload sources.  A file is handed to SetFileParam as a reader that may  *)
(* already have been read from: src = [content, off, seekable, typed]      *)
(* (typed: it reports its own ContentType(), nothing is sniffed).  What    *)
(* the caller supplies is what REMAINS to be read.  The multipart writer   *)
(* reads up to SniffLen bytes to detect the content type and must chain    *)
(* them in front of the rest.                                              *)
Remaining(content, off) == SubSeq(content, off + 1, Len(content))
Min2(a, b) == IF a < b THEN a ELSE b

Uploaded(src, sniffLen) ==
  IF src.typed THEN Remaining(src.content, src.off)                        \* fileContentType = p.ContentType(); io.Copy(wrtr, fi)
  ELSE LET end     == Min2(src.off + sniffLen, Len(src.content))
           sniffed == SubSeq(src.content, src.off + 1, end)                 \* io.ReadFull(fi, buf)
           rest    == SubSeq(src.content, end + 1, Len(src.content))
       IN IF Mutant = "rewind" /\ src.seekable THEN src.content              \* Seek(0, io.SeekStart): the whole file
          ELSE sniffed \o rest                                              \* io.MultiReader(bytes.NewReader(buf[:size]), fi)

UploadAgrees(src, sniffLen) == Uploaded(src, sniffLen) = Remaining(src.content, src.off)

\* A source may FAIL (I/O error) once failat[1] of its remaining bytes have been read (failat = <<>>: it does not).  Whether the
\* failing read is the sniffing one (io.ReadFull) or the copy (io.Copy), the pipe feeding the request body is closed with the
\* error (logClose): the request cannot be completed and the caller is told.  -> [sent, bytes]
SourceFails(src) == src.failat # <<>> /\ src.failat[1] < Len(Remaining(src.content, src.off))
UploadOutcome(src, sniffLen) ==
  IF ~SourceFails(src) THEN [sent |-> TRUE, bytes |-> Uploaded(src, sniffLen)]
  ELSE IF Mutant = "truncateonerror" /\ (src.typed \/ src.failat[1] >= sniffLen)     \* the copy failed: log.Println(err); continue
       THEN [sent |-> TRUE, bytes |-> SubSeq(Remaining(src.content, src.off), 1, src.failat[1])]
       ELSE [sent |-> FALSE, bytes |-> <<>>]
\* C04 for an upload: delivered as supplied, or not delivered at all (the caller gets an error) - never a success with other bytes
UploadOutcomeOK(src, sniffLen) ==
  LET o == UploadOutcome(src, sniffLen) IN
  IF SourceFails(src) THEN ~o.sent ELSE o.sent /\ o.bytes = Remaining(src.content, src.off)

---------------------------------------------------------------------------
(* A secured operation whose apiKey is ALSO a declared parameter (same name *)
(* and location).  Context.Authorize runs the registered authenticator     *)
(* before the parameters are bound; security.APIKeyAuth reads the key      *)
(* (Header.Get / URL.Query().Get) and leaves the request as it is, so the  *)
(* parameter is bound like any other.  kvs = the header fields / query     *)
(* pairs of the request.                                                   *)
AfterAuthorize(kvs, key) == IF Mutant = "stripkey" THEN SelectSeq(kvs, LAMBDA e : e.k # key) ELSE kvs

---------------------------------------------------------------------------
(* Several Runtimes in one process.  client.New gives every Runtime codec  *)
(* tables (Consumers, Producers) of its OWN; the application may customise *)
(* one Runtime's tables by assignment.  tables: table id -> media ->       *)
(* codec name; a Runtime's table id is its own number (faithful) or 0, the *)
(* one package-level table (mutant "sharedcodecs").                        *)
CodecTable(rt) == IF Mutant = "sharedcodecs" THEN 0 ELSE rt
Customised(tables, rt, media, codec) == [tables EXCEPT ![CodecTable(rt)][media] = codec]      \* rt.Producers[media] = codec
CodecOf(tables, rt, media) == tables[CodecTable(rt)][media]                                   \* r.Producers[cmt]

---------------------------------------------------------------------------
(* formData parameters and the URL's query.  The query of the request URL  *)
(* carries the operation's query parameters and the STATIC parameters of   *)
(* the client's base path / path pattern; any of them may be named like a  *)
(* form field.  Fields of an urlencoded body are bound from the body       *)
(* (request.PostForm), of a multipart body from MultipartForm.Value: the   *)
(* query is no source for them.  kvs = Seq([k, v]).                        *)
RECURSIVE ValuesOf(_, _)
ValuesOf(kvs, name) == IF kvs = <<>> THEN <<>>
                       ELSE (IF Head(kvs).k = name THEN <<Head(kvs).v>> ELSE <<>>) \o ValuesOf(Tail(kvs), name)
FormSource(media, body, query, name) ==
  IF Mutant = "formfromquery" /\ media = "urlencoded" THEN ValuesOf(body, name) \o ValuesOf(query, name)     \* request.Form
  ELSE ValuesOf(body, name)
\* untypedParamBinder.bindValue: arrays take every value, scalars the last one
BindFormValue(kind, vals) == IF kind = "multi" \/ vals = <<>> THEN vals ELSE << vals[Len(vals)] >>
\* untypedParamBinder.setSliceFieldValue: the default declared in the description (def = <<>> none, else <<items>>) stands in for
\* an array the caller did not supply (no value at all); a list the caller did supply - also <<"">> - is bound as it is
BindMulti(def, data) ==
  LET none == data = <<>> \/ (Mutant = "defaultonempty" /\ data = << <<>> >>) IN
  IF def # <<>> /\ none THEN def[1] ELSE data
MultiAgrees(def, data) == data # <<>> => BindMulti(def, data) = data

FormReceived(media, kind, body, query, name) == BindFormValue(kind, FormSource(media, body, query, name))
FormAgrees(media, kind, body, query, name) == FormReceived(media, kind, body, query, name) = BindFormValue(kind, ValuesOf(body, name))

---------------------------------------------------------------------------
(* ONE server, MANY exchanges.  A server (middleware.Context + router) is  *)
(* built from a configuration and then serves a sequence of requests; a    *)
(* correct implementation remembers nothing but the configuration, so the  *)
(* outcome of a request does not depend on the requests served before.     *)
(*  operation o = [id, method, tmpl, consumes]  (consumes \subseteq        *)
(*                BodyMedia; {} = the operation has no body)               *)
(*  call c      = [op, vals : name -> bytes, media, body]                  *)
(*  request r   = [method, segs (escaped wire segments), ctype, body]      *)
(*  memory      = [routes, static] - empty for ever in the faithful model; *)
(*                the mutants keep looked-up routes in it                  *)
Mem0 == [routes |-> {}, static |-> {}]

OpOf(cfg, id) == CHOOSE o \in cfg : o.id = id

ClientRequest(cfg, c) ==
  LET o == OpOf(cfg, c.op) IN
  [method |-> o.method, segs |-> WireSegs(o.tmpl, c.vals), ctype |-> c.media,
   body |-> IF c.media = "none" THEN <<>> ELSE BodyEncode(c.media, c.body)]

PhIndex(tmpl, n) == CHOOSE j \in 1..Len(tmpl) : tmpl[j].k = "ph" /\ tmpl[j].n = n

NoRoute == [found |-> FALSE, op |-> "", params |-> <<>>]
\* defaultRouter.Lookup(method, URL.EscapedPath()): path.Clean, trie match, PathUnescape of the captured texts;
\* every request gets a FRESH MatchedRoute (no consumer resolved yet)
RouterLookup(cfg, method, segs) ==
  LET cl    == CleanSegs(segs, <<>>)
      cands == {o \in cfg : o.method = method /\ Matches(o.tmpl, cl)}
  IN IF cands = {} THEN NoRoute
     ELSE LET o == CHOOSE x \in cands : TRUE          \* the templates of a configuration are unambiguous (assumption)
          IN [found |-> TRUE, op |-> o.id, params |-> [n \in NamesOf(o.tmpl) |-> Decode("path", cl[PhIndex(o.tmpl, n)]).v]]

DecodedPath(segs) == U!JoinWith([i \in 1..Len(segs) |-> Decode("path", segs[i]).v], SLASH)       \* URL.Path

\* Context.LookupRoute -> [mem, route]
LookupRoute(mem, cfg, r) ==
  IF Mutant = "decodedkeycache"
  THEN LET key == <<r.method, DecodedPath(r.segs)>>
           hit == {e \in mem.routes : e.key = key}
       IN IF hit # {} THEN [mem |-> mem, route |-> (CHOOSE e \in hit : TRUE).route]
          ELSE LET rt == RouterLookup(cfg, r.method, r.segs)
               IN [mem |-> IF rt.found THEN [mem EXCEPT !.routes = @ \cup {[key |-> key, route |-> rt]}] ELSE mem, route |-> rt]
  ELSE [mem |-> mem, route |-> RouterLookup(cfg, r.method, r.segs)]

\* validation.contentType: the consumer is the one registered for THIS request's Content-Type -> [mem, consumer]
SelectConsumer(mem, route, r) ==
  IF r.ctype = "none" THEN [mem |-> mem, consumer |-> "none"]
  ELSE IF Mutant = "staticmemo" /\ DOMAIN route.params = {}
  THEN LET hit == {e \in mem.static : e.op = route.op}
       IN IF hit # {} THEN [mem |-> mem, consumer |-> (CHOOSE e \in hit : TRUE).consumer]     \* route.Consumer # nil: kept
          ELSE [mem |-> [mem EXCEPT !.static = @ \cup {[op |-> route.op, consumer |-> r.ctype]}], consumer |-> r.ctype]
  ELSE [mem |-> mem, consumer |-> r.ctype]

Refused == [handled |-> "", params |-> <<>>, body |-> <<>>]       \* 404 / 415 / 422: no handler is invoked
\* one request served -> [mem, out]
Serve(mem, cfg, r) ==
  LET lr == LookupRoute(mem, cfg, r) IN
  IF ~lr.route.found THEN [mem |-> lr.mem, out |-> Refused]
  ELSE LET sc == SelectConsumer(lr.mem, lr.route, r)
           b  == IF sc.consumer = "none" THEN [ok |-> TRUE, v |-> <<>>] ELSE BodyDecode(sc.consumer, r.body)    \* untypedParamBinder.Bind
       IN IF ~b.ok THEN [mem |-> sc.mem, out |-> Refused]
          ELSE [mem |-> sc.mem, out |-> [handled |-> lr.route.op, params |-> lr.route.params, body |-> b.v]]

\* CONCURRENT requests of one operation.  The untyped operation handler (newRoutableUntypedAPI) binds the request
\* (`bound, r, validation = context.BindAndValidate(r, route)`) and then invokes the application's handler with `bound`;
\* both variables belong to the request being served.  cells = where `bound` lives: one cell per request in flight
\* (faithful), or ONE cell per operation (mutant "sharedbound").
BoundCell(r) == IF Mutant = "sharedbound" THEN 0 ELSE r            \* cell 0: the one variable of the operation
BindInto(cells, r, v) == [cells EXCEPT ![BoundCell(r)] = v]           \* the assignment after BindAndValidate
HandlerGets(cells, r) == cells[BoundCell(r)]                          \* oh.Handle(bound)

\* C04 for one call of a session, whatever was served before
SessionCallInScope(c) == (\A n \in DOMAIN c.vals : InScope("path", c.vals[n])) /\ (c.media # "none" => BodyInScope(c.media, c.body))
SessionCallAgrees(c, out) == out.handled = c.op /\ out.params = c.vals /\ out.body = c.body

---------------------------------------------------------------------------
(* the way back: status, header fields, body                               *)
\* status codes a handler may pick that carry through unchanged: final responses other than
\* redirects (the client's http.Client follows 3xx) - named deviation RedirectsFollowed
StatusInScope(code) == code >= 200 /\ code <= 599 /\ ~(code >= 300 /\ code <= 399 /\ code # 304)
BodyAllowed(code) == code # 204 /\ code # 304

\* A handler may deliver its body in several pieces (writes followed by Flush); the client reads them as they arrive, so a
\* Read may return fewer bytes than asked long before the end.  With Runtime.EnableConnectionReuse() the body is wrapped by
\* drainingReadCloser, which passes every read through and only notes whether the end was reached.
BodyDelivered(pieces, reuse) ==
  IF Mutant = "shortreadeof" /\ reuse /\ Len(pieces) > 1 THEN pieces[1]      \* seenEOF on the first short read, then io.EOF
  ELSE U!Flatten(pieces)
BodyIntact(pieces, reuse) == BodyDelivered(pieces, reuse) = U!Flatten(pieces)

ResponseSeen(h) ==     \* h = [code, hdrs : Seq([k, vs]), body]
  [code |-> h.code, hdrs |-> [i \in 1..Len(h.hdrs) |-> [k |-> h.hdrs[i].k, vs |-> [j \in 1..Len(h.hdrs[i].vs) |-> Transport("header", h.hdrs[i].vs[j])]]],
   body |-> h.body]

---------------------------------------------------------------------------
(* The property on one observed exchange (TraceRoundTrip).                 *)
(*  c = the call: [op, media, params : Seq([name, loc, kind, vs, off])],   *)
(*      kind \in {"scalar", "multi", "file", "body", "strbody"};           *)
(*      vs = Seq(bytes) (scalar: one; body: <<canonical digest>>; strbody: *)
(*      <<the string>>; file: <<base name, content id>> where the content  *)
(*      id of a small upload source is the content of the underlying file  *)
(*      and off the position it was handed over at - the spec takes what   *)
(*      remains; of a large one the digest of the remaining bytes, off 0)  *)
(*      media = "json" | "text" | "urlencoded" | "multipart" | "none";     *)
(*      fails (files): the upload source fails before its end              *)
(*  o = the observation: [err, handled_op, invoked (handler invocations    *)
(*      that carried this call's values), received : Seq([name, vs]),      *)
(*      handler : [code, hdrs, body], seen : [code, hdrs, body]]           *)
ValueLoc(p) == IF p.loc \in {"file", "body"} THEN "multiform" ELSE p.loc    \* files and bodies travel verbatim

ParamInScope(c, p) ==
  /\ \A i \in 1..Len(p.vs) : InScope(ValueLoc(p), p.vs[i])
  /\ p.kind = "strbody" => c.media \in BodyMedia /\ BodyInScope(c.media, p.vs[1])
CallInScope(c)  == \A i \in 1..Len(c.params) : ParamInScope(c, c.params[i])

\* the values the caller supplied: of an upload source, what remained to be read
SuppliedVs(p) == IF p.kind = "file" THEN << p.vs[1], Remaining(p.vs[2], p.off) >> ELSE p.vs

Received(o, name) == LET idx == {i \in 1..Len(o.received) : o.received[i].name = name}
                     IN IF idx = {} THEN <<>> ELSE << o.received[CHOOSE i \in idx : TRUE].vs >>

HdrSeen(o, k) == LET idx == {i \in 1..Len(o.seen.hdrs) : o.seen.hdrs[i].k = k}
                 IN IF idx = {} THEN <<>> ELSE o.seen.hdrs[CHOOSE i \in idx : TRUE].vs

RequestAgrees(c, o) ==
  /\ o.handled_op = c.op /\ o.invoked = 1                                 \* that operation's handler is invoked (once)
  /\ \A i \in 1..Len(c.params) : Received(o, c.params[i].name) = << SuppliedVs(c.params[i]) >>   \* with the values supplied

ResponseInScope(h) ==
  /\ StatusInScope(h.code)
  /\ \A i \in 1..Len(h.hdrs) : \A j \in 1..Len(h.hdrs[i].vs) : InScope("header", h.hdrs[i].vs[j])

ResponseAgrees(o) ==
  /\ o.seen.code = o.handler.code
  /\ \A i \in 1..Len(o.handler.hdrs) : HdrSeen(o, o.handler.hdrs[i].k) = o.handler.hdrs[i].vs
  /\ o.seen.body = o.handler.body

\* a call one of whose upload sources fails cannot be completed: the caller must be told (named deviation
\* FailedSourceFailsTheCall; what the server made of the aborted request is not constrained)
CallFails(c) == \E i \in 1..Len(c.params) : c.params[i].fails

ExchangeOK(c, o) ==
  CallInScope(c) =>
    IF CallFails(c) THEN o.err
    ELSE /\ ~o.err
         /\ RequestAgrees(c, o)
         /\ ResponseInScope(o.handler) => ResponseAgrees(o)

WhyExchange(c, o) ==
  IF CallFails(c) THEN "success-although-upload-source-failed"
  ELSE IF o.err THEN "client-error"
  ELSE IF o.handled_op # c.op THEN "other-operation-or-none-invoked"
  ELSE IF o.invoked # 1 THEN "handler-not-invoked-exactly-once"
  ELSE IF ~RequestAgrees(c, o)
       THEN LET i == CHOOSE j \in 1..Len(c.params) : Received(o, c.params[j].name) # << SuppliedVs(c.params[j]) >>
            IN CASE c.params[i].loc = "path"   -> "received-differs-path"
                 [] c.params[i].loc = "query"  -> "received-differs-query"
                 [] c.params[i].loc = "header" -> "received-differs-header"
                 [] c.params[i].loc = "file"   -> "received-differs-file"
                 [] c.params[i].loc = "body"   -> "received-differs-body"
                 [] OTHER                      -> "received-differs-form"
  ELSE IF o.seen.code # o.handler.code THEN "status-differs"
  ELSE IF o.seen.body # o.handler.body THEN "response-body-differs"
  ELSE "response-header-differs"
=============================================================================
