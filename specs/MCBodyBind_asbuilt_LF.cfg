SPECIFICATION Spec
CONSTANTS
  AbsentBodyRule = TRUE
  ScalarTargets = TRUE
  NullIsNull = TRUE
  LibraryConforms = FALSE
  Thorough = FALSE
INVARIANTS PropertyHolds
CHECK_DEADLOCK FALSE
