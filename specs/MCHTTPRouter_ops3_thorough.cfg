SPECIFICATION Spec
CONSTANTS
  GuardReserved = TRUE
  GuardNul = TRUE
  UseEscapedPath = TRUE
  MaxOps = 3
  MaxSegs = 3
  Bases = {"/api", "/a"}
  TemplateIds = {"ax", "ab", "xb"}
  OpMethods = {"GET", "POST", "PUT"}
  ReqMethods = {"GET", "Post", "put", "DELETE"}
  SegIds = {"a", "b", "api", "a%2Fb"}
INVARIANTS PropertyHolds
CHECK_DEADLOCK FALSE
