SPECIFICATION Spec
CONSTANTS
  Mutant = "none"
INVARIANTS SubstAgreesMC KeyParamBoundMC OwnCodecsMC MultiAgreesMC
CHECK_DEADLOCK FALSE
