SPECIFICATION Spec
CONSTANTS
  Mutant = "none"
INVARIANTS SubstAgreesMC KeyParamBoundMC OwnCodecsMC
CHECK_DEADLOCK FALSE
