SPECIFICATION Spec
CONSTANTS
  GuardReserved = TRUE
  GuardNul = TRUE
  UseEscapedPath = FALSE
  MaxOps = 2
  MaxSegs = 3
  Bases = {"/api"}
  TemplateIds = {"a", "ax", "ab", "xb"}
  OpMethods = {"GET", "POST"}
  ReqMethods = {"GET", "get", "Post", "PUT"}
  SegIds = {"a", "b", "api", ":", "a%2Fb", "%25"}
INVARIANTS PropertyHolds
CHECK_DEADLOCK FALSE
