SPECIFICATION Spec
CONSTANTS
  OAuthEscapes = TRUE
  SpecRouteEscaped = FALSE
  MaxSegs = 4
  MaxPayload = 4
  SegIds = {"docs", "swagger.json", "api", "specs", "api.json", ".."}
  PayloadBytes = {97, 60, 62, 38, 34, 39, 43, 47, 92, 32}
INVARIANTS RoutingHolds EscapingHolds
CHECK_DEADLOCK FALSE
