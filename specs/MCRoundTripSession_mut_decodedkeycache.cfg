SPECIFICATION Spec
CONSTANTS
  Mutant = "decodedkeycache"
  PathAtoms = {97, 98, 47, 37}
  BodyAtoms = {97, 34, 92}
  MaxLenName = 3
  MaxLenBody = 0
  MaxSteps = 3
  MaxUpload = 6
  SniffLen = 2
INVARIANTS SessionAgrees UploadAgreesMC
CHECK_DEADLOCK FALSE
