SPECIFICATION Spec
CONSTANTS
  SharedField = "none"
  MemoBound = TRUE
  SampleKinds = FALSE
  MaxHist = 1000000
VIEW AbstractView
INVARIANT Memo
CHECK_DEADLOCK FALSE
