SPECIFICATION Spec
CONSTANTS
  SharedField = "none"
  MemoBound = TRUE
  MaxHist = 1000000
VIEW AbstractView
INVARIANT Memo
CHECK_DEADLOCK FALSE
