SPECIFICATION Spec
CONSTANTS
  SafeStore = TRUE
  CopyOnReuse = TRUE
  GuardTypedNil = TRUE
  BinMarshalerOpts = TRUE
CHECK_DEADLOCK FALSE
