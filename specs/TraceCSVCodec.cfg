SPECIFICATION Spec
CONSTANTS
  SafeStore = TRUE
  CopyOnReuse = TRUE
  GuardTypedNil = TRUE
  BinMarshalerOpts = TRUE
  ClonesCapLimited = TRUE
  ParseErrorWins = TRUE
  SharedSkipCounter = FALSE
CHECK_DEADLOCK FALSE
