SPECIFICATION Spec
CONSTANTS
  SafeStore = TRUE
  CopyOnReuse = TRUE
  GuardTypedNil = TRUE
  BinMarshalerOpts = TRUE
  ClonesCapLimited = TRUE
  ParseErrorWins = TRUE
  SharedSkipCounter = FALSE
  FreshStore = TRUE
  RewindsSeekable = FALSE
  FlagsReset = TRUE
  PipeClosedOnStop = TRUE
CHECK_DEADLOCK FALSE
