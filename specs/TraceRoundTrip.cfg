SPECIFICATION Spec
CONSTANTS Mutant = "none"
CHECK_DEADLOCK FALSE
