SPECIFICATION Spec
CONSTANTS
  Mutant = "none"
  StrictEmptyForm = TRUE
CHECK_DEADLOCK FALSE
