SPECIFICATION Spec
CONSTANTS
  Mutant = "none"
  StrictEmptyForm = FALSE
CHECK_DEADLOCK FALSE
