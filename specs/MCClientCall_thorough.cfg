SPECIFICATION Spec
CONSTANTS
  ClosesPipeOnBuildError = TRUE
  ClosesFilesOnParamsError = TRUE
  CopyMarksEndSeen = FALSE
  CancelsBeforeClose = FALSE
  ClosesFilesOnFieldError = TRUE
  FileLen = 2
  RespLen = 2
  ZeroLenReadSetsEOF = FALSE
  PNames = {"none", "buffer", "reader", "mp10", "mp01", "mp11", "mp02", "mp12"}
  Auths = {"none", "ok", "read"}
  Readers = {"all", "p0", "p1", "w1"}
  Cancels = {"none", "auth", "send", "read"}
  MaxFaults = 2
INVARIANTS InvResult InvReleased InvTime
PROPERTIES Terminates WriterDies FilesClosed
CHECK_DEADLOCK FALSE
