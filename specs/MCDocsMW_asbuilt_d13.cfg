SPECIFICATION Spec
CONSTANTS
  OAuthEscapes = FALSE
  SpecRouteEscaped = FALSE
  MaxSegs = 1
  MaxPayload = 3
  SegIds = {"docs"}
  PayloadBytes = {97, 60, 62, 38, 34, 39, 43, 47, 92, 32}
INVARIANTS EscapingHolds
CHECK_DEADLOCK FALSE
