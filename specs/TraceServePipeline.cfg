SPECIFICATION Spec
CONSTANTS
  SharedField = "none"
  MemoBound = TRUE
  SampleKinds = FALSE
CHECK_DEADLOCK FALSE
