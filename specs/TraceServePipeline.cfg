SPECIFICATION Spec
CONSTANTS
  SharedField = "none"
  MemoBound = TRUE
CHECK_DEADLOCK FALSE
