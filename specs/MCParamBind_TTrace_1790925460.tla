---- MODULE MCParamBind_TTrace_1790925460 ----
EXTENDS Sequences, TLCExt, Toolbox, MCParamBind, Naturals, TLC

_expression ==
    LET MCParamBind_TEExpression == INSTANCE MCParamBind_TEExpression
    IN MCParamBind_TEExpression!expression
----

_trace ==
    LET MCParamBind_TETrace == INSTANCE MCParamBind_TETrace
    IN MCParamBind_TETrace!trace
----

_inv ==
    ~(
        TLCGet("level") = Len(_TETrace)
        /\
        phase = ("done")
        /\
        d = ([type |-> "array", format |-> "", in |-> "formData", enc |-> "urlencoded", name |-> <<108, 105, 109>>, itype |-> "string", iformat |-> "uuid", cf |-> "multi", required |-> FALSE, hasdef |-> TRUE, def |-> <<>>, allowEmpty |-> FALSE, val |-> [k |-> "none", hasmin |-> FALSE, hasmax |-> FALSE, min |-> <<>>, max |-> <<>>, emin |-> FALSE, emax |-> FALSE, vals |-> <<>>, unique |-> FALSE]])
        /\
        req = ([pairs |-> <<[k |-> <<108, 105, 109>>, v |-> <<44>>, bare |-> FALSE, file |-> FALSE, fn |-> <<>>]>>, seg |-> <<>>, other |-> <<>>, oenc |-> ""])
    )
----

_init ==
    /\ req = _TETrace[1].req
    /\ d = _TETrace[1].d
    /\ phase = _TETrace[1].phase
----

_next ==
    /\ \E i,j \in DOMAIN _TETrace:
        /\ \/ /\ j = i + 1
              /\ i = TLCGet("level")
        /\ req  = _TETrace[i].req
        /\ req' = _TETrace[j].req
        /\ d  = _TETrace[i].d
        /\ d' = _TETrace[j].d
        /\ phase  = _TETrace[i].phase
        /\ phase' = _TETrace[j].phase

\* Uncomment the ASSUME below to write the states of the error trace
\* to the given file in Json format. Note that you can pass any tuple
\* to `JsonSerialize`. For example, a sub-sequence of _TETrace.
    \* ASSUME
    \*     LET J == INSTANCE Json
    \*         IN J!JsonSerialize("MCParamBind_TTrace_1790925460.json", _TETrace)

=============================================================================

 Note that you can extract this module `MCParamBind_TEExpression`
  to a dedicated file to reuse `expression` (the module in the 
  dedicated `MCParamBind_TEExpression.tla` file takes precedence 
  over the module `MCParamBind_TEExpression` below).

---- MODULE MCParamBind_TEExpression ----
EXTENDS Sequences, TLCExt, Toolbox, MCParamBind, Naturals, TLC

expression == 
    [
        \* To hide variables of the `MCParamBind` spec from the error trace,
        \* remove the variables below.  The trace will be written in the order
        \* of the fields of this record.
        req |-> req
        ,d |-> d
        ,phase |-> phase
        
        \* Put additional constant-, state-, and action-level expressions here:
        \* ,_stateNumber |-> _TEPosition
        \* ,_reqUnchanged |-> req = req'
        
        \* Format the `req` variable as Json value.
        \* ,_reqJson |->
        \*     LET J == INSTANCE Json
        \*     IN J!ToJson(req)
        
        \* Lastly, you may build expressions over arbitrary sets of states by
        \* leveraging the _TETrace operator.  For example, this is how to
        \* count the number of times a spec variable changed up to the current
        \* state in the trace.
        \* ,_reqModCount |->
        \*     LET F[s \in DOMAIN _TETrace] ==
        \*         IF s = 1 THEN 0
        \*         ELSE IF _TETrace[s].req # _TETrace[s-1].req
        \*             THEN 1 + F[s-1] ELSE F[s-1]
        \*     IN F[_TEPosition - 1]
    ]

=============================================================================



Parsing and semantic processing can take forever if the trace below is long.
 In this case, it is advised to uncomment the module below to deserialize the
 trace from a generated binary file.

\*
\*---- MODULE MCParamBind_TETrace ----
\*EXTENDS IOUtils, MCParamBind, TLC
\*
\*trace == IODeserialize("MCParamBind_TTrace_1790925460.bin", TRUE)
\*
\*=============================================================================
\*

---- MODULE MCParamBind_TETrace ----
EXTENDS MCParamBind, TLC

trace == 
    <<
    ([phase |-> "kind",d |-> [type |-> "string", format |-> "", in |-> "query", enc |-> "", name |-> <<108, 105, 109>>, itype |-> "", iformat |-> "", cf |-> "", required |-> FALSE, hasdef |-> FALSE, def |-> <<>>, allowEmpty |-> FALSE, val |-> [k |-> "none", hasmin |-> FALSE, hasmax |-> FALSE, min |-> <<>>, max |-> <<>>, emin |-> FALSE, emax |-> FALSE, vals |-> <<>>, unique |-> FALSE]],req |-> [pairs |-> <<>>, seg |-> <<>>, other |-> <<>>, oenc |-> ""]]),
    ([phase |-> "flags",d |-> [type |-> "array", format |-> "", in |-> "formData", enc |-> "urlencoded", name |-> <<108, 105, 109>>, itype |-> "string", iformat |-> "uuid", cf |-> "multi", required |-> FALSE, hasdef |-> FALSE, def |-> <<>>, allowEmpty |-> FALSE, val |-> [k |-> "none", hasmin |-> FALSE, hasmax |-> FALSE, min |-> <<>>, max |-> <<>>, emin |-> FALSE, emax |-> FALSE, vals |-> <<>>, unique |-> FALSE]],req |-> [pairs |-> <<>>, seg |-> <<>>, other |-> <<>>, oenc |-> ""]]),
    ([phase |-> "req",d |-> [type |-> "array", format |-> "", in |-> "formData", enc |-> "urlencoded", name |-> <<108, 105, 109>>, itype |-> "string", iformat |-> "uuid", cf |-> "multi", required |-> FALSE, hasdef |-> TRUE, def |-> <<>>, allowEmpty |-> FALSE, val |-> [k |-> "none", hasmin |-> FALSE, hasmax |-> FALSE, min |-> <<>>, max |-> <<>>, emin |-> FALSE, emax |-> FALSE, vals |-> <<>>, unique |-> FALSE]],req |-> [pairs |-> <<>>, seg |-> <<>>, other |-> <<>>, oenc |-> ""]]),
    ([phase |-> "done",d |-> [type |-> "array", format |-> "", in |-> "formData", enc |-> "urlencoded", name |-> <<108, 105, 109>>, itype |-> "string", iformat |-> "uuid", cf |-> "multi", required |-> FALSE, hasdef |-> TRUE, def |-> <<>>, allowEmpty |-> FALSE, val |-> [k |-> "none", hasmin |-> FALSE, hasmax |-> FALSE, min |-> <<>>, max |-> <<>>, emin |-> FALSE, emax |-> FALSE, vals |-> <<>>, unique |-> FALSE]],req |-> [pairs |-> <<[k |-> <<108, 105, 109>>, v |-> <<44>>, bare |-> FALSE, file |-> FALSE, fn |-> <<>>]>>, seg |-> <<>>, other |-> <<>>, oenc |-> ""]])
    >>
----


=============================================================================

---- CONFIG MCParamBind_TTrace_1790925460 ----
CONSTANTS
    NumberDefaultsToDouble = TRUE
    ArrayDefaultConverted = TRUE
    FormatDefaultParsed = TRUE
    HeaderCanonicalLookup = TRUE
    NamedStringValidated = TRUE
    RequiredFileIs422 = TRUE
    ItemFormatValidated = TRUE
    FormDataFromBodyOnly = TRUE
    Thorough = FALSE

INVARIANT
    _inv

CHECK_DEADLOCK
    \* CHECK_DEADLOCK off because of PROPERTY or INVARIANT above.
    FALSE

INIT
    _init

NEXT
    _next

CONSTANT
    _TETrace <- _trace

ALIAS
    _expression
=============================================================================
\* Generated on Fri Oct 02 07:18:07 UTC 2026