SPECIFICATION Spec
CONSTANTS
  Mutant = "authintoop"
  MaxSteps = 3
INVARIANT Holds
CHECK_DEADLOCK FALSE
