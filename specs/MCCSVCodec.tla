----------------------------- MODULE MCCSVCodec -----------------------------
(* Exhaustive small-scope check of CSVCodec (C16): for every record table    *)
(* (<= MaxRecs records of <= MaxFields fields), malformed marker, what the   *)
(* default-options parser would see instead, skipped-lines count 0..MaxRecs+1,*)
(* ReuseRecord, pre-population 0..MaxRecs+1 and every source / destination    *)
(* kind, the faithful model satisfies the property.                          *)
EXTENDS CSVCodec, TLC

CONSTANTS MaxRecs, MaxFields, FieldIds

Records == UNION { [1..n -> FieldIds] : n \in 1..MaxFields }
Tables  == UNION { [1..n -> Records] : n \in 0..MaxRecs }

VARIABLES phase, cfg, out
vars == <<phase, cfg, out>>

Init == phase = "table" /\ cfg = <<>> /\ out = <<>>

\* two steps (table first) so that TLC's workers share the configurations
PickTable == phase = "table" /\ \E t \in Tables : phase' = "rest" /\ cfg' = t /\ out' = <<>>

\* the default-options parse: the same, or something else (here: nothing and an error, or one merged record)
Alts(t, b) == { [table |-> t, bad |-> b], [table |-> <<>>, bad |-> TRUE] }
              \cup (IF t # <<>> THEN { [table |-> <<t[1]>>, bad |-> FALSE] } ELSE {})

PickRest ==
  /\ phase = "rest" /\ phase' = "done"
  /\ \E dir \in {"consume", "produce"}, bad \in BOOLEAN, skip \in 0..(MaxRecs + 1), reuse \in BOOLEAN, pre \in 0..(MaxRecs + 1) :
     \E kind \in (IF dir = "consume" THEN DstKinds ELSE SrcKinds), alt \in Alts(cfg, bad), tail \in BOOLEAN, stale \in BOOLEAN,
        whole \in { [table |-> cfg, bad |-> bad] } \cup { [table |-> <<r>> \o cfg, bad |-> bad] : r \in Records } :
       /\ tail => (bad /\ dir = "produce")
       /\ stale => (dir = "produce" /\ kind = "csvreader")
       /\ (dir = "consume" \/ kind \notin {"seekbytes", "seekstrings"}) => whole = [table |-> cfg, bad |-> bad]
       /\ (kind # "precords" \/ dir # "consume") => pre = 0
       /\ (dir = "produce" /\ kind \in {"records", "precords"}) => ~bad      \* a record table cannot be malformed
       /\ (dir = "consume" \/ (kind # "binm" /\ ~stale)) => alt = [table |-> cfg, bad |-> bad]
       /\ cfg' = [dir |-> dir, kind |-> kind, table |-> cfg, bad |-> bad, alt |-> alt, skip |-> skip, reuse |-> reuse, pre |-> pre, tail |-> tail,
                  stale |-> stale, whole |-> whole]
       /\ out' = Model(cfg')

(* one codec value used for two or three calls: first input = the table picked, then small ones / the same again *)
SmallTables == { t \in Tables : Len(t) <= 1 }
PickReuse ==
  /\ phase = "rest" /\ phase' = "reused"
  /\ \E dir \in {"consume", "produce"}, skip \in 0..(MaxRecs + 2), bad1 \in BOOLEAN, bad2 \in BOOLEAN, n \in {2, 3}, sv \in BOOLEAN :
     \E kind \in (IF dir = "consume" THEN DstSupported ELSE SrcSupported), t2 \in SmallTables \cup {cfg} :
       /\ (dir = "produce" /\ kind \in {"records", "precords"}) => (~bad1 /\ ~bad2)
       /\ sv => (dir = "consume" /\ kind = "precords" /\ ~bad1 /\ ~bad2)
       /\ LET calls == IF n = 2 THEN <<[table |-> cfg, bad |-> bad1], [table |-> t2, bad |-> bad2]>>
                       ELSE <<[table |-> cfg, bad |-> bad1], [table |-> t2, bad |-> bad2], [table |-> cfg, bad |-> FALSE]>>
          IN cfg' = [dir |-> dir, kind |-> kind, table |-> <<>>, bad |-> FALSE, alt |-> [table |-> <<>>, bad |-> FALSE],
                     skip |-> skip, reuse |-> FALSE, pre |-> 0, tail |-> FALSE, calls |-> calls, samevar |-> sv]
       /\ out' = ReuseModel(cfg')

Next == PickTable \/ PickRest \/ PickReuse
Spec == Init /\ [][Next]_vars

PropertyHolds == /\ phase = "done" => Allowed(cfg, out)
                 /\ (phase = "done" /\ Supported(cfg)) => StressAllowed(cfg, 3, StressModel(cfg, 3))
                 /\ phase = "reused" => ReuseAllowed(cfg, out)

\* non-vacuity witnesses (each checked to be violated during development)
NeverPartial == ~(phase = "done" /\ out.err # "none" /\ out.delivered # <<>>)
NeverSkipAll == ~(phase = "done" /\ cfg.skip > Len(cfg.table) /\ out.err = "none" /\ cfg.table # <<>>)
=============================================================================
