SPECIFICATION Spec
CONSTANTS
  BufSize = 4096
  MaxEmptyReads = 100
  NilCloseGuarded = TRUE
CHECK_DEADLOCK FALSE
