SPECIFICATION Spec
CONSTANTS
  BufSize = 4096
  MaxEmptyReads = 100
  NilCloseGuarded = FALSE
CHECK_DEADLOCK FALSE
