SPECIFICATION Spec
CONSTANTS
  Mutant = "memoised"
  MaxLen = 6
INVARIANTS ValidateIsCurrent
CHECK_DEADLOCK FALSE
