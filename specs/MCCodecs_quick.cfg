SPECIFICATION Spec
CONSTANTS
  BufSize = 4096
  MaxEmptyReads = 100
  NilCloseGuarded = TRUE
  GuardTypedNil = TRUE
  CloseOnNilPayload = TRUE
  PooledBuffer = FALSE
  UEOFIsEnd = FALSE
  ZeroCopyBuffer = FALSE
  SeqReaders = {"script", "bytesbuffer", "bytesreader", "stringsreader"}
  SeqDeepReaders = {"script"}
  MaxSeq = 3
  MaxContent = 2
  MaxChunks = 3
  MaxChunk = 2
INVARIANTS PropertyHolds
CHECK_DEADLOCK FALSE
