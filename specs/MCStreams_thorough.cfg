SPECIFICATION Spec
CONSTANTS
  BufSize = 2
  MaxEmptyReads = 100
  NilCloseGuarded = TRUE
  MaxContent = 3
  MaxChunks = 3
  MaxChunk = 3
  ReadSizes = {0, 1, 2, 3}
  MaxHist = 6
  MaxConds = 1
  OneShots = {"eof", "err"}
  CloseErrs = {FALSE, TRUE}
CONSTRAINT Bound
INVARIANTS StepsAllowed StateInv
CHECK_DEADLOCK FALSE
