SPECIFICATION Spec
CONSTANTS
  SafeStore = TRUE
  CopyOnReuse = TRUE
  GuardTypedNil = TRUE
  BinMarshalerOpts = FALSE
  ClonesCapLimited = TRUE
  ParseErrorWins = TRUE
  SharedSkipCounter = FALSE
  FreshStore = TRUE
  RewindsSeekable = FALSE
  FlagsReset = TRUE
  PipeClosedOnStop = TRUE
  MaxRecs = 2
  MaxFields = 2
  FieldIds = {1, 2}
INVARIANTS PropertyHolds
CHECK_DEADLOCK FALSE
