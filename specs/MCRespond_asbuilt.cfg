SPECIFICATION Spec
CONSTANTS
  ProducerLookupNormalised = FALSE
  MaxProduces = 2
INVARIANTS PropertyHolds NegotiationSound
CHECK_DEADLOCK FALSE
