--------------------------- MODULE GenClientCall ---------------------------
(* TG: exports every fault script of the bounded model as ndjson (one      *)
(* script per line) for replay on the real client.Runtime.Submit.          *)
(*  - every base script of (PNames x reuse x Auths x Readers) with no or   *)
(*    exactly one fault, and with each cancel point alone;                 *)
(*  - cancel points crossed with one fault and all two-fault scripts over  *)
(*    the (smaller) base space P2Names x reuse x Auths2 x Readers2.        *)
EXTENDS ClientCall, Json, IOUtils, SequencesExt

CONSTANTS PNames, Auths, Readers, Cancels, P2Names, Auths2, Readers2, Cancels2

VARIABLE x

Plain    == BaseScripts(PNames, Auths, Readers, {"none"})
OneFault == UNION { FaultOptions(b) : b \in Plain }
CancelAlone == BaseScripts(PNames, Auths, Readers, Cancels \ {"none"})

Plain2   == BaseScripts(P2Names, Auths2, Readers2, Cancels2)
One2     == UNION { FaultOptions(b) : b \in Plain2 }
Two2     == UNION { FaultOptions(b) : b \in One2 }

Scripts == Plain \cup OneFault \cup CancelAlone \cup { b \in Plain2 \cup One2 : b.cancel # "none" } \cup Two2

ASSUME ndJsonSerialize(IOEnv.OUT_FILE, SetToSeq(Scripts))
ASSUME PrintT(<<"scripts", Cardinality(Scripts)>>)

Init == x = 0
Next == UNCHANGED x
Spec == Init /\ [][Next]_x
=============================================================================
