---------------------------- MODULE TraceCommon ----------------------------
(* Never-blocking trace consumer shared by every Trace<Module> spec.        *)
(* A trace is a concatenation of cases: a "reset" line followed by the      *)
(* case's events.  Every line is consumed exactly once.  When the module's  *)
(* TAllowed(st, e) is FALSE the case is recorded in `fails`; if TStateful   *)
(* the rest of the case is skipped (the model state after a rejected event  *)
(* is unknown).  At the end a Finish step writes the result as JSON.        *)
EXTENDS Naturals, Sequences, TLC, Json, IOUtils

CONSTANTS TInit(_),        \* reset event  -> model state
          TAllowed(_, _),  \* (state, event) -> BOOLEAN
          TStep(_, _),     \* (state, event) -> next model state
          TWhy(_, _),      \* (state, event) -> string (why rejected)
          TStateful,       \* BOOLEAN: skip rest of a case after a rejection
          Trace            \* the deserialised trace (bound by the instantiating module so that TLC caches it)

VARIABLES l, st, skipping, fails, cs

tvars == <<l, st, skipping, fails, cs>>

N == Len(Trace)

Init == /\ l = 1 /\ st = <<>> /\ skipping = TRUE /\ fails = <<>> /\ cs = "none"

Consume ==
  /\ l <= N
  /\ l' = l + 1
  /\ LET e == Trace[l] IN
     IF e.ev = "reset"
     THEN /\ st' = TInit(e) /\ skipping' = FALSE /\ cs' = e.case /\ fails' = fails
     ELSE IF skipping THEN UNCHANGED <<st, skipping, fails, cs>>
     ELSE IF e.ev = "crash"   \* the code under test killed the driver's worker process (fatal error, unrecoverable panic)
          THEN /\ fails' = Append(fails, [case |-> cs, line |-> l, why |-> "crash"])
               /\ skipping' = TRUE
               /\ UNCHANGED <<st, cs>>
     ELSE IF TAllowed(st, e)
          THEN /\ st' = TStep(st, e) /\ UNCHANGED <<skipping, fails, cs>>
          ELSE /\ fails' = Append(fails, [case |-> cs, line |-> l, why |-> TWhy(st, e)])
               /\ skipping' = TStateful
               /\ UNCHANGED <<st, cs>>

Finish ==
  /\ l = N + 1
  /\ l' = N + 2
  /\ JsonSerialize(IOEnv.OUT_FILE, [consumed |-> N, fails |-> fails])
  /\ UNCHANGED <<st, skipping, fails, cs>>

Next == Consume \/ Finish
Spec == Init /\ [][Next]_tvars
=============================================================================
