SPECIFICATION Spec
CONSTANTS
  Mutant = "ignore-op-lists"
  MaxOps = 1
  WithUpperCaseDesc = TRUE
  WithNoContent = TRUE
  SmallSec = FALSE
INVARIANTS ServingConsequence
CHECK_DEADLOCK FALSE
