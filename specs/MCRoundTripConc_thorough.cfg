SPECIFICATION Spec
CONSTANTS
  Mutant = "none"
  NReq = 5
INVARIANT EachGetsItsOwn
CHECK_DEADLOCK FALSE
