SPECIFICATION Spec
CONSTANTS
  GuardReserved = TRUE
  GuardNul = TRUE
  UseEscapedPath = TRUE
  MaxOps = 2
  MaxSegs = 3
  Bases = {"/api"}
  TemplateIds = {"ak=x", "vxy", "k=xb", "ax"}
  OpMethods = {"GET", "POST"}
  ReqMethods = {"get", "POST"}
  SegIds = {"a", "api", "k=:", "k=a", "k=", "v:", "v"}
INVARIANTS PropertyHolds
CHECK_DEADLOCK FALSE
