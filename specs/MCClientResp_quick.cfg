SPECIFICATION Spec
CONSTANTS
  Types = {"application/json", "text/plain", "application/xml"}
  NCallers = 3
  OnceIsNilCheck = FALSE
INVARIANTS InvCtx InvPick InvOwn InvOneClient
PROPERTIES AllDone
CHECK_DEADLOCK FALSE
