SPECIFICATION Spec
CONSTANTS
  Types = {"application/json", "text/plain", "application/xml"}
  NCallers = 4
  RecyclesWrappers = FALSE
  SharedDefaults = FALSE
  MaxOps = 4
  SharedCloser = FALSE
  OnceIsNilCheck = FALSE
INVARIANTS InvIsolated InvBody InvStutter InvCtx InvWire InvRetained InvPick InvOwn InvOneClient
PROPERTIES AllDone
CHECK_DEADLOCK FALSE
