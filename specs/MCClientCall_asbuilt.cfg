SPECIFICATION Spec
CONSTANTS
  ClosesPipeOnBuildError = FALSE
  ClosesFilesOnParamsError = TRUE
  CopyMarksEndSeen = FALSE
  CancelsBeforeClose = FALSE
  ClosesFilesOnFieldError = TRUE
  FileLen = 2
  RespLen = 2
  ZeroLenReadSetsEOF = FALSE
  PNames = {"mp01", "mp11"}
  Auths = {"none", "ok", "read"}
  Readers = {"all"}
  Cancels = {"none"}
  MaxFaults = 1
INVARIANTS InvReleased
CHECK_DEADLOCK FALSE
