SPECIFICATION Spec
CONSTANTS Mutant = "none"
INVARIANTS PropertyHolds NoSilentSkip UntrustedCA NeverOldTLS CertPresented StableIdentity
CHECK_DEADLOCK FALSE
