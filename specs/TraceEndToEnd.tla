--------------------------- MODULE TraceEndToEnd ---------------------------
(* G03 (growth): the serving pipeline's refusal classes and their precedence *)
(* as the CLIENT transport's response reader sees them.  One exchange per    *)
(* case: a real client.Runtime submits the request kind to an httptest.Server*)
(* serving the C09 test API; the status, media type and data handed to the  *)
(* reader must be those ServePipeline computes for the request.             *)
EXTENDS ServePipeline, Json, IOUtils

VARIABLES l, st, skipping, fails, cs

EInit(e) == [in |-> e.req]

EAllowed(x, e) ==
  /\ e.ev = "exchange"
  /\ e.err = ""                                  \* the reader was reached: no transport-level failure
  /\ e.status = Status(x.in)
  /\ IF Status(x.in) = "200"
     THEN e.ctype = x.in.accept /\ e.data = DataOf(x.in)
     ELSE e.ctype = "json" /\ e.data = "err"

EWhy(x, e) == IF e.err # "" THEN "client call failed"
              ELSE IF e.status # Status(x.in) THEN "status differs from the pipeline's refusal precedence"
              ELSE "media type or data differs"

EStep(x, e) == x

TheTrace == ndJsonDeserialize(IOEnv.TRACE_FILE)
TC == INSTANCE TraceCommon WITH TInit <- EInit, TAllowed <- EAllowed, TStep <- EStep, TWhy <- EWhy,
                                TStateful <- FALSE, Trace <- TheTrace
Spec == TC!Spec
=============================================================================
