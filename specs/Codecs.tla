------------------------------- MODULE Codecs -------------------------------
(***************************************************************************)
(* Built-in codecs of go-openapi/runtime (C15): bytestream.go, text.go,    *)
(* json.go, xml.go, yamlpc/yaml.go.                                        *)
(*                                                                         *)
(* Part A  stream behaviour of the byte-stream and text codecs.            *)
(*   - faithful model: BSConsume / TextConsume / BSProduce / TextProduce,  *)
(*     one branch per branch of the code, in the code's dispatch order,    *)
(*     over the scripted readers of Streams (section 1) and scripted       *)
(*     writers ("accept k bytes, then fail");                              *)
(*   - property: ConsumeAllowed / ProduceAllowed, stated over the          *)
(*     configuration and the observable outcome only.                      *)
(* Part B  value round trip: Consume_c(Produce_c(v)) = v over an           *)
(*     enumerated value grammar (the model is the identity; TLC adds the   *)
(*     enumeration and the comparison, see DESIGN 4.15), and truncated     *)
(*     documents yield an error.                                           *)
(*                                                                         *)
(* Byte strings are "blobs" [n, h, b]: length, SHA-256 (large contents in  *)
(* traces; "" otherwise) and the bytes (small contents; <<>> otherwise),   *)
(* so that the same operators serve MC (explicit bytes) and TV.            *)
(***************************************************************************)
EXTENDS Streams

CONSTANTS GuardTypedNil,      \* TRUE: typed-nil pointer payloads/destinations yield an error (normative)
                              \* FALSE: as-built, reflect on the zero Value / nil dereference panics (finding D10)
          CloseOnNilPayload,  \* TRUE: with ClosesStream the stream is closed even when the payload/destination is nil (normative)
                              \* FALSE: as-built, the nil check returns before the closer is installed
          PooledBuffer,       \* FALSE: every Consume reads into its own fresh bytes.Buffer (the code)
                              \* TRUE: mutated model, the intermediate buffer is shared between calls (sync.Pool)
          ZeroCopyBuffer,     \* FALSE: a bytes.Buffer reader is read like any other reader, into a fresh buffer (the code)
                              \* TRUE: mutated model, its unread bytes are taken without copying (reader.Next(reader.Len()))
          UEOFIsEnd           \* FALSE: only io.EOF itself ends a stream (bytes.Buffer.ReadFrom: e == io.EOF) (the code)
                              \* TRUE: mutated model, io.ErrUnexpectedEOF from the reader is taken for the end of the stream

Blob(seq) == [n |-> Len(seq), h |-> "", b |-> seq]
EmptyBlob == Blob(<<>>)
OldBytes  == <<111, 108, 100>>           \* "old": initial content of pre-populated destinations

(***************************************************************************)
(* Scripted writer: ws = [accept, closable]; accept = -1: never fails.     *)
(* A Write that would exceed `accept` stores what fits and fails.          *)
(***************************************************************************)
WrInit == [got |-> <<>>, writes |-> 0]
WrWrite(accept, wst, bytes) ==
  IF accept = -1 \/ Len(wst.got) + Len(bytes) <= accept
  THEN [n |-> Len(bytes), err |-> "none", wst |-> [got |-> wst.got \o bytes, writes |-> wst.writes + 1]]
  ELSE LET m == IF accept > Len(wst.got) THEN accept - Len(wst.got) ELSE 0
       IN [n |-> m, err |-> "werr", wst |-> [got |-> wst.got \o Take(bytes, m), writes |-> wst.writes + 1]]

BigBuf == 512     \* bytes.Buffer.ReadFrom's MinRead; larger than every chunk of the small scope
CopyBuf == 32768  \* io.Copy's buffer

(* The reader handed to a codec is the scripted stream itself, or - rkind   *)
(* "peeked" - the body runtime.HasBody left in the request: the PeekBody     *)
(* state machine of Streams (section 3) after one HasBody step, read with    *)
(* DoRead.  rs = [peeked, rd, s].                                           *)
RK(c) == IF "rkind" \in DOMAIN c THEN c.rkind ELSE "reader"
RsInit(c) ==
  IF RK(c) = "peeked"
  THEN [peeked |-> TRUE, rd |-> RdInit, s |-> Step(InitState(c.sc, "absent", FALSE), [a |-> "has", k |-> 0])]
  ELSE [peeked |-> FALSE, rd |-> RdInit, s |-> <<>>]
RsRead(sc, rs, k) ==
  IF rs.peeked
  THEN LET t == DoRead(rs.s, k) IN [n |-> t.ret.n, bytes |-> t.ret.bytes, err |-> t.ret.err, rs |-> [rs EXCEPT !.s = t]]
  ELSE LET r == RdRead(sc, rs.rd, k) IN [n |-> r.n, bytes |-> r.bytes, err |-> r.err, rs |-> [rs EXCEPT !.rd = r.rd]]

(* bytes.Buffer.ReadFrom / an io.ReaderFrom reading to the end: Read until *)
(* an error; io.EOF is success                                             *)
RECURSIVE ReadAllLoop(_, _, _)
ReadAllLoop(sc, rs, acc) ==
  LET r == RsRead(sc, rs, BigBuf) IN
  IF r.err = "eof" THEN [bytes |-> acc \o r.bytes, err |-> "none"]
  ELSE IF r.err # "none" THEN [bytes |-> acc \o r.bytes, err |-> "rerr"]
  ELSE ReadAllLoop(sc, r.rs, acc \o r.bytes)
ReadAll(c) == ReadAllLoop(c.sc, RsInit(c), <<>>)

(* The IDENTITY of the error a failing stream returns (cfg field ekind,     *)
(* absent = "custom"): whatever it is - io.ErrUnexpectedEOF, an error       *)
(* wrapping io.EOF or io.ErrUnexpectedEOF, io.ErrClosedPipe,                *)
(* context.Canceled, an application error - it is an error; only io.EOF     *)
(* itself is the end of a stream.                                           *)
ErrKinds == {"custom", "ueof", "ueofwrap", "eofwrap", "closedpipe", "canceled"}
EKind(c) == IF "ekind" \in DOMAIN c THEN c.ekind ELSE "custom"

(* buf.ReadFrom(reader) of the buffered path *)
ReadAllBuffered(c) ==
  LET r == ReadAll(c) IN
  IF r.err = "rerr" /\ UEOFIsEnd /\ EKind(c) \in {"ueof", "ueofwrap"} THEN [bytes |-> r.bytes, err |-> "none"] ELSE r

(* io.Copy's generic loop: write what was read, then look at the read error *)
RECURSIVE CopyLoop(_, _, _, _)
CopyLoop(sc, rs, accept, wst) ==
  LET r == RsRead(sc, rs, CopyBuf)
      w == IF r.n > 0 THEN WrWrite(accept, wst, r.bytes) ELSE [n |-> 0, err |-> "none", wst |-> wst]
  IN IF w.err # "none" THEN [got |-> w.wst.got, err |-> "werr"]
     ELSE IF r.err = "eof" THEN [got |-> w.wst.got, err |-> "none"]
     ELSE IF r.err # "none" THEN [got |-> w.wst.got, err |-> "rerr"]
     ELSE CopyLoop(sc, r.rs, accept, w.wst)
Copy(c, accept) == CopyLoop(c.sc, RsInit(c), accept, WrInit)

(* the harness' io.WriterTo: writes its chunks one by one, stops at the    *)
(* first write error, finally returns its own terminal error if any        *)
RECURSIVE WriteToLoop(_, _, _, _, _)
WriteToLoop(sc, i, off, accept, wst) ==
  IF i > Len(sc.chunks) THEN [got |-> wst.got, err |-> IF sc.term = "err" THEN "rerr" ELSE "none"]
  ELSE LET w == WrWrite(accept, wst, SubSeq(sc.content, off + 1, off + sc.chunks[i]))
       IN IF w.err # "none" THEN [got |-> w.wst.got, err |-> "werr"]
          ELSE WriteToLoop(sc, i + 1, off + sc.chunks[i], accept, w.wst)
WriteTo(sc, accept) == WriteToLoop(sc, 1, 0, accept, WrInit)

(***************************************************************************)
(* Consumers.                                                              *)
(*  c = [codec, sc, content, term, ekind, rkind, closeOpt, dst, pre, wacc, *)
(*       uerr]   ekind: identity of the reader's error when term = "err"   *)
(*    sc     reader script (used by the model only); content = Blob of its *)
(*           bytes and term = its terminal condition (used by the property)*)
(*    codec  "bytes" | "text"                                              *)
(*    rkind  "reader" | "readcloser" | "nil" | "peeked" (the request body   *)
(*           as runtime.HasBody leaves it: a peekingReader, closable)      *)
(*    dst    destination kind (below); pre: pre-populated ("old") or fresh *)
(*    wacc   accept limit of a writer destination; uerr: the unmarshaler   *)
(*           destination returns an error                                  *)
(*  outcome o = [err, stored, rcloses, panic]                              *)
(***************************************************************************)
ClosableReaders == {"readcloser", "peeked"}
BytesDst == {"readerfrom", "rfwriter", "writer", "binunm", "pstring", "pbytes", "pnstring", "pnbytes",
             "anystring", "anybytes", "anyint", "anynil", "value", "pint", "pstruct",
             "nilpstring", "nilpbytes", "nilpany", "nil"}
BytesDstSupported == {"readerfrom", "rfwriter", "writer", "binunm", "pstring", "pbytes", "pnstring", "pnbytes",
                      "anystring", "anybytes"}
TextDst == {"textunm", "pstring", "pnstring", "pbytes", "pany", "value", "pint", "nilpstring", "nil"}
TextDstSupported == {"textunm", "pstring", "pnstring"}
StreamDst == {"readerfrom", "rfwriter", "writer"}       \* receive into an initially empty sink
NoContentDst == {"value", "pint", "pstruct", "nil", "nilpstring", "nilpbytes", "nilpany", "anyint", "anynil", "pany"}

PreOf(c) == IF c.dst \in StreamDst \cup NoContentDst \cup {"binunm", "textunm"} THEN <<>>
            ELSE IF c.pre THEN OldBytes ELSE <<>>

COut(err, stored, rcloses, panic) == [err |-> err, stored |-> Blob(stored), rcloses |-> rcloses, panic |-> panic]

TypedNil(pre, cl) == IF GuardTypedNil THEN COut("other", pre, cl, FALSE) ELSE COut("none", pre, 0, TRUE)

BSConsume(c) ==
  LET pre == PreOf(c)
      cl  == IF c.closeOpt /\ c.rkind \in ClosableReaders THEN 1 ELSE 0
  IN
  IF c.rkind = "nil" THEN COut("other", pre, 0, FALSE)                        \* reader == nil
  ELSE IF c.dst = "nil" THEN COut("other", pre, IF CloseOnNilPayload THEN cl ELSE 0, FALSE)   \* data == nil
  ELSE IF c.dst \in {"readerfrom", "rfwriter"} THEN                           \* io.ReaderFrom first
       LET r == ReadAll(c) IN COut(r.err, r.bytes, cl, FALSE)
  ELSE IF c.dst = "writer" THEN                                               \* io.Writer: io.Copy
       LET r == Copy(c, c.wacc) IN COut(r.err, r.got, cl, FALSE)
  ELSE LET r == ReadAllBuffered(c) IN                                         \* buf.ReadFrom(reader)
       IF r.err # "none" THEN COut("rerr", pre, cl, FALSE)
       ELSE CASE c.dst = "binunm" -> IF c.uerr THEN COut("uerr", pre, cl, FALSE) ELSE COut("none", r.bytes, cl, FALSE)
              [] c.dst \in {"anystring", "anybytes"} -> COut("none", r.bytes, cl, FALSE)
              [] c.dst \in {"anyint", "anynil"} -> COut("other", pre, cl, FALSE)     \* falls through to "not supported"
              [] c.dst = "nilpany" -> TypedNil(pre, cl)                              \* (*destinationPointer).(type) on nil
              [] c.dst = "value" -> COut("other", pre, cl, FALSE)                   \* destination must be a pointer
              [] c.dst \in {"nilpstring", "nilpbytes"} -> TypedNil(pre, cl)          \* reflect.Indirect(nil ptr).Type()
              [] c.dst \in {"pbytes", "pnbytes", "pstring", "pnstring"} -> COut("none", r.bytes, cl, FALSE)
              [] OTHER -> COut("other", pre, cl, FALSE)                             \* pint, pstruct

TextConsume(c) ==
  LET pre == PreOf(c) IN
  IF c.rkind = "nil" THEN COut("other", pre, 0, FALSE)
  ELSE LET r == ReadAllBuffered(c) IN
       IF r.err # "none" THEN COut("rerr", pre, 0, FALSE)
       ELSE IF r.bytes = <<>> THEN COut("none", pre, 0, FALSE)                      \* EmptyTextNoop
       ELSE CASE c.dst = "textunm" -> IF c.uerr THEN COut("uerr", pre, 0, FALSE) ELSE COut("none", r.bytes, 0, FALSE)
              [] c.dst = "nil" -> COut("other", pre, 0, FALSE)
              [] c.dst \in {"pstring", "pnstring"} -> COut("none", r.bytes, 0, FALSE)
              [] c.dst = "nilpstring" -> TypedNil(pre, 0)                            \* SetString on the zero Value
              [] OTHER -> COut("other", pre, 0, FALSE)

Consume(c) == IF c.codec = "bytes" THEN BSConsume(c) ELSE TextConsume(c)

(* ---- the property, consumers ----------------------------------------- *)
(* EmptyTextNoop (named deviation, deliberate in the code): the text       *)
(* consumer returns nil and leaves ANY destination untouched when the      *)
(* input is empty.                                                         *)
EmptyTextNoop(c) == c.codec = "text" /\ c.content.n = 0 /\ c.term = "eof"

DstSupported(c) == IF c.codec = "bytes" THEN c.dst \in BytesDstSupported ELSE c.dst \in TextDstSupported

ConsumeFault(c) ==
  \/ c.term = "err"                                                           \* read error at some offset
  \/ c.dst = "writer" /\ c.wacc # -1 /\ c.wacc < c.content.n                  \* write error
  \/ c.dst \in {"binunm", "textunm"} /\ c.uerr                                \* the destination refuses the bytes

ConsumeRegular(c, o) ==
  IF ~DstSupported(c) THEN o.err # "none"                                     \* unsupported / nil / typed-nil / wrong shape
  ELSE IF ConsumeFault(c) THEN o.err # "none"                                 \* never a shorter success
  ELSE o.err = "none" /\ o.stored = c.content                                 \* exactly the bytes read

ConsumeAllowed(c, o) ==
  /\ ~o.panic
  /\ c.rkind # "nil" => o.rcloses = (IF c.closeOpt /\ c.rkind \in ClosableReaders THEN 1 ELSE 0)
  /\ IF c.rkind = "nil" THEN o.err # "none"
     ELSE \/ ConsumeRegular(c, o)
          \/ EmptyTextNoop(c) /\ o.err = "none" /\ o.stored = Blob(PreOf(c))  \* allow-both: what the code does on empty text

ConsumeWhy(c, o) ==
  IF o.panic THEN "panic"
  ELSE IF c.rkind # "nil" /\ o.rcloses # (IF c.closeOpt /\ c.rkind \in ClosableReaders THEN 1 ELSE 0) THEN "close-iff-requested"
  ELSE IF c.rkind = "nil" THEN "nil-reader-accepted"
  ELSE IF ~DstSupported(c) THEN "unsupported-destination-accepted"
  ELSE IF ConsumeFault(c) THEN "error-swallowed"
  ELSE IF o.err # "none" THEN "unexpected-error"
  ELSE "stored-bytes-differ"

(***************************************************************************)
(* Producers.                                                              *)
(*  p = [codec, sc, content, term, src, wkind, closeOpt, wacc, merr]       *)
(*    sc     the source bytes (sc.content) and, for stream sources, how    *)
(*           they are delivered                                            *)
(*    wkind  "writer" | "writecloser" | "nil"                              *)
(*  outcome o = [err, out, wcloses, scloses, panic]                        *)
(***************************************************************************)
\* byte ARRAYS ([0]byte, [16]byte by value, boxed or by pointer) are not in the documented list: an error, never a panic
ArraySrc == {"array0", "array16", "parray16"}
\* "seekreader": a *bytes.Reader the caller has already read a preamble from - the source bytes are the REST
BytesSrc == {"writerto", "wtreader", "wtreadcloser", "reader", "readcloser", "seekreader", "binm", "error",
             "bytes", "string", "pbytes", "pstring", "nbytes", "nstring", "struct", "pstruct", "strslice",
             "nilpstring", "nilpbytes", "nilpstruct", "nil", "int", "map", "pint"} \cup ArraySrc
BytesSrcSupported == BytesSrc \ ({"nilpstring", "nilpbytes", "nilpstruct", "nil", "int", "map", "pint"} \cup ArraySrc)
\* "dualtm": a payload that is BOTH an encoding.TextMarshaler and a fmt.Stringer with different renderings
\* (time.Time-like): its text is what MarshalText returns (that is what UnmarshalText reads back)
TextSrc == {"textm", "dualtm", "error", "stringer", "string", "pstring", "nstring", "struct", "pstruct", "strslice", "bytes",
            "nilpstring", "nilpstruct", "nil", "int", "map"} \cup ArraySrc
TextSrcSupported == TextSrc \ ({"nilpstring", "nilpstruct", "nil", "int", "map"} \cup ArraySrc)
StreamSrc == {"writerto", "wtreader", "wtreadcloser", "reader", "readcloser"}
ClosableSrc == {"wtreadcloser", "readcloser"}

POut(err, out, wcloses, scloses, panic) ==
  [err |-> err, out |-> Blob(out), wcloses |-> wcloses, scloses |-> scloses, panic |-> panic]

WriteOnce(p, wcl, scl) ==
  LET w == WrWrite(p.wacc, WrInit, p.sc.content) IN POut(w.err, w.wst.got, wcl, scl, FALSE)

BSProduce(p) ==
  LET wcl == IF p.closeOpt /\ p.wkind = "writecloser" THEN 1 ELSE 0
      scl == IF p.src \in ClosableSrc THEN 1 ELSE 0
  IN
  IF p.wkind = "nil" THEN POut("other", <<>>, 0, 0, FALSE)                     \* writer == nil
  ELSE IF p.src = "nil" THEN POut("other", <<>>, IF CloseOnNilPayload THEN wcl ELSE 0, 0, FALSE)
  ELSE CASE p.src \in {"writerto", "wtreader", "wtreadcloser"} ->              \* io.WriterTo first
              LET r == WriteTo(p.sc, p.wacc) IN POut(r.err, r.got, wcl, scl, FALSE)
         [] p.src \in {"reader", "readcloser"} ->                              \* io.Reader: io.Copy
              LET r == Copy([sc |-> p.sc], p.wacc) IN POut(r.err, r.got, wcl, scl, FALSE)
         [] p.src = "binm" -> IF p.merr THEN POut("merr", <<>>, wcl, scl, FALSE) ELSE WriteOnce(p, wcl, scl)
         [] p.src \in {"nilpstring", "nilpbytes", "nilpstruct"} ->             \* reflect.Indirect(nil ptr).Type()
              IF GuardTypedNil THEN POut("other", <<>>, wcl, scl, FALSE) ELSE POut("none", <<>>, 0, 0, TRUE)
         [] p.src \in {"int", "map", "pint"} \cup ArraySrc -> POut("other", <<>>, wcl, scl, FALSE)   \* kind Array: not supported
         [] OTHER -> WriteOnce(p, wcl, scl)                                    \* error, []byte, string, struct/slice as JSON

TextProduce(p) ==
  IF p.wkind = "nil" THEN POut("other", <<>>, 0, 0, FALSE)
  ELSE IF p.src = "nil" THEN POut("other", <<>>, 0, 0, FALSE)
  ELSE CASE p.src \in {"textm", "dualtm"} -> IF p.merr THEN POut("merr", <<>>, 0, 0, FALSE) ELSE WriteOnce(p, 0, 0)
         [] p.src \in {"nilpstring", "nilpstruct"} ->
              IF GuardTypedNil THEN POut("other", <<>>, 0, 0, FALSE) ELSE POut("none", <<>>, 0, 0, TRUE)
         [] p.src \in {"int", "map"} \cup ArraySrc -> POut("other", <<>>, 0, 0, FALSE)
         [] OTHER -> WriteOnce(p, 0, 0)

Produce(p) == IF p.codec = "bytes" THEN BSProduce(p) ELSE TextProduce(p)

(* ---- the property, producers ------------------------------------------ *)
SrcSupported(p) == IF p.codec = "bytes" THEN p.src \in BytesSrcSupported ELSE p.src \in TextSrcSupported

ProduceFault(p) ==
  \/ p.src \in StreamSrc /\ p.term = "err"                                    \* the source stream fails
  \/ p.src \in {"binm", "textm", "dualtm"} /\ p.merr                                    \* the marshaler fails
  \/ p.wacc # -1 /\ p.wacc < p.content.n                                      \* write error

ProduceAllowed(p, o) ==
  /\ ~o.panic
  /\ p.wkind # "nil" => o.wcloses = (IF p.codec = "bytes" /\ p.closeOpt /\ p.wkind = "writecloser" THEN 1 ELSE 0)
  /\ (p.wkind # "nil" /\ p.codec = "bytes") => o.scloses = (IF p.src \in ClosableSrc THEN 1 ELSE 0)   \* always closed
  /\ IF p.wkind = "nil" THEN o.err # "none"
     ELSE IF ~SrcSupported(p) THEN o.err # "none"
     ELSE IF ProduceFault(p) THEN o.err # "none"
     ELSE o.err = "none" /\ o.out = p.content                                 \* exactly the source bytes

ProduceWhy(p, o) ==
  IF o.panic THEN "panic"
  ELSE IF p.wkind # "nil" /\ o.wcloses # (IF p.codec = "bytes" /\ p.closeOpt /\ p.wkind = "writecloser" THEN 1 ELSE 0) THEN "close-iff-requested"
  ELSE IF p.wkind # "nil" /\ p.codec = "bytes" /\ o.scloses # (IF p.src \in ClosableSrc THEN 1 ELSE 0) THEN "closable-source-always-closed"
  ELSE IF p.wkind = "nil" THEN "nil-writer-accepted"
  ELSE IF ~SrcSupported(p) THEN "unsupported-source-accepted"
  ELSE IF ProduceFault(p) THEN "error-swallowed"
  ELSE IF o.err # "none" THEN "unexpected-error"
  ELSE "written-bytes-differ"

(***************************************************************************)
(* Part A2: successive Consume calls of the byte-stream consumer through   *)
(* the buffered path (state machine).  What one call stored must not be    *)
(* touched by later calls, nor by the caller changing another stored       *)
(* value: "never alias".                                                   *)
(*   history  h = sequence of steps  [op, dst, content, target, rkind]     *)
(*     op "consume": Consume(reader over content, destination of kind dst) *)
(*        rkind = the concrete reader: "script" (scripted stream),         *)
(*        "bytesbuffer" - a bytes.Buffer over a caller-owned slice -,         *)
(*        "bytesreader" - bytes.Reader -, "stringsreader" - strings.Reader - *)
(*     op "mutate", target j: the caller overwrites byte 1 of the value    *)
(*        stored by the j-th step (a []byte-kind destination) with MutByte *)
(*     op "srcmutate", target j: the caller re-uses the SOURCE of the j-th *)
(*        step: every byte of the slice it gave is overwritten with        *)
(*        SrcByte and the buffer is Reset() and rewritten                  *)
(*   state    q = [held, alias, salias, pool]                              *)
(*     held[j]  bytes the destination of step j holds now (<<>> for a      *)
(*              non-consume step), alias[j]: it shares the pooled buffer,  *)
(*              salias[j]: it shares the array of its own source           *)
(* Faithful: v.SetBytes(buf.Bytes()) / *dst = b keep the buffer's array,   *)
(* string destinations and BinaryUnmarshaler copy.  With a fresh buffer    *)
(* per call, filled by buf.ReadFrom(reader) whatever the reader is, nobody *)
(* else ever sees that array.                                              *)
(***************************************************************************)
SeqDst == {"pbytes", "pnbytes", "anybytes", "pstring", "anystring", "binunm"}
ByteKindDst == {"pbytes", "pnbytes", "anybytes"}
SeqReaderKinds == {"script", "bytesbuffer", "bytesreader", "stringsreader"}
MutByte == 238
SrcByte == 119
RKind(st) == IF "rkind" \in DOMAIN st THEN st.rkind ELSE "script"

SeqInit == [held |-> <<>>, alias |-> <<>>, salias |-> <<>>, pool |-> <<>>]

(* new bytes written at the start of an array that holds old ones *)
Overlay(old, new) == [i \in 1..Len(old) |-> IF i <= Len(new) THEN new[i] ELSE old[i]]

SeqConsume(q, st) ==
  LET zero  == ZeroCopyBuffer /\ RKind(st) = "bytesbuffer"     \* b = reader.Next(reader.Len()): the source's own array
      held1 == IF PooledBuffer /\ ~zero                         \* buf.Reset(); buf.ReadFrom(reader) rewrites the shared array
               THEN [j \in 1..Len(q.held) |-> IF q.alias[j] THEN Overlay(q.held[j], st.content) ELSE q.held[j]]
               ELSE q.held
  IN [held   |-> Append(held1, st.content),
      alias  |-> Append(q.alias, PooledBuffer /\ ~zero /\ st.dst \in ByteKindDst),
      salias |-> Append(q.salias, zero /\ st.dst \in ByteKindDst),
      pool   |-> IF PooledBuffer /\ ~zero THEN st.content ELSE q.pool]

SeqMutate(q, st) ==
  LET t == st.target
      poke(x) == IF x = <<>> THEN x ELSE [x EXCEPT ![1] = MutByte]
  IN [held   |-> Append([j \in 1..Len(q.held) |-> IF j = t \/ (q.alias[t] /\ q.alias[j]) THEN poke(q.held[j]) ELSE q.held[j]], <<>>),
      alias  |-> Append(q.alias, FALSE),
      salias |-> Append(q.salias, FALSE),
      pool   |-> IF q.alias[t] THEN poke(q.pool) ELSE q.pool]

SeqSrcMutate(q, st) ==
  LET t == st.target
  IN [held   |-> Append([j \in 1..Len(q.held) |-> IF j = t /\ q.salias[t] THEN [i \in 1..Len(q.held[j]) |-> SrcByte] ELSE q.held[j]], <<>>),
      alias  |-> Append(q.alias, FALSE),
      salias |-> Append(q.salias, FALSE),
      pool   |-> q.pool]

SeqStep(q, st) ==
  CASE st.op = "consume"   -> SeqConsume(q, st)
    [] st.op = "mutate"    -> SeqMutate(q, st)
    [] st.op = "srcmutate" -> SeqSrcMutate(q, st)

RECURSIVE SeqRun(_, _)
SeqRun(h, i) == IF i = 0 THEN SeqInit ELSE SeqStep(SeqRun(h, i - 1), h[i])

(* the property: after i steps every destination holds exactly the bytes   *)
(* it was given (with the caller's own change applied to that one value);  *)
(* what the caller does to the source afterwards changes nothing           *)
RECURSIVE ExpectedHeld(_, _)
ExpectedHeld(h, i) ==
  IF i = 0 THEN <<>>
  ELSE LET e == ExpectedHeld(h, i - 1) IN
       CASE h[i].op = "consume" -> Append(e, h[i].content)
         [] h[i].op = "mutate"  ->
              LET t == h[i].target IN
              Append([j \in 1..Len(e) |-> IF j = t /\ e[j] # <<>> THEN [e[j] EXCEPT ![1] = MutByte] ELSE e[j]], <<>>)
         [] OTHER -> Append(e, <<>>)

SeqWellFormed(h) ==
  \A i \in 1..Len(h) :
     CASE h[i].op = "consume" -> h[i].dst \in SeqDst /\ RKind(h[i]) \in SeqReaderKinds
       [] h[i].op = "mutate" -> h[i].target \in 1..(i - 1) /\ h[h[i].target].op = "consume" /\ h[h[i].target].dst \in ByteKindDst
       [] h[i].op = "srcmutate" -> h[i].target \in 1..(i - 1) /\ h[h[i].target].op = "consume"
       [] OTHER -> FALSE

(* o = [i, err, held (blobs), panic]: observation after step i *)
SeqAllowed(c, o) ==
  /\ ~o.panic /\ o.err = "none"
  /\ o.i \in 1..Len(c.hist)
  /\ o.held = [j \in 1..o.i |-> Blob(ExpectedHeld(c.hist, o.i)[j])]

SeqWhy(c, o) ==
  IF o.panic THEN "panic" ELSE IF o.err # "none" THEN "unexpected-error" ELSE "earlier-destination-changed"

(***************************************************************************)
(* Part B: value round trip.  A value is                                    *)
(*   [t, s, kids, keys]  t in null|bool|num|str|list|map|struct             *)
(*                       |anystruct|namedmap|namedlist (typed JSON          *)
(*                       destinations with interface{} positions)           *)
(*                       |feed|voidroot (XML with elements named like HTML  *)
(*                       void elements: link, meta, img, br, hr)            *)
(*   s: bytes of the string / number token / <<0|1>> for bool               *)
(*   kids: element / member values; keys: member names (map)                *)
(* The model of Consume_c(Produce_c(v)) is v; a document cut before its     *)
(* end and followed by a read error must fail.                              *)
(***************************************************************************)
V(t, s, kids, keys) == [t |-> t, s |-> s, kids |-> kids, keys |-> keys]

(* r.wcut > 0: the writer given to the producer accepts fewer bytes than the *)
(* document has (o.full = length of the document written without fault)     *)
RoundTripAllowed(r, o) ==
  /\ ~o.panic
  /\ IF r.wcut > 0 /\ o.full > 0 THEN o.perr # "none"     \* write error: never reported as success
     ELSE /\ o.perr = "none"                              \* producing a supported value succeeds
          /\ IF r.cut THEN o.cerr # "none"                \* truncated document + read error: never a shorter success
             ELSE o.cerr = "none" /\ o.v = r.v            \* equal value

RoundTripWhy(r, o) ==
  IF o.panic THEN "panic"
  ELSE IF r.wcut > 0 /\ o.full > 0 THEN "write-error-swallowed"
  ELSE IF o.perr # "none" THEN "producer-failed"
  ELSE IF r.cut THEN "error-swallowed"
  ELSE IF o.cerr # "none" THEN "consumer-failed"
  ELSE "value-differs"
=============================================================================
