--------------------------- MODULE MCClientCall ---------------------------
(* Exhaustive fault-placement model checking of ClientCall: every script   *)
(* of the bounded space (chosen step by step: base, then up to MaxFaults   *)
(* faults) x every interleaving of caller / writer goroutine / transport / *)
(* clock.  Safety at settled/returned states, liveness under weak fairness *)
(* of the four processes (no fairness on the script choice, no state       *)
(* constraint).                                                            *)
EXTENDS ClientCall

CONSTANTS PNames, Auths, Readers, Cancels, MaxFaults

VARIABLES phase, c, s
vars == <<phase, c, s>>

Null == Base(Payloads["none"], FALSE, "none", "all", "none")

Init == phase = "base" /\ c = Null /\ s = CInit(Null)

PickBase == /\ phase = "base"
            /\ \E b \in BaseScripts(PNames, Auths, Readers, Cancels) : c' = b
            /\ phase' = "faults" /\ UNCHANGED s
AddFault == /\ phase = "faults" /\ NFaults(c) < MaxFaults
            /\ \E d \in FaultOptions(c) : c' = d
            /\ UNCHANGED <<phase, s>>
Start    == phase = "faults" /\ phase' = "run" /\ s' = CInit(c) /\ UNCHANGED c

Caller    == phase = "run" /\ \E t \in CallerNext(c, s)    : s' = t /\ UNCHANGED <<phase, c>>
Writer    == phase = "run" /\ \E t \in WriterNext(c, s)    : s' = t /\ UNCHANGED <<phase, c>>
Transport == phase = "run" /\ \E t \in TransportNext(c, s) : s' = t /\ UNCHANGED <<phase, c>>
Clock     == phase = "run" /\ \E t \in ClockNext(c, s)     : s' = t /\ UNCHANGED <<phase, c>>

Next == PickBase \/ AddFault \/ Start \/ Caller \/ Writer \/ Transport \/ Clock

Spec == Init /\ [][Next]_vars
        /\ WF_vars(Caller) /\ WF_vars(Writer) /\ WF_vars(Transport) /\ WF_vars(Clock)

Running == phase = "run"

\* ---- safety
InvResult   == Running => ResultSound(c, s)
InvReleased == Running /\ Settled(c, s) => Released(c, s)
InvTime     == Running => TimeOK(s)
\* the functional closure used by trace validation agrees with the explored graph
InvClosure  == Running /\ s = CInit(c) => \A t \in Terminals(c) : Released(c, t) /\ ResultSound(c, t) /\ TimeOK(t)

\* ---- liveness
Terminates    == Running ~> (s.pc = "returned")
WriterDies    == [](Running => <>[](~WriterAlive(s)))
FilesClosed   == [](Running => <>[](\A i \in 1..2 : ~s.fileOpen[i]))

\* ---- non-vacuity witnesses (each must be violated; checked during development)
NeverOK       == Running => s.res # "ok"
NeverDrains   == Running => ~s.drained
NeverSrcHit   == Running => ~s.srcHit
NeverDeadline == Running => s.ctx # "deadline"
=============================================================================
