SPECIFICATION Spec
CONSTANTS
  GuardReserved = TRUE
  GuardNul = TRUE
  MaxSegs = 2
  MaxRecs = 2
  MaxPath = 4
  PathBytes = {97, 98, 47, 58, 35}
  WithRestconf = FALSE
INVARIANTS PropertyHolds OrderIndependent
CHECK_DEADLOCK FALSE
