SPECIFICATION Spec
CONSTANTS
  ClosesPipeOnBuildError = TRUE
  ClosesFilesOnParamsError = TRUE
  CopyMarksEndSeen = FALSE
  CancelsBeforeClose = FALSE
  ClosesFilesOnFieldError = TRUE
  ZeroLenReadSetsEOF = FALSE
  FileLen = 2
  RespLen = 2
  SlackMs = 1500
  NoDeadlineMs = 10000
CHECK_DEADLOCK FALSE
