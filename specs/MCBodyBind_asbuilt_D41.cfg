SPECIFICATION Spec
CONSTANTS
  AbsentBodyRule = FALSE
  ScalarTargets = TRUE
  NullIsNull = TRUE
  LibraryConforms = TRUE
  Thorough = FALSE
INVARIANTS PropertyHolds
CHECK_DEADLOCK FALSE
