SPECIFICATION Spec
CONSTANTS
  Mutant = "none"
  MaxOps = 2
  WithUpperCaseDesc = FALSE
  SmallSec = FALSE
INVARIANTS ValidateExact ServingConsequence
CHECK_DEADLOCK FALSE
