SPECIFICATION Spec
CONSTANTS
  Mutant = "none"
  MaxOps = 2
  WithUpperCaseDesc = FALSE
  WithNoContent = FALSE
  SmallSec = FALSE
INVARIANTS ValidateExact ServingConsequence
CHECK_DEADLOCK FALSE
