SPECIFICATION Spec
CONSTANTS
  Types = {"application/json", "text/plain", "application/xml"}
  NCallers = 2
  RecyclesWrappers = FALSE
  SharedDefaults = FALSE
  MaxOps = 4
  SharedCloser = TRUE
  OnceIsNilCheck = FALSE
INVARIANTS InvOwn
CHECK_DEADLOCK FALSE
