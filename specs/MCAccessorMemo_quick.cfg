SPECIFICATION Spec
CONSTANTS
  SharedField = "none"
  MemoBound = TRUE
  SampleKinds = FALSE
  MaxHist = 5
INVARIANT Memo
CHECK_DEADLOCK FALSE
