SPECIFICATION Spec
CONSTANTS
  SharedField = "none"
  MemoBound = TRUE
  MaxHist = 5
INVARIANT Memo
CHECK_DEADLOCK FALSE
