SPECIFICATION Spec
CONSTANTS
  RestoresOp = FALSE
  ClientStatusRule = TRUE
  CopiesOpts = TRUE
  SharedSpanVar = FALSE
  MaxCalls = 2
  Statuses = {200, 404}
  Unassigned = {}
INVARIANTS InvFinished
CHECK_DEADLOCK FALSE
