SPECIFICATION Spec
CONSTANTS
  Mutant = "defaultonempty"
INVARIANT MultiAgreesMC
CHECK_DEADLOCK FALSE
