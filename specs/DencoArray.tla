----------------------------- MODULE DencoArray -----------------------------
(***************************************************************************)
(* The layer below Router.tla: denco's double-array itself.                 *)
(*                                                                         *)
(* Router.tla models the built trie abstractly (a node is a prefix of the   *)
(* key alphabet, an edge exists iff some key continues that way).  The code *)
(* stores that trie in one BASE/CHECK array: the child of the node in slot  *)
(* idx under byte c lives in slot BASE(idx) XOR c and is recognised by      *)
(* CHECK = c; an unused slot has BASE = CHECK = 0.  Everything that can go  *)
(* wrong *because of the layout* - a byte that equals the CHECK of an       *)
(* unused slot (finding D55: NUL), two nodes given the same BASE, a walk    *)
(* leaving the array - is invisible one layer up.  This module transcribes  *)
(* doubleArray.build / arrange / findBase / makeSiblings and                *)
(* doubleArray.lookup operator by operator; MCDencoArray checks, for every  *)
(* small table and path, that the array-level lookup returns exactly what   *)
(* the trie-level lookup of Router.tla returns (a refinement between the    *)
(* two layers of the model), and that the as-built guard GuardNul = FALSE   *)
(* does not.                                                                *)
(***************************************************************************)
EXTENDS Router, Bitwise

(* ---- keys ---------------------------------------------------------------- *)
NameBytes(n) == CASE n = "x" -> <<120>> [] n = "y" -> <<121>> [] n = "w" -> <<119>> [] n = "z" -> <<122>>
                  [] OTHER -> <<110>>

RECURSIVE KeyOf(_)
KeyOf(pat) ==   \* Record.Key + the termination byte makeRecords appends
  IF pat = <<>> THEN <<HASH>>
  ELSE LET t == Head(pat) IN
       CASE t.k = "lit"   -> t.s \o KeyOf(Tail(pat))
         [] t.k = "param" -> <<COLON>> \o NameBytes(t.n) \o KeyOf(Tail(pat))
         [] t.k = "wild"  -> <<STAR>> \o NameBytes(t.n) \o KeyOf(Tail(pat))

(* 0-based slicing, as in the Go code: s[a:b] *)
Slice(s, a, b) == SubSeq(s, a + 1, b)

RECURSIVE SeqLess(_, _)
SeqLess(a, b) == IF a = <<>> THEN b # <<>>
                 ELSE IF b = <<>> THEN FALSE
                 ELSE IF a[1] # b[1] THEN a[1] < b[1]
                 ELSE SeqLess(Tail(a), Tail(b))

(* sort.Stable(recordSlice) : stable insertion by Key *)
RECURSIVE InsSorted(_, _, _), SortRecs(_)
InsSorted(sorted, r, i) ==
  IF i > Len(sorted) THEN Append(sorted, r)
  ELSE IF SeqLess(r.key, sorted[i].key) THEN SubSeq(sorted, 1, i - 1) \o <<r>> \o SubSeq(sorted, i, Len(sorted))
  ELSE InsSorted(sorted, r, i + 1)
SortRecs(s) == IF s = <<>> THEN <<>> ELSE InsSorted(SortRecs(SubSeq(s, 1, Len(s) - 1)), s[Len(s)], 1)

(* ---- the array ----------------------------------------------------------- *)
EmptySlot == [base |-> 0, check |-> 0, single |-> FALSE, wild |-> FALSE]
NewArray  == [bc |-> <<EmptySlot>>, node |-> <<[rec |-> 0, names |-> <<>>]>>, used |-> {}]   \* newDoubleArray

LenBC(da) == Len(da.bc)
At(da, i) == IF i < LenBC(da) THEN da.bc[i + 1] ELSE EmptySlot
IsEmptyAt(da, i) == At(da, i).base = 0 /\ At(da, i).check = 0              \* baseCheck.IsEmpty ignores the flags
Grow(da, i) == IF i < LenBC(da) THEN da
               ELSE [da EXCEPT !.bc = @ \o [k \in 1..(i + 1 - Len(@)) |-> EmptySlot]]
Put(da, i, f, v) == LET g == Grow(da, i) IN [g EXCEPT !.bc[i + 1][f] = v]
NextIndex(base, c) == base ^^ c

(* makeSiblings: one sibling per distinct next byte of the (sorted) records at depth; a record that ends here is the leaf *)
RECURSIVE MkSibs(_, _, _, _, _, _)
MkSibs(recs, depth, i, pc, sibs, leaf) ==
  IF i > Len(recs)
  THEN [sibs |-> IF sibs = <<>> THEN sibs ELSE [sibs EXCEPT ![Len(sibs)].end = Len(recs)], leaf |-> leaf]
  ELSE LET r == recs[i] IN
       IF Len(r.key) <= depth THEN MkSibs(recs, depth, i + 1, pc, sibs, i)
       ELSE LET c == r.key[depth + 1] IN
            IF pc < c
            THEN LET closed == IF sibs = <<>> THEN sibs ELSE [sibs EXCEPT ![Len(sibs)].end = i - 1]
                 IN MkSibs(recs, depth, i + 1, c, Append(closed, [start |-> i, end |-> 0, c |-> c]), leaf)
            ELSE MkSibs(recs, depth, i + 1, pc, sibs, leaf)      \* pc = c (sorted input: pc > c cannot happen)

(* findEmptyIndex *)
RECURSIVE FindEmptyIndex(_, _)
FindEmptyIndex(da, start) == IF start >= LenBC(da) \/ IsEmptyAt(da, start) THEN start ELSE FindEmptyIndex(da, start + 1)

(* findBase: the first idx (from start+1, then over the empty slots) whose BASE = idx XOR firstChar is unused and puts *)
(* every sibling on an empty slot; the array is grown while probing                                                  *)
RECURSIVE ProbeSibs(_, _, _, _), FindBaseFrom(_, _, _)
ProbeSibs(da, sibs, base, k) ==      \* [da (grown), ok]
  IF k > Len(sibs) THEN [da |-> da, ok |-> TRUE]
  ELSE LET g == Grow(da, NextIndex(base, sibs[k].c)) IN
       IF ~IsEmptyAt(g, NextIndex(base, sibs[k].c)) THEN [da |-> g, ok |-> FALSE]
       ELSE ProbeSibs(g, sibs, base, k + 1)
FindBaseFrom(da, sibs, idx) ==
  LET base == NextIndex(idx, sibs[1].c) IN
  IF base \in da.used THEN FindBaseFrom(da, sibs, FindEmptyIndex(da, idx + 1))
  ELSE LET p == ProbeSibs(da, sibs, base, 1) IN
       IF p.ok THEN [da |-> [p.da EXCEPT !.used = @ \cup {base}], base |-> base]
       ELSE FindBaseFrom(p.da, sibs, FindEmptyIndex(p.da, idx + 1))

(* NextSeparator (util.go): next '/' or '#' of a key, 0-based, or len *)
RECURSIVE NextSepKey(_, _)
NextSepKey(key, start) == IF start >= Len(key) \/ key[start + 1] \in {SLASH, HASH} THEN start ELSE NextSepKey(key, start + 1)

(* doubleArray.build.  SetBase ORs into the slot (bc |= base << flagsBits): a slot given a BASE twice keeps the OR of both *)
OrBase(da, i, v) == Put(da, i, "base", At(da, i).base | v)

RECURSIVE Build(_, _, _, _), BuildSibs(_, _, _, _, _, _, _)
Build(da, srcs, idx, depth) ==
  LET recs == SortRecs(srcs)
      ms   == MkSibs(recs, depth, 1, 0, <<>>, 0)
      \* arrange: a BASE for the siblings
      ar   == IF ms.sibs = <<>> THEN [da |-> da, base |-> 0]
              ELSE LET fb == FindBaseFrom(da, ms.sibs, idx + 1) IN [da |-> OrBase(fb.da, idx, fb.base), base |-> fb.base]
      \* a record that ends here becomes a node; its index goes into the BASE of this slot
      lf   == IF ms.leaf = 0 THEN ar.da
              ELSE [OrBase(ar.da, idx, Len(ar.da.node)) EXCEPT !.node = Append(@, [rec |-> recs[ms.leaf].rec, names |-> recs[ms.leaf].names])]
      RECURSIVE Checks(_, _)
      Checks(d, k) == IF k > Len(ms.sibs) THEN d
                      ELSE Checks(Put(d, NextIndex(ar.base, ms.sibs[k].c), "check", At(d, NextIndex(ar.base, ms.sibs[k].c)).check | ms.sibs[k].c), k + 1)
  IN IF ms.sibs = <<>> THEN lf ELSE BuildSibs(Checks(lf, 1), recs, ms.sibs, 1, idx, depth, ar.base)

BuildSibs(da, recs, sibs, k, idx, depth, base) ==
  IF k > Len(sibs) THEN da
  ELSE LET sib   == sibs[k]
           group == SubSeq(recs, sib.start, sib.end)
           child == NextIndex(base, sib.c)
       IN CASE sib.c = COLON ->
                 LET cut(r) == LET nx == NextSepKey(r.key, depth + 1)
                               IN [r EXCEPT !.names = Append(@, Slice(r.key, depth + 1, nx)), !.key = Slice(r.key, nx, Len(r.key))]
                     g2 == [i \in DOMAIN group |-> cut(group[i])]
                 IN BuildSibs(Build(Put(da, idx, "single", TRUE), g2, child, 0), recs, sibs, k + 1, idx, depth, base)
            [] sib.c = STAR ->
                 LET cut(r) == [r EXCEPT !.names = Append(@, Slice(r.key, depth + 1, Len(r.key) - 1)), !.key = <<>>]
                     g2 == [i \in DOMAIN group |-> cut(group[i])]
                 IN BuildSibs(Build(Put(da, idx, "wild", TRUE), g2, child, 0), recs, sibs, k + 1, idx, depth, base)
            [] OTHER ->
                 BuildSibs(Build(da, group, child, depth + 1), recs, sibs, k + 1, idx, depth, base)

ParamKeys(records) == LET ps == SelectSeq([i \in DOMAIN records |-> [key |-> KeyOf(records[i].pat), rec |-> i, names |-> <<>>,
                                                                     static |-> IsStaticPat(records[i].pat)]],
                                          LAMBDA r : ~r.static)
                      IN [i \in DOMAIN ps |-> [key |-> ps[i].key, rec |-> ps[i].rec, names |-> ps[i].names]]

BuiltArray(records) == Build(NewArray, ParamKeys(records), 1, 0)

(* ---- doubleArray.lookup --------------------------------------------------- *)
RECURSIVE ArrWalk(_, _, _, _, _), ArrLookup(_, _, _, _), ArrBack(_, _, _, _, _)
ArrWalk(da, path, i, idx, stack) ==    \* the byte loop; i is 0-based
  IF i >= Len(path) THEN [idx |-> idx, stack |-> stack, done |-> TRUE]
  ELSE LET st2 == IF At(da, idx).single \/ At(da, idx).wild THEN Append(stack, [i |-> i, idx |-> idx]) ELSE stack
           c   == path[i + 1]
       IN IF (GuardReserved /\ c \in Reserved) \/ (GuardNul /\ c = 0)
          THEN [idx |-> idx, stack |-> st2, done |-> FALSE]
          ELSE LET nx == NextIndex(At(da, idx).base, c) IN
               IF nx >= LenBC(da) \/ At(da, nx).check # c
               THEN [idx |-> idx, stack |-> st2, done |-> FALSE]
               ELSE ArrWalk(da, path, i + 1, nx, st2)

ArrNotFound == [found |-> FALSE, node |-> 0, texts |-> <<>>]

ArrLookup(da, path, texts, idx) ==
  LET w  == ArrWalk(da, path, 0, idx, <<>>)
      tn == NextIndex(At(da, w.idx).base, HASH)
  IN IF w.done /\ tn < LenBC(da) /\ At(da, tn).check = HASH
     THEN [found |-> TRUE, node |-> At(da, tn).base, texts |-> texts]
     ELSE ArrBack(da, path, w.stack, Len(w.stack), texts)

ArrBack(da, path, stack, j, texts) ==
  IF j = 0 THEN ArrNotFound
  ELSE LET i   == stack[j].i
           idx == stack[j].idx
           single == IF At(da, idx).single /\ NextIndex(At(da, idx).base, COLON) < LenBC(da)
                     THEN LET nx == NextSep(path, i + 1) - 1     \* Router!NextSep is 1-based; nx is the 0-based end of the value
                          IN ArrLookup(da, Slice(path, nx, Len(path)), Append(texts, Slice(path, i, nx)),
                                       NextIndex(At(da, idx).base, COLON))
                     ELSE ArrNotFound
       IN IF At(da, idx).single /\ NextIndex(At(da, idx).base, COLON) >= LenBC(da) THEN ArrNotFound   \* break
          ELSE IF single.found THEN single
          ELSE IF At(da, idx).wild
               THEN [found |-> TRUE, node |-> At(da, NextIndex(At(da, idx).base, STAR)).base,
                     texts |-> Append(texts, Slice(path, i, Len(path)))]
               ELSE ArrBack(da, path, stack, j - 1, texts)

(* Router.Lookup: the static map first, then the array; parameter names come from the node *)
ArrCodeLookup(records, path) ==
  IF StaticHit(records, path) # {}
  THEN LET i == CHOOSE k \in StaticHit(records, path) : TRUE
       IN [found |-> TRUE, value |-> records[i].value, names |-> <<>>, texts |-> <<>>, panic |-> FALSE]
  ELSE IF ParamRecs(records) = {} THEN [found |-> FALSE, value |-> 0, names |-> <<>>, texts |-> <<>>, panic |-> FALSE]
  ELSE LET da == BuiltArray(records)
           r  == ArrLookup(da, path, <<>>, 1) IN
       IF ~r.found THEN [found |-> FALSE, value |-> 0, names |-> <<>>, texts |-> <<>>, panic |-> FALSE]
       ELSE IF r.node < 1 \/ r.node >= Len(da.node)      \* the nil node or none: Lookup dereferences nil
            THEN [found |-> FALSE, value |-> 0, names |-> <<>>, texts |-> <<>>, panic |-> TRUE]
       ELSE LET nd == da.node[r.node + 1] IN
            [found |-> TRUE, value |-> records[nd.rec].value, names |-> nd.names, texts |-> r.texts,
             panic |-> Len(nd.names) < Len(r.texts)]       \* params[i].Name = nd.paramNames[i] out of range
=============================================================================
