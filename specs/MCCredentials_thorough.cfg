SPECIFICATION Spec
CONSTANTS
  Mutant = "none"
  Atoms = {97, 58, 32, 195, 43, 37, 61, 38}
  MaxLen = 3
INVARIANT Holds
CHECK_DEADLOCK FALSE
