---------------------------- MODULE TraceStreams ----------------------------
(* Trace validation of runtime.HasBody + the body it leaves behind (C17)    *)
(* against the declarative property of Streams (section 4).                 *)
(* case  : one request (scripted body, declared length) and one history     *)
(* events: has / read / close / drain  {k, b, n, bytes, err, uc, ur, panic} *)
(*         nilbody: the driver found r.Body == nil and skipped a Read/Close *)
(* The model state is the caller-visible history p (AbsNext); every event   *)
(* is checked with ObsAllowed: HasBody answer, bytes = the next bytes of    *)
(* the original, errors only at the end and equal to the original terminal  *)
(* condition, reads after close fail, close count, no panic.                *)
EXTENDS Streams, Json, IOUtils

VARIABLES l, st, skipping, fails, cs

ActOf(e) == [a |-> e.ev, k |-> e.k]
ObsOf(e) == [b |-> e.b, n |-> e.n, bytes |-> e.bytes, err |-> e.err, panic |-> e.panic, uc |-> e.uc, ur |-> e.ur]

SInit(e) == AbsInit(e.sc, e.declared, e.bodyNil)

SAllowed(p, e) ==
  IF e.ev = "nilbody" THEN p.bodyNil          \* a nil Body may stay nil; a stream must never be replaced by nil
  ELSE ObsAllowed(p, ActOf(e), ObsOf(e))

SStep(p, e) == IF e.ev = "nilbody" THEN p ELSE AbsNext(p, ActOf(e), ObsOf(e))

SWhy(p, e) == IF e.ev = "nilbody" THEN "body-replaced-by-nil" ELSE Why(p, ActOf(e), ObsOf(e))

TheTrace == ndJsonDeserialize(IOEnv.TRACE_FILE)
TC == INSTANCE TraceCommon WITH TInit <- SInit, TAllowed <- SAllowed, TStep <- SStep,
                                TWhy <- SWhy, TStateful <- TRUE, Trace <- TheTrace
Spec == TC!Spec
=============================================================================
