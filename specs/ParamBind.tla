------------------------------ MODULE ParamBind ------------------------------
(***************************************************************************)
(* C03 - binding of non-body parameters by the untyped API                 *)
(*   middleware/parameter.go  untypedParamBinder.Bind / readValue /        *)
(*                            bindValue / setFieldValue /                  *)
(*                            setSliceFieldValue / typeForSchema /         *)
(*                            tryUnmarshaler                               *)
(*   middleware/request.go    UntypedRequestBinder.Bind (validator call)   *)
(*   values.go                Values.GetOK                                 *)
(*                                                                         *)
(* A declaration d and a request req (the (key, text) pairs sent in the    *)
(* parameter's location, or the path segment) are mapped to an outcome     *)
(*    ok(value, dynamic type) | rej (422 naming the parameter) | panic |   *)
(*    okany(dynamic type)  (a value the statement does not fix)            *)
(* twice:                                                                  *)
(*   Outcome(d, req)  - FAITHFUL: follows the code path, function by       *)
(*                      function; the known defects sit behind        *)
(*                      boolean constants (TRUE = repaired behaviour).     *)
(*   Allowed(d, req)  - DECLARATIVE: the set of outcomes the property      *)
(*                      statement permits, from the texts alone.           *)
(* MCParamBind checks Outcome \in Allowed over a lattice of declarations   *)
(* and texts; TraceParamBind checks the real code against Allowed.         *)
(* All texts are byte sequences; numbers are digit sequences compared      *)
(* exactly (no machine arithmetic on values).                              *)
(***************************************************************************)
EXTENDS Integers, Sequences, FiniteSets, TLC, ParamBindTables

CONSTANTS
  NumberDefaultsToDouble,  \* D2: typeForSchema maps `number` without format to float64 (FALSE: nil type, nil dereference)
  ArrayDefaultConverted,   \* D3: the default of an array parameter is bound item-wise (FALSE: reflect.Set panic)
  FormatDefaultParsed,     \* D4: the default of a TextUnmarshaler-typed parameter is unmarshalled (FALSE: reflect.Set panic)
  HeaderCanonicalLookup,   \* D5: header parameters are looked up by the canonical form of the declared name (FALSE: exact key)
  NamedStringValidated,    \* D31: values of named string types (uuid, password, ...) reach the validators as strings
                           \*      (FALSE: stringValidator rejects every value: always 422)
  RequiredFileIs422,       \* D32: a missing required file parameter is a `required` failure (FALSE: ParseError, status 400)
  FormDataFromBodyOnly,    \* TRUE: urlencoded formData parameters are read from the request body (request.PostForm).
                           \*       FALSE: a seeded mutant - request.Form, i.e. the URL query string merged after the body fields
                           \* (formats are those of the registry the binder was given: the tables contain "sku", an
                           \*  application-defined format registered only on the API's registry, next to strfmt's own)
  ItemFormatValidated      \* D33: array items of named-string formats are checked against their format (FALSE: validate's
                           \*      items validator consults the format of the array parameter; any text is accepted)

(* ------------------------------ bytes ----------------------------------- *)
IsDigit(b) == b >= 48 /\ b <= 57
IsUpperB(b) == b >= 65 /\ b <= 90
IsLowerB(b) == b >= 97 /\ b <= 122
ToLowerB(b) == IF IsUpperB(b) THEN b + 32 ELSE b
ToUpperB(b) == IF IsLowerB(b) THEN b - 32 ELSE b
Lower(s)    == [i \in DOMAIN s |-> ToLowerB(s[i])]
LastOf(s)   == s[Len(s)]
At(s, p, b) == p >= 1 /\ p <= Len(s) /\ s[p] = b
HasPrefixB(s, p) == Len(s) >= Len(p) /\ SubSeq(s, 1, Len(p)) = p
ContainsByte(s, b) == \E i \in DOMAIN s : s[i] = b
ContainsSeq(s, p) == \E i \in 0..(Len(s) - Len(p)) : SubSeq(s, i + 1, i + Len(p)) = p
Rng(s) == { s[i] : i \in DOMAIN s }

(* ------------------------------ digits ---------------------------------- *)
RECURSIVE StripLZ(_)
StripLZ(d) == IF d # <<>> /\ Head(d) = 0 THEN StripLZ(Tail(d)) ELSE d
RECURSIVE StripTZ(_)
StripTZ(d) == IF d # <<>> /\ d[Len(d)] = 0 THEN StripTZ(SubSeq(d, 1, Len(d) - 1)) ELSE d
RECURSIVE CountLZ(_)
CountLZ(d) == IF d # <<>> /\ Head(d) = 0 THEN 1 + CountLZ(Tail(d)) ELSE 0

DigitAt(d, k) == IF k <= Len(d) THEN d[k] ELSE 0
MaxN(a, b) == IF a >= b THEN a ELSE b

RECURSIVE LexCmp(_, _, _)      \* 0.a vs 0.b, zero padded: "lt" | "eq" | "gt"
LexCmp(a, b, k) ==
  IF k > MaxN(Len(a), Len(b)) THEN "eq"
  ELSE IF DigitAt(a, k) < DigitAt(b, k) THEN "lt"
  ELSE IF DigitAt(a, k) > DigitAt(b, k) THEN "gt"
  ELSE LexCmp(a, b, k + 1)

\* magnitudes without leading zeros
MagCmp(a, b) == IF Len(a) < Len(b) THEN "lt" ELSE IF Len(a) > Len(b) THEN "gt" ELSE LexCmp(a, b, 1)
MagLE(a, b)  == MagCmp(a, b) # "gt"

RECURSIVE DecVal(_)            \* value of a short digit sequence (exponents, counts)
DecVal(d) == IF d = <<>> THEN 0 ELSE DecVal(SubSeq(d, 1, Len(d) - 1)) * 10 + d[Len(d)]

(* ------------------------------ values ---------------------------------- *)
(* One record shape for every value (TLC compares records field-wise):     *)
(*  int   : neg, mag (digits, no leading zeros; zero = <<>>)               *)
(*  float : neg, mag (significant digits, no leading/trailing zeros), sci  *)
(*          (value = d1.d2d3... x 10^sci); sp = "inf"/"nan" never expected *)
(*  bool  : b      str / fmt / bytes : s      list : items     file : s =  *)
(*  file name, items = <<bytes value of the content>>                      *)
V0(k) == [k |-> k, neg |-> FALSE, mag |-> <<>>, sci |-> 0, sp |-> "", b |-> FALSE, s |-> <<>>, items |-> <<>>]
IntV(neg, mag)      == [V0("int") EXCEPT !.neg = (neg /\ mag # <<>>), !.mag = mag]
FloatV(neg, D, sci) == [V0("float") EXCEPT !.neg = (neg /\ D # <<>>), !.mag = D, !.sci = IF D = <<>> THEN 0 ELSE sci]
BoolV(b)            == [V0("bool") EXCEPT !.b = b]
TextV(kind, s)      == [V0(kind) EXCEPT !.s = s]           \* kind: "str" | "fmt" | "bytes"
ListV(items)        == [V0("list") EXCEPT !.items = items]
FileV(name, data)   == [V0("file") EXCEPT !.s = name, !.items = <<TextV("bytes", data)>>]
NoFileV             == V0("file")

OK(v, dyn)  == [k |-> "ok",    val |-> v,          dyn |-> dyn]
OKANY(dyn)  == [k |-> "okany", val |-> V0("none"), dyn |-> dyn]
REJ         == [k |-> "rej",   val |-> V0("none"), dyn |-> ""]
PANIC       == [k |-> "panic", val |-> V0("none"), dyn |-> ""]
ERR400      == [k |-> "err400", val |-> V0("none"), dyn |-> ""]
UNKNOWN     == [k |-> "unknown", val |-> V0("none"), dyn |-> ""]   \* text outside the format tables: a harness error

(* --------------------------- literals ----------------------------------- *)
SignOf(txt) == IF txt # <<>> /\ txt[1] \in {43, 45} THEN <<txt[1]>> ELSE <<>>
BodyOf(txt) == IF SignOf(txt) = <<>> THEN txt ELSE Tail(txt)
AllDigits(s) == s # <<>> /\ \A i \in DOMAIN s : IsDigit(s[i])
Digits(s)    == [i \in DOMAIN s |-> s[i] - 48]

\* decimal integer literal: [+-]digits  (strconv.ParseInt base 10: no underscores, no prefixes, no blanks)
IntLit(txt) ==
  LET body == BodyOf(txt) IN
  IF AllDigits(body) THEN [ok |-> TRUE, neg |-> SignOf(txt) = <<45>>, mag |-> StripLZ(Digits(body))]
  ELSE [ok |-> FALSE, neg |-> FALSE, mag |-> <<>>]

Bits(format) == CASE format = "int8" -> 8 [] format = "int16" -> 16 [] format = "int32" -> 32 [] OTHER -> 64
MaxPos(bits) == CASE bits = 8 -> MaxPos8 [] bits = 16 -> MaxPos16 [] bits = 32 -> MaxPos32 [] OTHER -> MaxPos64
MaxNeg(bits) == CASE bits = 8 -> MaxNeg8 [] bits = 16 -> MaxNeg16 [] bits = 32 -> MaxNeg32 [] OTHER -> MaxNeg64
IntFits(neg, mag, bits) == MagLE(mag, IF neg THEN MaxNeg(bits) ELSE MaxPos(bits))
IntDyn(format) == CASE format = "int8" -> "int8" [] format = "int16" -> "int16" [] format = "int32" -> "int32" [] OTHER -> "int64"

RECURSIVE DigitsEndAt(_, _)
DigitsEndAt(s, p) == IF p <= Len(s) /\ IsDigit(s[p]) THEN DigitsEndAt(s, p + 1) ELSE p

\* decimal floating-point literal: [+-] (digits [. digits*] | . digits) [ (e|E) [+-] digits ]
FloatLit(txt) ==
  LET body == BodyOf(txt)
      p1 == DigitsEndAt(body, 1)
      ip == SubSeq(body, 1, p1 - 1)
      hasdot == At(body, p1, 46)
      p2 == IF hasdot THEN DigitsEndAt(body, p1 + 1) ELSE p1
      fp == IF hasdot THEN SubSeq(body, p1 + 1, p2 - 1) ELSE <<>>
      hasexp == At(body, p2, 101) \/ At(body, p2, 69)
      esgn == IF hasexp /\ (At(body, p2 + 1, 43) \/ At(body, p2 + 1, 45)) THEN 1 ELSE 0
      p3 == p2 + 1 + esgn
      p4 == IF hasexp THEN DigitsEndAt(body, p3) ELSE p2
      ed == IF hasexp THEN SubSeq(body, p3, p4 - 1) ELSE <<>>
      all == Digits(ip) \o Digits(fp)
      x == IF hasexp /\ Len(ed) <= 3 THEN (IF At(body, p2 + 1, 45) THEN 0 - DecVal(Digits(ed)) ELSE DecVal(Digits(ed))) ELSE 0
  IN [ok |-> /\ (ip # <<>> \/ fp # <<>>)
             /\ (IF hasexp THEN ed # <<>> /\ p4 = Len(body) + 1 ELSE p2 = Len(body) + 1),
      longexp |-> Len(ed) > 3,
      neg |-> SignOf(txt) = <<45>>,
      D   |-> StripTZ(StripLZ(all)),
      sci |-> Len(ip) - 1 - CountLZ(all) + x]

\* LenientFloatLiterals: texts strconv.ParseFloat accepts beyond the decimal grammar, or whose value the
\* statement does not fix; 422 or whatever value Go denotes.
LenientFloatText(txt) ==
  LET lb == Lower(BodyOf(txt)) IN
  \/ lb \in {W_inf, W_infinity, W_nan}
  \/ HasPrefixB(lb, <<48, 120>>)              \* 0x...
  \/ ContainsByte(txt, 95)                    \* underscores
  \/ FloatLit(txt).ok /\ FloatLit(txt).longexp

FBits(format) == IF format = "float" THEN 32 ELSE 64
MaxSci(bits)  == IF bits = 32 THEN 38 ELSE 308
MinSci(bits)  == IF bits = 32 THEN 0 - 37 ELSE 0 - 307
MaxSig(bits)  == IF bits = 32 THEN 6 ELSE 15
MaxDigits(bits) == IF bits = 32 THEN MaxFloat32Digits ELSE MaxFloat64Digits
FloatFits(D, sci, bits) == D = <<>> \/ sci < MaxSci(bits) \/ (sci = MaxSci(bits) /\ LexCmp(D, MaxDigits(bits), 1) # "gt")
FloatDyn(format) == IF format = "float" THEN "float32" ELSE "float64"

(* ------------------ what a text denotes for a (type, format) ------------ *)
(* Sets of outcomes: a singleton where the statement fixes the outcome.    *)
DenoteInt(format, txt) ==
  LET l == IntLit(txt) IN
  IF l.ok /\ IntFits(l.neg, l.mag, Bits(format)) THEN {OK(IntV(l.neg, l.mag), IntDyn(format))} ELSE {REJ}

DenoteFloat(format, txt) ==
  LET l == FloatLit(txt)  bits == FBits(format)  dyn == FloatDyn(format) IN
  IF LenientFloatText(txt) THEN {REJ, OKANY(dyn)}
  ELSE IF ~l.ok THEN {REJ}
  ELSE IF ~FloatFits(l.D, l.sci, bits) THEN {REJ}
  ELSE IF (l.D # <<>> /\ l.sci < MinSci(bits)) \/ Len(l.D) > MaxSig(bits) THEN {OKANY(dyn)}   \* FloatRounding: value rounded
  ELSE {OK(FloatV(l.neg, l.D, l.sci), dyn)}

\* LenientBool: anything but true / false is 422 or swag.ConvertBool's value
DenoteBool(txt) ==
  IF txt = W_true THEN {OK(BoolV(TRUE), "bool")}
  ELSE IF txt = W_false THEN {OK(BoolV(FALSE), "bool")}
  ELSE {REJ, OK(BoolV(Lower(txt) \in TrueWords), "bool")}

IsFormat(f) == f \in FormatNames

DenoteFormat(f, txt) ==
  LET info == FormatInfo(f) IN
  IF \E pr \in info.valid : pr[1] = txt
  THEN {OK(TextV(info.kind, (CHOOSE pr \in info.valid : pr[1] = txt)[2]), info.dyn)}
  ELSE IF txt \in info.invalid THEN {REJ}
  ELSE IF info.open THEN {OK(TextV(info.kind, txt), info.dyn)}
  ELSE {UNKNOWN}

DenoteString(format, txt) == IF IsFormat(format) THEN DenoteFormat(format, txt) ELSE {OK(TextV("str", txt), "string")}

Denote(type, format, txt) ==
  CASE type = "integer" -> DenoteInt(format, txt)
    [] type = "number"  -> DenoteFloat(format, txt)
    [] type = "boolean" -> DenoteBool(txt)
    [] OTHER            -> DenoteString(format, txt)

TheOK(S) == CHOOSE o \in S : o.k = "ok"
HasOK(S) == \E o \in S : o.k = "ok"

\* dynamic Go type of a bound value
ScalarDyn(type, format) ==
  CASE type = "integer" -> IntDyn(format)
    [] type = "number"  -> FloatDyn(format)
    [] type = "boolean" -> "bool"
    [] type = "file"    -> "swag.File"
    [] OTHER            -> IF IsFormat(format) THEN FormatInfo(format).dyn ELSE "string"
DynOf(d) == IF d.type = "array" THEN "[]" \o ScalarDyn(d.itype, d.iformat) ELSE ScalarDyn(d.type, d.format)

(* ZeroWhenAbsent / EmptyTextUnmarshalled (named deviations; the statement is silent): what is bound for   *)
(* an absent or empty text when there is no default and `required` does not reject.                        *)
ZeroOutcome(type, format) ==
  CASE type = "integer" -> OK(IntV(FALSE, <<>>), IntDyn(format))
    [] type = "number"  -> OK(FloatV(FALSE, <<>>, 0), FloatDyn(format))
    [] type = "boolean" -> OK(BoolV(FALSE), "bool")
    [] OTHER -> IF ~IsFormat(format) THEN OK(TextV("str", <<>>), "string")
                ELSE LET info == FormatInfo(format) IN
                     IF info.class = "named" THEN (IF info.empty = <<>> THEN REJ ELSE OK(TextV(info.kind, <<>>), info.dyn))
                     ELSE IF info.empty = <<>> THEN REJ ELSE OK(TextV(info.kind, info.empty[1]), info.dyn)

(* ------------------------------ characters ------------------------------ *)
(* Number of characters of a text (utf8.RuneCountInString): a well-formed UTF-8 sequence (no overlong forms, no       *)
(* surrogates, at most U+10FFFF) is one character, every other byte counts as one (replacement) character.            *)
InRange(s, p, lo, hi) == p <= Len(s) /\ s[p] >= lo /\ s[p] <= hi
ContByte(s, p) == InRange(s, p, 128, 191)
RuneLen(s, p) ==
  LET b == s[p] IN
  IF b < 128 THEN 1
  ELSE IF b >= 194 /\ b <= 223 /\ ContByte(s, p + 1) THEN 2
  ELSE IF b >= 224 /\ b <= 239 /\ InRange(s, p + 1, IF b = 224 THEN 160 ELSE 128, IF b = 237 THEN 159 ELSE 191) /\ ContByte(s, p + 2) THEN 3
  ELSE IF b >= 240 /\ b <= 244 /\ InRange(s, p + 1, IF b = 240 THEN 144 ELSE 128, IF b = 244 THEN 143 ELSE 191)
          /\ ContByte(s, p + 2) /\ ContByte(s, p + 3) THEN 4
  ELSE 1
RECURSIVE RuneCount(_, _)
RuneCount(s, p) == IF p > Len(s) THEN 0 ELSE 1 + RuneCount(s, p + RuneLen(s, p))

(* ------------------------------ validations ----------------------------- *)
NumNorm(v) == IF v.k = "int" THEN [neg |-> v.neg, D |-> StripTZ(v.mag), sci |-> Len(v.mag) - 1]
              ELSE [neg |-> v.neg, D |-> v.mag, sci |-> v.sci]
NumSign(n) == IF n.D = <<>> THEN 0 ELSE IF n.neg THEN 0 - 1 ELSE 1
NumMagCmp(a, b) == IF a.sci < b.sci THEN "lt" ELSE IF a.sci > b.sci THEN "gt" ELSE LexCmp(a.D, b.D, 1)
Flip(c) == IF c = "lt" THEN "gt" ELSE IF c = "gt" THEN "lt" ELSE "eq"
NumCmp(va, vb) ==
  LET a == NumNorm(va)  b == NumNorm(vb) IN
  IF NumSign(a) < NumSign(b) THEN "lt" ELSE IF NumSign(a) > NumSign(b) THEN "gt"
  ELSE IF NumSign(a) = 0 THEN "eq" ELSE IF NumSign(a) = 1 THEN NumMagCmp(a, b) ELSE Flip(NumMagCmp(a, b))

ValEqNum(va, vb) == NumCmp(va, vb) = "eq"
ValSame(va, vb) == IF va.k \in {"int", "float"} /\ vb.k \in {"int", "float"} THEN ValEqNum(va, vb) ELSE va = vb

\* the literal texts of bounds / enum values are read with the element type's own denotation
BoundV(type, format, txt) == TheOK(Denote(type, format, txt)).val

ScalarValid(vd, type, format, v) ==
  CASE vd.k = "range" ->
         /\ vd.hasmin => LET c == NumCmp(v, BoundV(type, format, vd.min)) IN (IF vd.emin THEN c = "gt" ELSE c # "lt")
         /\ vd.hasmax => LET c == NumCmp(v, BoundV(type, format, vd.max)) IN (IF vd.emax THEN c = "lt" ELSE c # "gt")
    [] vd.k = "enum"  -> \E i \in DOMAIN vd.vals : ValSame(v, BoundV(type, format, vd.vals[i]))
    [] vd.k = "len"   -> /\ vd.hasmin => RuneCount(v.s, 1) >= DecVal(Digits(vd.min))   \* minLength / maxLength count characters,
                         /\ vd.hasmax => RuneCount(v.s, 1) <= DecVal(Digits(vd.max))   \* not bytes
    [] OTHER -> TRUE

Validates(d, v) ==
  IF d.type = "array"
  THEN /\ d.val.k \in {"range", "enum", "len"} => \A i \in DOMAIN v.items : ScalarValid(d.val, d.itype, d.iformat, v.items[i])
       /\ d.val.k = "items" =>
            /\ d.val.hasmin => Len(v.items) >= DecVal(Digits(d.val.min))
            /\ d.val.hasmax => Len(v.items) <= DecVal(Digits(d.val.max))
            /\ d.val.unique => \A i \in DOMAIN v.items : \A j \in DOMAIN v.items : (i # j) => ~ValSame(v.items[i], v.items[j])
  ELSE /\ ScalarValid(d.val, d.type, d.format, v)
       \* EmptyStringDefaultIsNoDefault (named deviation; the statement's "default" and "required" clauses both apply): a required
       \* string parameter whose declared default is "" is still "required" when nothing but "" can be bound (validate's stringValidator)
       /\ ~(d.type = "string" /\ d.required /\ ~d.allowEmpty /\ d.hasdef /\ d.def = << <<>> >> /\ v.k = "str" /\ v.s = <<>>)

\* ZeroValueValidated (named deviation): whatever is bound - the text's value, the default or the zero value - is validated
Validated(d, o) == IF o.k = "ok" /\ ~Validates(d, o.val) THEN REJ ELSE o
ValidatedSet(d, S) == { Validated(d, o) : o \in S } \cup (IF d.val.k # "none" /\ \E o \in S : o.k = "okany" THEN {REJ} ELSE {})

(* --------------------------- the request -------------------------------- *)
(* req = [pairs |-> Seq([k, v, bare, file, fn]), seg |-> bytes, other |-> Seq(pair), oenc |-> string]      *)
(* pairs: what is sent in the parameter's own location.  other: (key, text) pairs sent in the OPPOSITE     *)
(* location of the same request - the URL query string for a formData parameter, an urlencoded / multipart *)
(* body (oenc) for a query parameter.  The statement looks a parameter up "under the rules of its          *)
(* location": Occurrences never reads `other`.                                                             *)
HeaderTokenBytes == (48..57) \cup (65..90) \cup (97..122) \cup {33, 35, 36, 37, 38, 39, 42, 43, 45, 46, 94, 95, 96, 124, 126}
\* http.CanonicalHeaderKey
Canon(name) ==
  IF \A i \in DOMAIN name : name[i] \in HeaderTokenBytes
  THEN [i \in DOMAIN name |-> IF i = 1 \/ name[i - 1] = 45 THEN ToUpperB(name[i]) ELSE ToLowerB(name[i])]
  ELSE name

ValuesOf(ps) == [i \in DOMAIN ps |-> ps[i].v]

\* DECLARATIVE: the texts sent for the parameter, "looked up by the declared name under the rules of its location
\* (header names case-insensitively)"
NamesParam(d, key) == IF d.in = "header" THEN Lower(key) = Lower(d.name) ELSE key = d.name
Occurrences(d, req) ==
  IF d.in = "path" THEN <<req.seg>>
  ELSE ValuesOf(SelectSeq(req.pairs, LAMBDA p : NamesParam(d, p.k) /\ ~p.file))
FileParts(d, req) == SelectSeq(req.pairs, LAMBDA p : p.k = d.name /\ p.file)

\* FAITHFUL: runtime.Values(map).GetOK(name) - net/http stores received header fields under their canonical key
StoredKey(d, key) == IF d.in = "header" THEN Canon(key) ELSE key
LookupKey(d) == IF d.in = "header" /\ HeaderCanonicalLookup THEN Canon(d.name) ELSE d.name
\* the map the binder reads: URL.Query() / Header / MultipartForm.Value / PostForm (request.Form would append the query)
SourcePairs(d, req) ==
  IF d.in = "formData" /\ d.enc = "urlencoded" /\ ~FormDataFromBodyOnly THEN req.pairs \o req.other ELSE req.pairs
GetOK(d, req) ==
  IF d.in = "path" THEN <<req.seg>>
  ELSE ValuesOf(SelectSeq(SourcePairs(d, req), LAMBDA p : StoredKey(d, p.k) = LookupKey(d) /\ ~p.file))

(* --------------------------- collection formats ------------------------- *)
SepOf(cf) == CASE cf = "ssv" -> 32 [] cf = "tsv" -> 9 [] cf = "pipes" -> 124 [] OTHER -> 44
\* strings.TrimSpace: the UTF-8 encodings of the code points with unicode.IsSpace (U+0009-000D, 0020, 0085, 00A0, 1680,
\* 2000-200A, 2028, 2029, 202F, 205F, 3000); an ill-formed byte is never white space
SpaceSeqs == { <<b>> : b \in {9, 10, 11, 12, 13, 32} } \cup { <<194, 133>>, <<194, 160>>, <<225, 154, 128>> }
             \cup { <<226, 128, b>> : b \in (128..138) \cup {168, 169, 175} } \cup { <<226, 129, 159>>, <<227, 128, 128>> }
SpacePrefixLen(s) == IF \E n \in 1..3 : Len(s) >= n /\ SubSeq(s, 1, n) \in SpaceSeqs
                     THEN CHOOSE n \in 1..3 : Len(s) >= n /\ SubSeq(s, 1, n) \in SpaceSeqs ELSE 0
SpaceSuffixLen(s) == IF \E n \in 1..3 : Len(s) >= n /\ SubSeq(s, Len(s) - n + 1, Len(s)) \in SpaceSeqs
                     THEN CHOOSE n \in 1..3 : Len(s) >= n /\ SubSeq(s, Len(s) - n + 1, Len(s)) \in SpaceSeqs ELSE 0
RECURSIVE TrimL(_)
TrimL(s) == IF SpacePrefixLen(s) > 0 THEN TrimL(SubSeq(s, SpacePrefixLen(s) + 1, Len(s))) ELSE s
RECURSIVE TrimR(_)
TrimR(s) == IF SpaceSuffixLen(s) > 0 THEN TrimR(SubSeq(s, 1, Len(s) - SpaceSuffixLen(s))) ELSE s
Trim(s) == TrimR(TrimL(s))

RECURSIVE SplitBy(_, _)
SplitBy(txt, sep) ==
  IF ~ContainsByte(txt, sep) THEN <<txt>>
  ELSE LET i == CHOOSE k \in DOMAIN txt : txt[k] = sep /\ \A j \in 1..(k - 1) : txt[j] # sep IN
       <<SubSeq(txt, 1, i - 1)>> \o SplitBy(SubSeq(txt, i + 1, Len(txt)), sep)

\* swag.SplitByFormat - TrimAndDropEmptyItems (named deviation): items are trimmed, empty items dropped
SplitByFormat(txt, cf) ==
  IF txt = <<>> THEN <<>>
  ELSE LET parts == SplitBy(txt, SepOf(cf)) IN
       SelectSeq([i \in DOMAIN parts |-> Trim(parts[i])], LAMBDA s : s # <<>>)

AllowsMulti(d) == d.in \in {"query", "formData"}

(***************************************************************************)
(* FAITHFUL MODEL                                                          *)
(***************************************************************************)
\* typeForSchema(type, format, items) = nil ?
TypeIsNil(type, format) == type = "number" /\ format \notin {"float", "double"} /\ ~NumberDefaultsToDouble
DeclTypeIsNil(d) == IF d.type = "array" THEN TypeIsNil(d.itype, d.iformat) ELSE TypeIsNil(d.type, d.format)

\* does the Go type of (type, format) implement encoding.TextUnmarshaler
Unmarshals(type, format) == type = "string" /\ IsFormat(format)

\* setFieldValue(target of (type, format), defaultValue = defv (<<>> | <<text>>), data, hasKey)
SetFieldValue(d, type, format, defv, data, hasKey) ==
  IF (~hasKey \/ (~d.allowEmpty /\ data = <<>>)) /\ d.required /\ ~d.hasdef THEN REJ        \* errors.Required
  ELSE IF Unmarshals(type, format) THEN                                                       \* tryUnmarshaler
    LET info == FormatInfo(format) IN
    IF defv # <<>> /\ data = <<>>
    THEN (IF FormatDefaultParsed THEN TheOK(DenoteFormat(format, defv[1])) ELSE PANIC)        \* target.Set(reflect.ValueOf(default))
    ELSE IF info.class = "named" THEN OK(TextV(info.kind, data), info.dyn)                    \* UnmarshalText of named strings accepts all
    ELSE IF data = <<>> THEN (IF info.empty = <<>> THEN REJ ELSE OK(TextV(info.kind, info.empty[1]), info.dyn))
    ELSE LET S == DenoteFormat(format, data) IN IF HasOK(S) THEN TheOK(S) ELSE CHOOSE o \in S : TRUE
  ELSE IF data = <<>> THEN                                                                     \* every Kind branch: data == "" -> default or zero
    (IF defv # <<>> THEN TheOK(Denote(type, format, defv[1])) ELSE ZeroOutcome(type, format))
  ELSE CASE type = "boolean" -> OK(BoolV(Lower(data) \in TrueWords), "bool")                 \* swag.ConvertBool never fails
         [] type = "integer" ->
              LET l == IntLit(data) IN
              IF ~(l.ok /\ IntFits(l.neg, l.mag, 64)) THEN REJ                                 \* strconv.ParseInt(data, 10, 64)
              ELSE IF ~IntFits(l.neg, l.mag, Bits(format)) THEN REJ                            \* target.OverflowInt
              ELSE OK(IntV(l.neg, l.mag), IntDyn(format))
         [] type = "number" ->
              LET S == DenoteFloat(format, data) IN                                            \* ParseFloat + OverflowFloat
              IF HasOK(S) THEN TheOK(S) ELSE IF OKANY(FloatDyn(format)) \in S THEN OKANY(FloatDyn(format)) ELSE REJ
         [] OTHER -> OK(TextV("str", data), "string")

\* named string values are handed to validate.ParamValidator as their own type: stringValidator's data.(string) fails
NamedStringRejected(type, format) == type = "string" /\ IsFormat(format) /\ FormatInfo(format).class = "named" /\ ~NamedStringValidated

\* the format validator sees the text of named-string values (struct-typed formats are checked by UnmarshalText already)
FormatValid(type, format, o) ==
  IF o.k = "ok" /\ type = "string" /\ IsFormat(format) /\ FormatInfo(format).class = "named"
  THEN LET info == FormatInfo(format) IN
       IF o.val.s = <<>> THEN info.empty # <<>>
       ELSE (\E pr \in info.valid : pr[1] = o.val.s) \/ (info.open /\ o.val.s \notin info.invalid)
  ELSE TRUE

SetSliceFieldValue(d, items, hasKey) ==
  LET sz == Len(items) IN
  IF (~hasKey \/ (~d.allowEmpty /\ (sz = 0 \/ (sz = 1 /\ items[1] = <<>>)))) /\ d.required /\ ~d.hasdef THEN REJ
  ELSE IF sz = 0 THEN
    (IF d.hasdef
     THEN (IF ArrayDefaultConverted
           THEN OK(ListV([i \in DOMAIN d.def |-> TheOK(Denote(d.itype, d.iformat, d.def[i])).val]), DynOf(d))
           ELSE PANIC)                                                                          \* target.Set([]interface{})
     ELSE OK(ListV(<<>>), DynOf(d)))
  ELSE LET outs == [i \in DOMAIN items |-> SetFieldValue(d, d.itype, d.iformat, <<>>, items[i], hasKey)] IN
       IF \E i \in DOMAIN outs : outs[i].k \in {"rej", "panic", "unknown"}
       THEN outs[CHOOSE i \in DOMAIN outs : outs[i].k \in {"rej", "panic", "unknown"} /\ \A j \in 1..(i - 1) : outs[j].k \notin {"rej", "panic", "unknown"}]
       ELSE IF \E i \in DOMAIN outs : outs[i].k = "okany" THEN OKANY(DynOf(d))
       ELSE OK(ListV([i \in DOMAIN outs |-> outs[i].val]), DynOf(d))

\* untypedParamBinder.Bind + readValue + bindValue, then the validator call of UntypedRequestBinder.Bind
BindParam(d, req) ==
  IF d.type = "file" THEN
    LET fs == FileParts(d, req) IN
    IF fs # <<>> THEN OK(FileV(fs[1].fn, fs[1].v), "swag.File")                               \* request.FormFile: first file
    ELSE IF d.required THEN (IF RequiredFileIs422 THEN REJ ELSE ERR400) ELSE OK(NoFileV, "swag.File")
  ELSE LET vals == GetOK(d, req)  hasKey == vals # <<>> IN
  IF d.type = "array" THEN
     IF d.cf = "multi" THEN (IF ~AllowsMulti(d) THEN REJ ELSE SetSliceFieldValue(d, vals, hasKey))
     ELSE SetSliceFieldValue(d, IF hasKey THEN SplitByFormat(LastOf(vals), d.cf) ELSE <<>>, hasKey)
  ELSE SetFieldValue(d, d.type, d.format, IF d.hasdef THEN <<d.def[1]>> ELSE <<>>, IF hasKey THEN LastOf(vals) ELSE <<>>, hasKey)

Outcome(d, req) ==
  IF DeclTypeIsNil(d) THEN PANIC                                                                \* param.Schema.Type on a nil Schema
  ELSE LET o == BindParam(d, req) IN
       IF o.k # "ok" THEN o
       ELSE IF d.type = "array" /\ o.val.items # <<>> /\ NamedStringRejected(d.itype, d.iformat) THEN REJ
       ELSE IF d.type # "array" /\ NamedStringRejected(d.type, d.format) THEN REJ
       ELSE IF d.type = "array" /\ ItemFormatValidated /\ \E i \in DOMAIN o.val.items : ~FormatValid(d.itype, d.iformat, OK(o.val.items[i], "")) THEN REJ
       ELSE IF d.type # "array" /\ ~FormatValid(d.type, d.format, o) THEN REJ
       ELSE Validated(d, o)

(***************************************************************************)
(* DECLARATIVE: the outcomes the statement allows                          *)
(***************************************************************************)
DefaultOutcome(d) ==
  IF d.type = "array" THEN OK(ListV([i \in DOMAIN d.def |-> TheOK(Denote(d.itype, d.iformat, d.def[i])).val]), DynOf(d))
  ELSE TheOK(Denote(d.type, d.format, d.def[1]))

AllowedScalar(d, occ) ==
  LET absent == occ = <<>>
      txt == IF absent THEN <<>> ELSE LastOf(occ)            \* "the last occurrence for scalars"
  IN IF absent \/ txt = <<>> THEN
       IF d.hasdef THEN ValidatedSet(d, {DefaultOutcome(d)})                       \* "the declared default when absent or empty"
       ELSE IF d.required /\ (absent \/ ~d.allowEmpty) THEN {REJ}                   \* "a required parameter is missing"
       ELSE ValidatedSet(d, {ZeroOutcome(d.type, d.format)})                       \* ZeroWhenAbsent
     ELSE ValidatedSet(d, Denote(d.type, d.format, txt))

\* outcomes for one item text of an array
ItemOutcomes(d, txt) ==
  IF txt = <<>>     \* only possible with multi (RequiredAppliesToItems: a named deviation)
  THEN (IF d.required /\ ~d.hasdef /\ ~d.allowEmpty THEN {REJ} ELSE {ZeroOutcome(d.itype, d.iformat)})
  ELSE Denote(d.itype, d.iformat, txt)

AllowedArray(d, occ) ==
  LET absent == occ = <<>>
      items == IF d.cf = "multi" THEN occ                                           \* "the repeated items"
               ELSE IF absent THEN <<>> ELSE SplitByFormat(LastOf(occ), d.cf)       \* "the split items" of the last occurrence
      missing == absent \/ (~d.allowEmpty /\ (items = <<>> \/ items = << <<>> >>))
  IN IF d.cf = "multi" /\ ~AllowsMulti(d) THEN {REJ}                                 \* MultiOnlyQueryForm: not a legal declaration
     ELSE IF missing /\ d.required /\ ~d.hasdef THEN {REJ}
     ELSE IF items = <<>> THEN ValidatedSet(d, {IF d.hasdef THEN DefaultOutcome(d) ELSE OK(ListV(<<>>), DynOf(d))})
     ELSE LET S == [i \in DOMAIN items |-> ItemOutcomes(d, items[i])] IN
          IF \E i \in DOMAIN S : UNKNOWN \in S[i] THEN {}
          ELSE (IF \E i \in DOMAIN S : REJ \in S[i] THEN {REJ} ELSE {})
               \cup (IF \E i \in DOMAIN S : S[i] = {REJ} THEN {}
                     ELSE IF \E i \in DOMAIN S : ~HasOK(S[i]) THEN ValidatedSet(d, {OKANY(DynOf(d))})
                     ELSE ValidatedSet(d, {OK(ListV([i \in DOMAIN S |-> TheOK(S[i]).val]), DynOf(d))}))

AllowedFile(d, req) ==
  LET fs == FileParts(d, req) IN
  IF fs # <<>> THEN {OK(FileV(fs[1].fn, fs[1].v), "swag.File")}
  ELSE IF d.required THEN {REJ} ELSE {OK(NoFileV, "swag.File")}

Allowed(d, req) ==
  LET S == CASE d.type = "file"  -> AllowedFile(d, req)
             [] d.type = "array" -> AllowedArray(d, Occurrences(d, req))
             [] OTHER            -> AllowedScalar(d, Occurrences(d, req))
  IN IF UNKNOWN \in S THEN {} ELSE S

\* an okany in the allowed set admits every ok outcome of that dynamic type
Admits(S, o) == o \in S \/ (o.k = "ok" /\ OKANY(o.dyn) \in S)
=============================================================================
