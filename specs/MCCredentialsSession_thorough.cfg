SPECIFICATION Spec
CONSTANTS
  Mutant = "none"
  MaxSteps = 4
INVARIANTS Holds NothingRemembered OperationUnchanged
CHECK_DEADLOCK FALSE
