SPECIFICATION Spec
CONSTANTS
  Mutant = "none"
  MaxSteps = 4
INVARIANTS Holds NothingRemembered
CHECK_DEADLOCK FALSE
