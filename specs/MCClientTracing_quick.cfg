SPECIFICATION Spec
CONSTANTS
  RestoresOp = TRUE
  ClientStatusRule = TRUE
  CopiesOpts = TRUE
  SharedSpanVar = FALSE
  MaxCalls = 2
  Statuses = {100, 200, 204, 299, 302, 399, 400, 404, 451, 499, 500, 503}
  Unassigned = {299, 399, 499}
INVARIANTS InvProp InvSpans InvFinished InvNoPanic InvNoRace InvClosure
PROPERTIES Terminates
CHECK_DEADLOCK FALSE
