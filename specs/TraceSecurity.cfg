SPECIFICATION Spec
CONSTANTS SkipsUnregistered = FALSE
CHECK_DEADLOCK FALSE
