SPECIFICATION Spec
CONSTANTS
  SharedField = "none"
  NReqs = 1
  MaxSwitches = 0
  Mode = "solo"
POSTCONDITION Written
CHECK_DEADLOCK FALSE
