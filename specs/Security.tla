------------------------------ MODULE Security ------------------------------
(* C02 - security requirements are an OR of ANDs; nothing runs unless one   *)
(* alternative is satisfied.                                                *)
(*                                                                          *)
(* Part 1: data (a configuration + the per-request outcome vector).         *)
(* Part 2: the PROPERTY, stated declaratively over what can be observed at  *)
(*         the end of one request (DoneOK and its named clauses).           *)
(* Part 3: a FAITHFUL step-by-step model of                                 *)
(*           newSecureAPI                      middleware/security.go       *)
(*           Context.Authorize                 middleware/context.go        *)
(*           RouteAuthenticators.Authenticate  middleware/router.go         *)
(*           RouteAuthenticator.Authenticate   middleware/router.go         *)
(*         one action per authenticator call, the order of the schemes of   *)
(*         an alternative chosen nondeterministically (it is a Go map       *)
(*         iteration order fixed when the router is built).                 *)
(* MCSecurity checks  Part 3 |= Part 2  for every configuration in bounds;  *)
(* TraceSecurity checks every execution of the real handler against Part 2. *)
EXTENDS Naturals, Sequences, FiniteSets, TLC, SequencesExt

CONSTANT SkipsUnregistered   \* as-built switch for defect D14 (TRUE = what the tree does:
                             \* a scheme without authenticator inside an alternative is skipped).
                             \* The normative model (FALSE) treats the alternative as not applicable.


-----------------------------------------------------------------------------
(* Part 1 - configuration                                                   *)
(*   c.alts  : sequence of alternatives [schemes: Seq(name), scopes: Seq(Seq(scope))]   *)
(*             (scopes[i] belongs to schemes[i]; schemes = <<>> is the anonymous one).  *)
(*             <<>> = the operation declares no security at all.            *)
(*   c.out   : [scheme -> [k, p, code, msg]]  outcome of the scheme's authenticator for  *)
(*             this request: k = "na"   no credentials found (applies = false)           *)
(*                           "ok"   accepted, principal p                                *)
(*                           "nilp" accepted, nil principal                              *)
(*                           "rej"  credentials rejected with error (code, msg);         *)
(*                                  code 0 = an error that carries no status (-> 500)    *)
(*   c.avail : sequence of the schemes that have a registered authenticator *)
(*   c.authz : "none" | "allow" | "deny" | "denyStatus"                     *)

Kinds      == {"na", "ok", "nilp", "rej"}
AuthzModes == {"none", "allow", "deny", "denyStatus"}
Variants   == {"good", "query", "ctype", "accept", "formvalid", "forminvalid"}   \* what else is wrong with the request
   \* (form*: an urlencoded body - not consumed by the operation - with fields named like the query api keys)

Avail(c, s)    == \E i \in DOMAIN c.avail : c.avail[i] = s
IsAnon(alt)    == alt.schemes = <<>>
HasAnon(c)     == \E i \in DOMAIN c.alts : IsAnon(c.alts[i])
NoSecurity(c)  == c.alts = <<>>
AllScopes(alt) == UNION { Range(alt.scopes[i]) : i \in DOMAIN alt.scopes }
InSomeAlt(c, s) == \E i \in DOMAIN c.alts : s \in Range(c.alts[i].schemes)

SchemeErr(c, s) == [code |-> c.out[s].code, msg |-> c.out[s].msg]
AuthzErr(mode)  == IF mode = "deny" THEN [code |-> 403, msg |-> "authz-deny"]     \* plain error -> 403
                                    ELSE [code |-> 451, msg |-> "authz-own"]      \* carries its own status
HTTPStatus(err) == IF err.code = 0 THEN 500 ELSE err.code
HandlerErr      == [code |-> 418, msg |-> "handler-ran"]   \* what the instrumented handler returns

-----------------------------------------------------------------------------
(* Part 2 - the property.                                                   *)
(* Observation of one request:                                              *)
(*   calls : sequence of schemes whose authenticator was consulted          *)
(*   authz : sequence of principals (<<>> = nil, <<p>>) handed to the authorizer         *)
(*   o     : [status, err:[code,msg], ran, bind, consumer_calls, principal, scopes]      *)
(*           err = the error the API's error responder received, principal/scopes =      *)
(*           what SecurityPrincipalFrom / SecurityScopesFrom show downstream             *)

Called(calls)      == Range(calls)
Rejected(c, calls) == { s \in Called(calls) : c.out[s].k = "rej" }

\* Named reading `ShortCircuit`: "a scheme rejected credentials" = a *consulted* scheme did;
\* schemes after a not-applicable / rejecting one in the same alternative are never consulted.
\* Named reading `LastPrincipalWins`: an alternative is satisfied when every scheme in it has an
\* authenticator, was consulted and accepted, and the alternative yields a non-nil principal
\* (the principal of one of its accepting schemes - the code takes the last evaluated one).
SatisfiedBy(c, calls, i) ==
  /\ ~IsAnon(c.alts[i])
  /\ \A t \in Range(c.alts[i].schemes) :
        Avail(c, t) /\ t \in Called(calls) /\ c.out[t].k \in {"ok", "nilp"}

\* what an admitted request may expose (principal, scopes): "come from the satisfied alternative"
Witnesses(c, calls) ==
  { [principal |-> <<c.out[x[2]].p>>, scopes |-> AllScopes(c.alts[x[1]])] :
      x \in { y \in (DOMAIN c.alts) \X (DOMAIN c.out) :
                /\ SatisfiedBy(c, calls, y[1])
                /\ y[2] \in Range(c.alts[y[1]].schemes)
                /\ c.out[y[2]].k = "ok" } }
  \cup
  \* "the anonymous alternative admits only when no scheme rejected credentials that were presented"
  (IF HasAnon(c) /\ Rejected(c, calls) = {} THEN { [principal |-> <<>>, scopes |-> {}] } ELSE {})

\* OR-completeness (title: "an OR of ANDs"): authentication must succeed when some alternative is
\* satisfied whatever the order (every scheme accepts with a principal), or anonymous access is
\* declared and nothing was rejected.
MustAuthenticate(c, calls) ==
  \/ \E i \in DOMAIN c.alts :
        /\ ~IsAnon(c.alts[i])
        /\ \A t \in Range(c.alts[i].schemes) : Avail(c, t) /\ c.out[t].k = "ok"
  \/ HasAnon(c) /\ Rejected(c, calls) = {}

ScriptedSecurityErrors(c) ==
  { SchemeErr(c, s) : s \in { t \in DOMAIN c.out : c.out[t].k = "rej" } }
  \cup { AuthzErr("deny"), AuthzErr("denyStatus") }

\* the request was refused by the security stage (as opposed to: it went on into the pipeline)
IsRefusal(c, o) == o.err.code = 401 \/ o.err \in ScriptedSecurityErrors(c)

SameScopes(seq, set) == Range(seq) = set /\ Len(seq) = Cardinality(set)

\* -- clause: an operation without security never consults an authenticator
ClauseNoSecurity(c, calls, authz, o) ==
  NoSecurity(c) => calls = <<>> /\ authz = <<>> /\ ~IsRefusal(c, o)

\* -- clause: handler / binding / consumer run only for a satisfied alternative accepted by the authorizer,
\*            and what they can read comes from that alternative
ClauseAdmit(c, calls, authz, o) ==
  (~NoSecurity(c) /\ ~IsRefusal(c, o)) =>
     \E w \in Witnesses(c, calls) :
        /\ c.authz \in {"none", "allow"}
        /\ authz = (IF c.authz = "none" THEN <<>> ELSE <<w.principal>>)
        /\ o.principal = w.principal
        /\ SameScopes(o.scopes, w.scopes)

\* -- clause: every other request is refused with the rejecting scheme's error / 401 / the authorizer's error
RefusalAllowed(c, calls, authz, o) ==
  \/ /\ authz = <<>>                         \* authentication failed, a consulted scheme rejected
     /\ Rejected(c, calls) # {}
     /\ o.err \in { SchemeErr(c, s) : s \in Rejected(c, calls) }
     /\ ~MustAuthenticate(c, calls)
  \/ /\ authz = <<>>                         \* no alternative applied
     /\ Rejected(c, calls) = {}
     /\ o.err.code = 401
     /\ ~MustAuthenticate(c, calls)
  \/ /\ c.authz \in {"deny", "denyStatus"}   \* authenticated, the authorizer refused that principal
     /\ \E w \in Witnesses(c, calls) : authz = <<w.principal>>
     /\ o.err = AuthzErr(c.authz)

ClauseRefuse(c, calls, authz, o) ==
  IsRefusal(c, o) =>
     /\ ~NoSecurity(c)
     /\ RefusalAllowed(c, calls, authz, o)
     /\ o.status = HTTPStatus(o.err)
     \* "whatever else is right or wrong with the request, neither parameter binding nor the handler runs"
     /\ ~o.ran /\ ~o.bind /\ o.consumer_calls = 0

\* -- clause: an authenticator is consulted only if it is declared for the operation and registered
CallOK(c, scheme) == ~NoSecurity(c) /\ InSomeAlt(c, scheme) /\ Avail(c, scheme)

\* -- clause: every consultation is made on behalf of one alternative of the *requested operation*, with the scopes
\*            that alternative declares for the scheme (RequiredScopes), and an alternative consults a scheme at most once:
\*            the consultations of scheme s with scopes v are no more than the alternatives declaring s with exactly v.
ScopesOf(alt, s)  == alt.scopes[CHOOSE k \in DOMAIN alt.schemes : alt.schemes[k] = s]
Capacity(c, s, v) == Cardinality({ i \in DOMAIN c.alts : s \in Range(c.alts[i].schemes) /\ ScopesOf(c.alts[i], s) = v })
CallScopesOK(c, calls, cscopes) ==
  \A n \in DOMAIN calls :
     Cardinality({ m \in DOMAIN calls : calls[m] = calls[n] /\ cscopes[m] = cscopes[n] }) <= Capacity(c, calls[n], cscopes[n])

DoneOK(c, calls, authz, o) ==
  /\ ClauseNoSecurity(c, calls, authz, o)
  /\ ClauseAdmit(c, calls, authz, o)
  /\ ClauseRefuse(c, calls, authz, o)

DoneWhy(c, calls, authz, o) ==
  IF ~ClauseNoSecurity(c, calls, authz, o) THEN "no-security-declared-but-security-acted"
  ELSE IF ~ClauseAdmit(c, calls, authz, o) THEN
       (IF Witnesses(c, calls) = {} THEN "admitted-without-satisfied-alternative"
        ELSE IF c.authz \in {"deny", "denyStatus"} THEN "admitted-despite-authorizer"
        ELSE IF ~\E w \in Witnesses(c, calls) : authz = (IF c.authz = "none" THEN <<>> ELSE <<w.principal>>)
             THEN "authorizer-not-consulted-with-the-principal"
        ELSE "principal-or-scopes-not-from-satisfied-alternative")
  ELSE IF ~RefusalAllowed(c, calls, authz, o) THEN
       (IF MustAuthenticate(c, calls) /\ authz = <<>> THEN "refused-although-an-alternative-is-satisfied"
        ELSE "refused-with-wrong-error")
  ELSE IF o.status # HTTPStatus(o.err) THEN "refusal-status-differs-from-error"
  ELSE "refused-but-binding-consumer-or-handler-ran"

-----------------------------------------------------------------------------
(* Part 3 - faithful model.  State of one request:                          *)
(*  pc         where the request is                                         *)
(*  ai         index of the alternative the OR loop is at                   *)
(*  todo       schemes of alternative ai not yet visited by the AND loop    *)
(*  lastResult `lastResult` of RouteAuthenticator.Authenticate (<<>> = nil) *)
(*  lastError  `lastError` of RouteAuthenticators.Authenticate (<<>> / <<scheme>>)      *)
(*  routeAuth  route.Authenticator: 0 = nil, else index of the alternative  *)
(*  anon       index of the anonymous alternative seen (0 = none)           *)
(*  ret        what RouteAuthenticators.Authenticate returned               *)
(*  calls, cscopes, authz, o   the observation (cscopes[n] = RequiredScopes handed to call n) *)

NoObs == [status |-> 0, err |-> [code |-> 0, msg |-> ""], ran |-> FALSE, bind |-> FALSE,
          consumer_calls |-> 0, principal |-> <<>>, scopes |-> <<>>]

EvInit == [pc |-> "secure", ai |-> 1, todo |-> {}, lastResult |-> <<>>, lastError |-> <<>>,
           routeAuth |-> 0, anon |-> 0,
           ret |-> [applies |-> FALSE, usr |-> <<>>, err |-> <<>>],
           calls |-> <<>>, cscopes |-> <<>>, authz |-> <<>>, o |-> NoObs]

\* newSecureAPI is only wrapped around operations with requirements (untyped/api.go) and
\* Authorize returns at once when the route has no authenticators.
Secure(c, e) ==
  IF NoSecurity(c) THEN [e EXCEPT !.pc = "pipeline"] ELSE [e EXCEPT !.pc = "alts"]

\* what RouteAuthenticators.Authenticate does with the result of one alternative:
\*   if !applies || err != nil || usr == nil { if err != nil { lastError = err }; continue }
\*   return applies, usr, nil
AfterAlt(e, applies, usr, err) ==
  IF ~applies \/ err # <<>> \/ usr = <<>>
  THEN [e EXCEPT !.pc = "alts", !.ai = e.ai + 1, !.todo = {},
                 !.lastError = IF err # <<>> THEN err ELSE e.lastError]
  ELSE [e EXCEPT !.pc = "authorize", !.todo = {},
                 !.ret = [applies |-> TRUE, usr |-> usr, err |-> <<>>]]

\* head of `for _, ra := range ras`
AltHead(c, e) ==
  IF e.ai > Len(c.alts)
  THEN \* after the loop: if allowsAnon && lastError == nil { route.Authenticator = &anonAuth; return true, nil, nil }
       \*                 return lastError != nil, nil, lastError
       IF e.anon # 0 /\ e.lastError = <<>>
       THEN [e EXCEPT !.pc = "authorize", !.routeAuth = e.anon,
                      !.ret = [applies |-> TRUE, usr |-> <<>>, err |-> <<>>]]
       ELSE [e EXCEPT !.pc = "authorize",
                      !.ret = [applies |-> e.lastError # <<>>, usr |-> <<>>, err |-> e.lastError]]
  ELSE IF IsAnon(c.alts[e.ai])
       THEN [e EXCEPT !.anon = e.ai, !.ai = e.ai + 1]               \* anonAuth = ra; continue
       ELSE [e EXCEPT !.pc = "schemes", !.todo = Range(c.alts[e.ai].schemes), !.lastResult = <<>>]

\* one iteration of `for _, scheme := range ra.Schemes` with the scheme the iteration order yields
SchemeStep(c, e, s) ==
  IF ~Avail(c, s)
  THEN IF SkipsUnregistered
       THEN [e EXCEPT !.todo = e.todo \ {s}]                        \* `if authenticator, ok := ...; ok {` (D14)
       ELSE AfterAlt(e, FALSE, <<>>, <<>>)                          \* normative: alternative not applicable
  ELSE LET e1 == [e EXCEPT !.calls = Append(e.calls, s),
                           !.cscopes = Append(e.cscopes, ScopesOf(c.alts[e.ai], s))]   \* RequiredScopes: ra.Scopes[scheme]
           k  == c.out[s].k
       IN CASE k = "na"   -> AfterAlt(e1, FALSE, <<>>, <<>>)                                      \* if !applies { return false, nil, nil }
            [] k = "rej"  -> AfterAlt([e1 EXCEPT !.routeAuth = e.ai], TRUE, <<>>, <<s>>)          \* if err != nil { route.Authenticator = ra; return true, nil, err }
            [] k = "ok"   -> [e1 EXCEPT !.todo = e.todo \ {s}, !.lastResult = <<c.out[s].p>>]     \* lastResult = princ
            [] k = "nilp" -> [e1 EXCEPT !.todo = e.todo \ {s}, !.lastResult = <<>>]

\* after the AND loop: route.Authenticator = ra; return true, lastResult, nil
SchemesDone(c, e) == AfterAlt([e EXCEPT !.routeAuth = e.ai], TRUE, e.lastResult, <<>>)

Refuse(e, err) ==
  [e EXCEPT !.pc = "done", !.o = [NoObs EXCEPT !.err = err, !.status = HTTPStatus(err)]]

\* Context.Authorize after Authenticate returned; `mode` = the registered authorizer
Authorize(c, e, mode) ==
  IF ~e.ret.applies \/ e.ret.err # <<>> \/ (~HasAnon(c) /\ e.ret.usr = <<>>)
  THEN IF e.ret.err # <<>> THEN Refuse(e, SchemeErr(c, e.ret.err[1]))
       ELSE Refuse(e, [code |-> 401, msg |-> "unauthenticated for invalid credentials"])
  ELSE IF mode = "none" THEN [e EXCEPT !.pc = "pipeline"]
  ELSE LET e1 == [e EXCEPT !.authz = <<e.ret.usr>>]
       IN IF mode = "allow" THEN [e1 EXCEPT !.pc = "pipeline"] ELSE Refuse(e1, AuthzErr(mode))

\* the rest of the request life cycle as far as this property looks at it: binding (with the consumer)
\* and the handler, for a request that is otherwise fine or broken in one aspect
PipelineErr(v) == CASE v = "good"   -> HandlerErr
                    [] v = "query"  -> [code |-> 602, msg |-> "required"]
                    [] v \in {"ctype", "formvalid", "forminvalid"} -> [code |-> 415, msg |-> "unsupported media type"]
                    [] v = "accept" -> [code |-> 406, msg |-> "not acceptable"]
Pipeline(c, e, v) ==
  LET secured == ~NoSecurity(c)
      scopes  == IF secured THEN AllScopes(c.alts[e.routeAuth]) ELSE {}
  IN [e EXCEPT !.pc = "done",
        !.o = [status |-> IF v = "query" THEN 422 ELSE PipelineErr(v).code,
               err |-> PipelineErr(v),
               ran |-> v = "good", bind |-> v \in {"good", "query"},
               consumer_calls |-> IF v \in {"good", "query"} THEN 1 ELSE 0,
               principal |-> IF secured THEN e.ret.usr ELSE <<>>,
               scopes |-> SetToSeq(scopes)]]
=============================================================================
