----------------------------- MODULE APIValidate -----------------------------
(***************************************************************************)
(* C19 - validation of an untyped API's registrations against its           *)
(* description (middleware/untyped/api.go) and its serving consequence      *)
(* (middleware/router.go AddRoute, middleware/validation.go,                *)
(* middleware/context.go Respond).                                          *)
(*                                                                         *)
(* Part 1  registrations:  NewAPI / WithoutJSONDefaults / Register*         *)
(* Part 2  requirements:   the analyzer's Required* sets                    *)
(* Part 3  FAITHFUL  Validate = validate() with verify() per category,      *)
(*         first failure returned                                           *)
(* Part 4  DECLARATIVE  ValidateAllowed(desc, reg, obs)                     *)
(* Part 5  request-time tables (AddRoute) and the classes of failure        *)
(*         "for lack of a registered consumer / producer / handler /        *)
(*         authenticator";  ServeAllowed = the serving consequence          *)
(*                                                                         *)
(* All names (media types, methods, paths, scheme names, operation keys)    *)
(* are byte strings = sequences of 0..255, so that the case normalisation   *)
(* of the Register* functions can be stated.                                *)
(*                                                                         *)
(*  sec  = [present |-> BOOLEAN, alts |-> Seq(Seq(name))]                   *)
(*         `security:` absent | a list of alternatives (AND-sets of names;  *)
(*         the empty alternative {} is the anonymous requirement)           *)
(*  op   = [method, path, consumes : Seq(mt), produces : Seq(mt), sec,      *)
(*          body : BOOLEAN (declares a body parameter),                     *)
(*          nocontent : BOOLEAN (its success response is 204 No Content)]   *)
(*  desc = [consumes, produces : Seq(mt), sec, defs : Seq(name), ops]       *)
(*  reg  = [json : BOOLEAN  (JSON defaults kept),                           *)
(*          consumers, producers : Seq(mt as passed to RegisterXxx),        *)
(*          ops : Seq([method, path]), auths : Seq(name)]                   *)
(***************************************************************************)
EXTENDS Naturals, Sequences, FiniteSets, TLC

CONSTANT Mutant   \* "none" (the code) | "one-directional" | "ignore-op-lists" | "memoised" |
                  \* "shared-scheme-buffer": mutated models kept only to show that TLC finds a violation

Rng(s) == {s[i] : i \in DOMAIN s}
ToLower(s) == [i \in DOMAIN s |-> IF s[i] \in 65..90  THEN s[i] + 32 ELSE s[i]]
ToUpper(s) == [i \in DOMAIN s |-> IF s[i] \in 97..122 THEN s[i] - 32 ELSE s[i]]

JSONMime == <<97,112,112,108,105,99,97,116,105,111,110,47,106,115,111,110>>   \* "application/json"
OpKey(method, path) == ToUpper(method) \o <<32>> \o path                     \* "GET /a"

(***************************************************************************)
(* Part 1 - what is registered.  NewAPI installs the JSON consumer and       *)
(* producer; WithoutJSONDefaults (called before any registration) removes them. *)
(* RegisterConsumer/Producer lower-case the media type, RegisterOperation    *)
(* upper-cases the method, RegisterAuth keeps the name.                      *)
(***************************************************************************)
Consumers(reg) == (IF reg.json THEN {JSONMime} ELSE {}) \cup {ToLower(m) : m \in Rng(reg.consumers)}
Producers(reg) == (IF reg.json THEN {JSONMime} ELSE {}) \cup {ToLower(m) : m \in Rng(reg.producers)}
Operations(reg) == {OpKey(o.method, o.path) : o \in Rng(reg.ops)}
Authenticators(reg) == Rng(reg.auths)
DefaultMime(reg) == IF reg.json THEN <<JSONMime>> ELSE <<>>      \* DefaultConsumes / DefaultProduces ("" when cleared)

(* One API value over time: every call that changes the registrations.       *)
(* a = [act, arg, arg2]                                                      *)
NewAPI == [json |-> TRUE, consumers |-> <<>>, producers |-> <<>>, ops |-> <<>>, auths |-> <<>>]
NotJSON(m) == ToLower(m) # JSONMime
Apply(reg, a) ==
  CASE a.act = "RegisterConsumer"    -> [reg EXCEPT !.consumers = Append(@, a.arg)]
    [] a.act = "RegisterProducer"    -> [reg EXCEPT !.producers = Append(@, a.arg)]
    [] a.act = "RegisterOperation"   -> [reg EXCEPT !.ops = Append(@, [method |-> a.arg, path |-> a.arg2])]
    [] a.act = "RegisterAuth"        -> [reg EXCEPT !.auths = Append(@, a.arg)]
    [] a.act = "WithJSONDefaults"    -> [reg EXCEPT !.json = TRUE]
    [] a.act = "WithoutJSONDefaults" -> [reg EXCEPT !.json = FALSE,      \* deletes the JSON entries, however they got there
                                                     !.consumers = SelectSeq(@, NotJSON), !.producers = SelectSeq(@, NotJSON)]
IsRegister(a) == a.act \in {"RegisterConsumer", "RegisterProducer", "RegisterOperation", "RegisterAuth"}

(***************************************************************************)
(* Part 2 - what the description requires (analysis.Spec).                   *)
(***************************************************************************)
AltNames(sec) == UNION {Rng(sec.alts[i]) : i \in DOMAIN sec.alts}

OpLists(desc, f(_)) == IF Mutant = "ignore-op-lists" THEN {} ELSE UNION {f(o) : o \in Rng(desc.ops)}

RequiredConsumes(desc) == Rng(desc.consumes) \cup OpLists(desc, LAMBDA o : Rng(o.consumes))
RequiredProduces(desc) == Rng(desc.produces) \cup OpLists(desc, LAMBDA o : Rng(o.produces))
OperationMethodPaths(desc) == {OpKey(o.method, o.path) : o \in Rng(desc.ops)}
RequiredSecuritySchemes(desc) == AltNames(desc.sec) \cup UNION {AltNames(o.sec) : o \in Rng(desc.ops)}
DefinedAuths(desc) == Rng(desc.defs)

(***************************************************************************)
(* Part 3 - faithful Validate.                                              *)
(***************************************************************************)
OKRes == [ok |-> TRUE, section |-> "", missingSpec |-> {}, missingReg |-> {}]

Verify(section, registrations, expectations) ==
  LET unspecified  == registrations \ expectations                       \* registered, not in the description
      unregistered == IF Mutant = "one-directional" THEN {} ELSE expectations \ registrations
  IN IF unspecified = {} /\ unregistered = {} THEN OKRes
     ELSE [ok |-> FALSE, section |-> section, missingSpec |-> unspecified, missingReg |-> unregistered]

Validate(desc, reg) ==
  LET r1 == Verify("consumes", Consumers(reg), RequiredConsumes(desc))
      r2 == Verify("produces", Producers(reg), RequiredProduces(desc))
      r3 == Verify("operation", Operations(reg), OperationMethodPaths(desc))
      r4 == Verify("auth scheme", Authenticators(reg), RequiredSecuritySchemes(desc))
      r5 == Verify("security definitions", DefinedAuths(desc), RequiredSecuritySchemes(desc))
  IN IF ~r1.ok THEN r1 ELSE IF ~r2.ok THEN r2 ELSE IF ~r3.ok THEN r3 ELSE IF ~r4.ok THEN r4 ELSE r5

(***************************************************************************)
(* Part 4 - the property.  Categories in the order the statement's "first    *)
(* failing category" refers to (the code's order).  For each category the    *)
(* pair (what is there, what the description requires).  Named deviation      *)
(* UndefinedSchemeReported: a requirement naming a scheme without definition  *)
(* (an invalid description) is reported in the last category as missing.     *)
(***************************************************************************)
Categories == <<"consumes", "produces", "operation", "auth scheme", "security definitions">>

Have(cat, desc, reg) ==
  CASE cat = "consumes"             -> Consumers(reg)
    [] cat = "produces"             -> Producers(reg)
    [] cat = "operation"            -> Operations(reg)
    [] cat = "auth scheme"          -> Authenticators(reg)
    [] cat = "security definitions" -> Rng(desc.defs)

Need(cat, desc) ==
  CASE cat = "consumes"             -> Rng(desc.consumes) \cup UNION {Rng(o.consumes) : o \in Rng(desc.ops)}
    [] cat = "produces"             -> Rng(desc.produces) \cup UNION {Rng(o.produces) : o \in Rng(desc.ops)}
    [] cat = "operation"            -> {OpKey(o.method, o.path) : o \in Rng(desc.ops)}
    [] cat = "auth scheme"          -> AltNames(desc.sec) \cup UNION {AltNames(o.sec) : o \in Rng(desc.ops)}
    [] cat = "security definitions" -> AltNames(desc.sec) \cup UNION {AltNames(o.sec) : o \in Rng(desc.ops)}

Coincide(desc, reg) == \A i \in DOMAIN Categories : Have(Categories[i], desc, reg) = Need(Categories[i], desc)

FirstFailing(desc, reg) ==
  CHOOSE i \in DOMAIN Categories :
     /\ Have(Categories[i], desc, reg) # Need(Categories[i], desc)
     /\ \A j \in 1..(i - 1) : Have(Categories[j], desc, reg) = Need(Categories[j], desc)

(* obs = [ok, section, missingSpec : set, missingReg : set]                  *)
ValidateWhy(desc, reg, obs) ==
  IF Coincide(desc, reg) THEN (IF obs.ok THEN "ok" ELSE "rejects-although-registrations-coincide")
  ELSE IF obs.ok THEN "passes-although-registrations-differ"
  ELSE LET c == Categories[FirstFailing(desc, reg)] IN
       IF obs.section # c THEN "not-the-first-failing-category"
       ELSE IF obs.missingReg # Need(c, desc) \ Have(c, desc, reg) THEN "missing-items"
       ELSE IF obs.missingSpec # Have(c, desc, reg) \ Need(c, desc) THEN "superfluous-items"
       ELSE "ok"

ValidateAllowed(desc, reg, obs) == ValidateWhy(desc, reg, obs) = "ok"

(***************************************************************************)
(* Part 5 - serving.  AddRoute builds, per operation, the request-time       *)
(* tables from the registrations; the failures "for lack of" are             *)
(*   no-handler       : no route was added (HandlerFor failed) -> 404/405    *)
(*   no-consumer      : 500 "no consumer registered for <ct>"                *)
(*   no-producer      : panic / 500 "can't find a producer for <format>"     *)
(*   no-authenticator : a required scheme has no authenticator               *)
(***************************************************************************)
LackClasses == {"no-handler", "no-consumer", "no-producer", "no-authenticator"}

ConsumesFor(desc, o) == IF o.consumes # <<>> THEN Rng(o.consumes) ELSE Rng(desc.consumes)
ProducesFor(desc, o) == IF o.produces # <<>> THEN Rng(o.produces) ELSE Rng(desc.produces)
SecurityFor(desc, o) == IF o.sec.present THEN o.sec.alts ELSE IF desc.sec.present THEN desc.sec.alts ELSE <<>>

RouteConsumes(desc, reg, o)  == ConsumesFor(desc, o) \cup Rng(DefaultMime(reg))
RouteProduces(desc, reg, o)  == ProducesFor(desc, o) \cup Rng(DefaultMime(reg))
RouteConsumers(desc, reg, o) == RouteConsumes(desc, reg, o) \cap Consumers(reg)     \* api.ConsumersFor(...)
RouteProducers(desc, reg, o) == RouteProduces(desc, reg, o) \cap Producers(reg)     \* api.ProducersFor(...)
HasHandler(reg, o)           == OpKey(o.method, o.path) \in Operations(reg)
AltAuthenticators(desc, reg, alt) == Rng(alt) \cap DefinedAuths(desc) \cap Authenticators(reg)

(* media types to which the serving consequence applies                     *)
CleanMime(m) == m = ToLower(m) /\ \A i \in DOMAIN m : m[i] \notin {59, 42, 32}    \* no ';' '*' ' '
CleanDesc(desc) == \A m \in Need("consumes", desc) \cup Need("produces", desc) : CleanMime(m)

(* a request the description describes: Content-Type among the operation's   *)
(* consumes when (and only when) it declares a body, Accept among its        *)
(* produces or absent; an operation with a body needs some consumes, every   *)
(* operation some produces (named deviation NoMediaTypeNoDefaults: a          *)
(* description without media types served without JSON defaults cannot       *)
(* produce anything; nothing could have been registered for it).             *)
(* Credentials: alt names the alternative of the operation's security whose   *)
(* schemes - exactly those - the request carries valid credentials for        *)
(* (0 = no credentials: unsecured operation, or an anonymous alternative).    *)
CredsOK(desc, o, alt) ==
  LET alts == SecurityFor(desc, o) IN
  IF alts = <<>> THEN alt = 0
  ELSE alt \in DOMAIN alts \/ (alt = 0 /\ \E i \in DOMAIN alts : alts[i] = <<>>)

(* an answer without body needs no producer: 204 No Content, or any answer to HEAD *)
HEADm == <<72, 69, 65, 68>>
NoBodyAnswer(o) == o.nocontent \/ ToUpper(o.method) = HEADm

(* The Content-Type of a request names a media type case-insensitively ("Application/JSON"). *)
(* Accept: none, one declared type, or "first, accept;q=0.8" where `first` is a type the operation does NOT declare,  *)
(* listed with higher preference before a declared one (jQuery's "application/json, text/javascript, ...").           *)
WellFormedReq(desc, o, ctype, accept, first, alt) ==
  /\ ProducesFor(desc, o) # {} \/ NoBodyAnswer(o)
  /\ accept = <<>> \/ accept \in ProducesFor(desc, o)
  /\ first = <<>> \/ (accept # <<>> /\ first \notin ProducesFor(desc, o))
  /\ IF o.body THEN ToLower(ctype) \in ConsumesFor(desc, o) ELSE ctype = <<>>
  /\ CredsOK(desc, o, alt)

(* buildAuthenticators: per alternative the scheme names that Authenticate    *)
(* walks and the authenticators it finds under them                           *)
RouteSchemes(alts, j) == IF Mutant = "shared-scheme-buffer" THEN alts[Len(alts)] ELSE alts[j]

(* the faithful outcome classes of serving such a request when consumers and  *)
(* producers succeed and every authenticator accepts exactly the credentials  *)
(* of its own scheme                                                          *)
ServeClasses(desc, reg, o, ctype, accept, first, alt) ==
  IF ~HasHandler(reg, o) THEN {"no-handler"}
  ELSE LET alts  == SecurityFor(desc, o)
           creds == IF alt = 0 THEN {} ELSE Rng(alts[alt])
           have(j) == Rng(alts[j]) \cap Authenticators(reg) \cap DefinedAuths(desc)    \* this alternative's Authenticator map
           admits(j) == \/ alts[j] = <<>>                                               \* anonymous
                        \/ \A n \in Rng(RouteSchemes(alts, j)) : n \in have(j) /\ n \in creds
           authOK == alts = <<>> \/ \E j \in DOMAIN alts : admits(j)
       IN IF ~authOK THEN {"no-authenticator"}
          ELSE IF ctype # <<>> /\ ToLower(ctype) \notin RouteConsumers(desc, reg, o) THEN {"no-consumer"}   \* runtime.ContentType lower-cases
          ELSE IF NoBodyAnswer(o) THEN {"ok"}                                                             \* Respond returns before any producer
          ELSE LET formats == IF accept = <<>> THEN RouteProduces(desc, reg, o)                 \* no Accept: the first offer
                              ELSE IF first # <<>> /\ first \in RouteProduces(desc, reg, o) THEN {first}   \* offered (API default): preferred
                              ELSE {accept}
                   produced(f) == f \in RouteProducers(desc, reg, o) \/ (reg.json /\ JSONMime \in Producers(reg))
               IN {IF produced(f) THEN "ok" ELSE "no-producer" : f \in formats}

ServingHolds(desc, reg) ==
  (CleanDesc(desc) /\ Validate(desc, reg).ok) =>
     \A o \in Rng(desc.ops) :
       \A ctype \in {<<>>} \cup ConsumesFor(desc, o) \cup {ToUpper(m) : m \in ConsumesFor(desc, o)},
          accept \in {<<>>} \cup ProducesFor(desc, o), first \in {<<>>, JSONMime},
          alt \in 0..Len(SecurityFor(desc, o)) :
          WellFormedReq(desc, o, ctype, accept, first, alt) => ServeClasses(desc, reg, o, ctype, accept, first, alt) = {"ok"}

(* observation of one served request: e = [op : index, ctype, accept, accept_first, alt, class] *)
ServeAllowed(desc, reg, e) ==
  (/\ CleanDesc(desc) /\ Coincide(desc, reg)
   /\ e.op \in DOMAIN desc.ops
   /\ WellFormedReq(desc, desc.ops[e.op], e.ctype, e.accept, e.accept_first, e.alt))
  => e.class \notin LackClasses
=============================================================================
