SPECIFICATION Spec
CONSTANTS Mutant = "skipverify-not-forced-off"
INVARIANTS PropertyHolds NoSilentSkip UntrustedCA NeverOldTLS CertPresented StableIdentity
CHECK_DEADLOCK FALSE
