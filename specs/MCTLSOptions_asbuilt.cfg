SPECIFICATION Spec
CONSTANTS Mutant = "skipverify-not-forced-off"
INVARIANTS PropertyHolds NoSilentSkip UntrustedCA NeverOldTLS CertPresented
CHECK_DEADLOCK FALSE
