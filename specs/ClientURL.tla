----------------------------- MODULE ClientURL -----------------------------
(***************************************************************************)
(* C10 - the URL built by the client (client/request.go buildHTTP tail,    *)
(* client/runtime.go New / pickScheme / selectScheme / createHttpRequest). *)
(*                                                                         *)
(* Strings are sequences of bytes.  In MCClientURL every byte of the small *)
(* alphabet stands for its class (the "symbolic atoms" of DESIGN 4.10:     *)
(* plain, '/', '?', '#', '%', ' ', '+', '.', '{', '}', ';', non-ASCII);     *)
(* in TraceClientURL they are the real bytes.                              *)
(*                                                                         *)
(* Two definitions:                                                        *)
(*  - CodeURL / CodeQuery / PickScheme : a transcription of the code, one  *)
(*    operator per step (url.Parse of base path and pattern, path.Join,    *)
(*    strings.ReplaceAll + url.PathEscape sequentially in a given order of *)
(*    the value map, reinstateSlash, http.NewRequest = url.Parse +         *)
(*    URL.EscapedPath, static-query merge).                                *)
(*  - PathOK / QueryOK / SchemeOK : the property C10, stated on the        *)
(*    observed URL alone (what TraceClientURL checks on the real code).    *)
(* MCClientURL checks Code* |= *OK for every order of the value map.       *)
(*                                                                         *)
(* Input record                                                            *)
(*   base : [lead, trailing : BOOLEAN, segs : Seq(bytes), query : Q]       *)
(*   pat  : [trailing : BOOLEAN, segs : Seq(Seq(tok)), query : Q]          *)
(*          tok = [k |-> "lit", s |-> bytes] | [k |-> "ph", s |-> name]     *)
(*   vals : Seq([n |-> name, v |-> bytes])   (distinct names)              *)
(*   cq   : Q    Q = Seq([k |-> bytes, vs |-> Seq(bytes)]) (distinct keys  *)
(*                   for cq; base/pattern queries may repeat a key)        *)
(*   opauth : BOOLEAN  the operation has an auth writer; aq : Q the query   *)
(*                   parameters it sets (client.APIKeyAuth(name,"query",v)) *)
(*   dq   : Q        those of Runtime.DefaultAuthentication (used when the *)
(*                   operation has no auth writer)                         *)
(*   rs, os : Seq(STRING)  schemes of the runtime / of the operation       *)
(***************************************************************************)
EXTENDS Integers, Sequences, FiniteSets, TLC

CONSTANT Variant
  \* "fixed"       the code with the repair of finding D17 (the literal text of
  \*               the joined path is escaped too; Path/RawPath set explicitly)
  \* "asbuilt"     the tree as found: the substituted string is re-parsed by
  \*               http.NewRequest (finding D17)
  \* mutants of "fixed" for non-vacuity:
  \* "noescape"    values substituted verbatim
  \* "queryescape" url.QueryEscape instead of url.PathEscape
  \* "substfirst"  substitution before path.Join
  \* "revprec"     base-path query wins over pattern query
  \* "memoscheme"  the scheme chosen for the first request of a Runtime is remembered for all later ones
  \* "otelfirstscheme" the OpenTelemetry transport hands the runtime only the first of the operation's schemes
  \* "earlysnapshot" the "set by the caller" snapshot of the query is taken before the auth writer runs
  \* "seqfixed"    the repair with sequential ReplaceAll instead of one pass (a value that
  \*               looks like a placeholder is substituted again, order-dependent)

SLASH == 47  QMARK == 63  HASH == 35  PCT == 37  LBRACE == 123  RBRACE == 125
DOT == 46    AMP == 38    EQ == 61    PLUS == 43 SPACE == 32

---------------------------------------------------------------------------
(* generic sequence helpers *)
TakeN(s, n) == SubSeq(s, 1, n)
DropN(s, n) == SubSeq(s, n + 1, Len(s))
IsPrefixOf(p, s) == Len(p) <= Len(s) /\ TakeN(s, Len(p)) = p

RECURSIVE Flatten(_)
Flatten(ss) == IF ss = <<>> THEN <<>> ELSE Head(ss) \o Flatten(Tail(ss))

RECURSIVE IndexFrom(_, _, _)
IndexFrom(s, c, i) == IF i > Len(s) THEN 0 ELSE IF s[i] = c THEN i ELSE IndexFrom(s, c, i + 1)
Index(s, c) == IndexFrom(s, c, 1)          \* 0 = absent

RECURSIVE Split(_, _)
Split(s, c) == LET i == Index(s, c) IN      \* strings.Split: n separators -> n+1 parts
  IF i = 0 THEN <<s>> ELSE <<TakeN(s, i - 1)>> \o Split(DropN(s, i), c)

RECURSIVE JoinWith(_, _)
JoinWith(parts, c) ==
  IF parts = <<>> THEN <<>>
  ELSE IF Len(parts) = 1 THEN parts[1]
  ELSE parts[1] \o <<c>> \o JoinWith(Tail(parts), c)

RECURSIVE ReplaceAll(_, _, _)
ReplaceAll(s, old, new) ==                  \* strings.ReplaceAll, old # ""
  IF Len(s) < Len(old) THEN s
  ELSE IF Head(s) = Head(old) /\ IsPrefixOf(old, s) THEN new \o ReplaceAll(DropN(s, Len(old)), old, new)
  ELSE <<Head(s)>> \o ReplaceAll(Tail(s), old, new)

---------------------------------------------------------------------------
(* net/url escaping tables *)
IsAlnum(c) == (c >= 48 /\ c <= 57) \/ (c >= 65 /\ c <= 90) \/ (c >= 97 /\ c <= 122)
Unreserved(c) == IsAlnum(c) \/ c \in {45, 95, 46, 126}               \* - _ . ~

ShouldEscape(c, mode) ==
  /\ ~Unreserved(c)
  /\ CASE mode = "segment" -> c \notin {36, 38, 43, 58, 61, 64}              \* $ & + : = @ stay
       [] mode = "path"    -> c \notin {36, 38, 43, 44, 47, 58, 59, 61, 64}  \* and , / ;
       [] mode = "query"   -> TRUE

HexDigit(n) == IF n < 10 THEN 48 + n ELSE 55 + n
PctOf(c) == <<PCT, HexDigit(c \div 16), HexDigit(c % 16)>>

EscByte(c, mode) == IF mode = "query" /\ c = SPACE THEN <<PLUS>>
                    ELSE IF ShouldEscape(c, mode) THEN PctOf(c) ELSE <<c>>
Escape(s, mode) == Flatten([i \in 1..Len(s) |-> EscByte(s[i], mode)])

PathEscape(s)  == Escape(s, "segment")      \* url.PathEscape
QueryEscape(s) == Escape(s, "query")        \* url.QueryEscape

IsHex(c) == (c >= 48 /\ c <= 57) \/ (c >= 65 /\ c <= 70) \/ (c >= 97 /\ c <= 102)
UnHex(c) == IF c <= 57 THEN c - 48 ELSE IF c <= 70 THEN c - 55 ELSE c - 87

RECURSIVE ValidPct(_)
ValidPct(s) ==                               \* every '%' starts a %XX triplet
  IF s = <<>> THEN TRUE
  ELSE IF Head(s) = PCT
       THEN Len(s) >= 3 /\ IsHex(s[2]) /\ IsHex(s[3]) /\ ValidPct(DropN(s, 3))
       ELSE ValidPct(Tail(s))

RECURSIVE PctDecode(_, _)
PctDecode(s, plusIsSpace) ==                 \* url.PathUnescape / url.QueryUnescape (ValidPct(s) assumed)
  IF s = <<>> THEN <<>>
  ELSE IF Head(s) = PCT THEN <<16 * UnHex(s[2]) + UnHex(s[3])>> \o PctDecode(DropN(s, 3), plusIsSpace)
  ELSE IF plusIsSpace /\ Head(s) = PLUS THEN <<SPACE>> \o PctDecode(Tail(s), plusIsSpace)
  ELSE <<Head(s)>> \o PctDecode(Tail(s), plusIsSpace)

PathUnescape(s) == PctDecode(s, FALSE)

\* url.validEncoded(s, encodePath)
ValidEncoded(s) ==
  \A i \in 1..Len(s) :
     \/ s[i] \in {33, 36, 38, 39, 40, 41, 42, 43, 44, 59, 61, 58, 64, 91, 93, PCT}
     \/ ~ShouldEscape(s[i], "path")

---------------------------------------------------------------------------
(* rendering of the structured inputs (what the caller hands to the code)  *)
TokText(t) == IF t.k = "lit" THEN t.s ELSE <<LBRACE>> \o t.s \o <<RBRACE>>
SegText(seg) == Flatten([i \in 1..Len(seg) |-> TokText(seg[i])])

BaseStr(b) ==        \* the basePath argument of client.New, without its query
  (IF b.lead THEN <<SLASH>> ELSE <<>>)
  \o JoinWith(b.segs, SLASH)
  \o (IF b.trailing /\ b.segs # <<>> THEN <<SLASH>> ELSE <<>>)

PatStr(p) ==         \* ClientOperation.PathPattern, without its query
  IF p.segs = <<>> THEN (IF p.trailing THEN <<SLASH>> ELSE <<>>)
  ELSE <<SLASH>> \o JoinWith([i \in 1..Len(p.segs) |-> SegText(p.segs[i])], SLASH)
       \o (IF p.trailing THEN <<SLASH>> ELSE <<>>)

HasVal(vals, n) == \E i \in 1..Len(vals) : vals[i].n = n
ValOf(vals, n) == vals[CHOOSE i \in 1..Len(vals) : vals[i].n = n].v

---------------------------------------------------------------------------
(* the code, step by step                                                  *)

\* client.New: "if !strings.HasPrefix(rt.BasePath, "/") { rt.BasePath = "/" + rt.BasePath }"
NewBasePath(s) == IF s # <<>> /\ Head(s) = SLASH THEN s ELSE <<SLASH>> \o s

\* path.Clean of a rooted path
RECURSIVE CleanSegs(_, _)
CleanSegs(parts, acc) ==
  IF parts = <<>> THEN acc
  ELSE LET p == Head(parts) IN
       IF p = <<>> \/ p = <<DOT>> THEN CleanSegs(Tail(parts), acc)
       ELSE IF p = <<DOT, DOT>> THEN CleanSegs(Tail(parts), IF acc = <<>> THEN acc ELSE TakeN(acc, Len(acc) - 1))
       ELSE CleanSegs(Tail(parts), Append(acc, p))
CleanRooted(s) == <<SLASH>> \o JoinWith(CleanSegs(Split(s, SLASH), <<>>), SLASH)

\* path.Join(basePathURL.Path, pathPatternURL.Path); the base path is rooted
PathJoin(a, b) == CleanRooted(a \o <<SLASH>> \o b)

\* "reinstateSlash"
ReinstateSlash(patPath) == patPath # <<>> /\ patPath # <<SLASH>> /\ patPath[Len(patPath)] = SLASH

\* for k, v := range r.pathParams { urlPath = strings.ReplaceAll(urlPath, "{"+k+"}", url.PathEscape(v)) }
\* in the iteration order `order` (a sequence of indices into vals)
ValueText(v) == CASE Variant = "noescape"    -> v
                  [] Variant = "queryescape" -> QueryEscape(v)
                  [] OTHER                   -> PathEscape(v)

RECURSIVE SubstituteIn(_, _, _, _)
SubstituteIn(s, vals, order, escapedBraces) ==
  IF order = <<>> THEN s
  ELSE LET e == vals[Head(order)]
           old == IF escapedBraces THEN PctOf(LBRACE) \o Escape(e.n, "path") \o PctOf(RBRACE)
                  ELSE <<LBRACE>> \o e.n \o <<RBRACE>>
       IN SubstituteIn(ReplaceAll(s, old, ValueText(e.v)), vals, Tail(order), escapedBraces)

\* strings.NewReplacer(old1, new1, ...).Replace(s): one pass over s, replaced text is never rescanned
\* (placeholders in their escaped spelling %7Bname%7D; names are distinct, so at most one matches)
EscPlaceholder(n) == PctOf(LBRACE) \o Escape(n, "path") \o PctOf(RBRACE)
RECURSIVE ReplaceSimul(_, _)
ReplaceSimul(s, vals) ==
  IF s = <<>> THEN <<>>
  ELSE IF Head(s) # PCT THEN <<Head(s)>> \o ReplaceSimul(Tail(s), vals)
  ELSE LET hits == { i \in 1..Len(vals) : IsPrefixOf(EscPlaceholder(vals[i].n), s) }
       IN IF hits = {} THEN <<Head(s)>> \o ReplaceSimul(Tail(s), vals)
          ELSE LET i == CHOOSE j \in hits : TRUE
               IN ValueText(vals[i].v) \o ReplaceSimul(DropN(s, Len(EscPlaceholder(vals[i].n))), vals)

\* url.Parse of a reference that starts with '/' followed by URL.EscapedPath():
\* [err, esc].  "//x/y" is an authority + path; the authority is validated
\* (deviation HostEscapesRejected: any '%' in it is reported as an error, as
\* url.parseHost does for all escapes but a few sub-delims).
Reparse(raw) ==
  LET h  == Index(raw, HASH)
      r1 == IF h = 0 THEN raw ELSE TakeN(raw, h - 1)
      q  == Index(r1, QMARK)
      r2 == IF q = 0 THEN r1 ELSE TakeN(r1, q - 1)
      auth == Len(r2) >= 2 /\ r2[1] = SLASH /\ r2[2] = SLASH
      rest == IF auth THEN DropN(r2, 2) ELSE <<>>
      sl   == Index(rest, SLASH)
      host == IF sl = 0 THEN rest ELSE TakeN(rest, sl - 1)
      p    == IF auth THEN (IF sl = 0 THEN <<>> ELSE DropN(rest, sl - 1)) ELSE r2
  IN IF ~ValidPct(p) \/ (auth /\ Index(host, PCT) # 0) THEN [err |-> TRUE, esc |-> <<>>]
     ELSE [err |-> FALSE,
           esc |-> IF ValidEncoded(p) THEN p ELSE Escape(PathUnescape(p), "path")]   \* setPath + EscapedPath

\* the escaped path of the request URL
CodePath(in, order) ==
  LET basePath == NewBasePath(BaseStr(in.base))       \* url.Parse(basePath).Path (no escapes, no query here)
      patPath  == PatStr(in.pat)
      slash    == IF ReinstateSlash(patPath) THEN <<SLASH>> ELSE <<>>
  IN CASE Variant = "asbuilt" ->
            Reparse(SubstituteIn(PathJoin(basePath, patPath), in.vals, order, FALSE) \o slash)
       [] Variant = "substfirst" ->
            LET raw == PathJoin(basePath, SubstituteIn(patPath, in.vals, order, FALSE)) \o slash
            IN [err |-> ~ValidPct(raw), esc |-> raw]
       [] OTHER ->
            \* repaired: rawPath = (&url.URL{Path: joined}).EscapedPath(), placeholders matched in
            \* their escaped spelling and replaced in ONE pass (strings.NewReplacer);
            \* URL.Path = PathUnescape(rawPath), URL.RawPath = rawPath
            LET tmpl == Escape(PathJoin(basePath, patPath) \o slash, "path")
                raw  == IF Variant = "seqfixed" THEN SubstituteIn(tmpl, in.vals, order, TRUE)
                        ELSE ReplaceSimul(tmpl, in.vals)
            IN IF ~ValidPct(raw) THEN [err |-> TRUE, esc |-> <<>>]
               ELSE [err |-> FALSE, esc |-> IF ValidEncoded(raw) THEN raw ELSE Escape(PathUnescape(raw), "path")]

(* url.Values as a function key -> Seq(value)                              *)
Keys(q) == {q[i].k : i \in 1..Len(q)}
RECURSIVE ValuesFor(_, _)
ValuesFor(q, k) ==                           \* url.ParseQuery: values of a repeated key accumulate in order
  IF q = <<>> THEN <<>>
  ELSE (IF Head(q).k = k THEN Head(q).vs ELSE <<>>) \o ValuesFor(Tail(q), k)
ToValues(q) == [k \in Keys(q) |-> ValuesFor(q, k)]

\* staticQueryParams := basePathURL.Query(); for name, values := range pathPatternURL.Query()
\*   { if present { Del(name) }; for value { Add(name, value) } }
StaticQuery(in) ==
  LET b == ToValues(in.base.query)
      p == ToValues(in.pat.query)
  IN IF Variant = "revprec"
     THEN [k \in DOMAIN b \cup DOMAIN p |-> IF k \in DOMAIN b THEN b[k] ELSE p[k]]
     ELSE [k \in DOMAIN b \cup DOMAIN p |-> IF k \in DOMAIN p THEN p[k] ELSE b[k]]

\* the auth writer in force (createHttpRequest: the default only when the operation has none) runs after the
\* params writer; SetQueryParam replaces
AuthQuery(in) == IF in.opauth THEN in.aq ELSE in.dq
Override(c, a) == [k \in DOMAIN c \cup DOMAIN a |-> IF k \in DOMAIN a THEN a[k] ELSE c[k]]

\* originalParams := r.GetQueryParams()   -- after WriteToRequest AND the auth writer
\* for k, v := range staticQueryParams { if _, present := originalParams[k]; !present { r.SetQueryParam(k, v...) } }
CodeQuery(in) ==
  LET s == StaticQuery(in)
      c == ToValues(in.cq)
      a == ToValues(AuthQuery(in))
      q == Override(c, a)                                        \* r.query when the URL is assembled
      snapshot == IF Variant = "earlysnapshot" THEN c ELSE q
  IN [k \in DOMAIN s \cup DOMAIN q |-> IF k \in DOMAIN s /\ k \notin DOMAIN snapshot THEN s[k] ELSE q[k]]

\* Runtime.selectScheme / pickScheme
SelectScheme(ss) ==
  IF ss = <<>> THEN ""
  ELSE IF ss[1] # "https" /\ Len(ss) > 1 /\ \E i \in 1..Len(ss) : ss[i] = "https" THEN "https"
  ELSE ss[1]
PickScheme(rs, os) ==
  IF SelectScheme(rs) # "" THEN SelectScheme(rs)
  ELSE IF SelectScheme(os) # "" THEN SelectScheme(os)
  ELSE "http"

\* Entry points: Runtime.Submit / CreateHttpRequest directly, or through the tracing transports
\* Runtime.WithOpenTelemetry() / WithOpenTracing(), which submit a copy of the operation with instrumented
\* writer and reader and otherwise unchanged - in particular with the operation's own scheme list.
Entries == {"create", "submit", "otel", "opentracing"}
EntrySchemes(entry, os) ==
  IF Variant = "otelfirstscheme" /\ entry = "otel" /\ os # <<>> THEN <<os[1]>> ELSE os

\* A Runtime serves a history of operations; the scheme of the i-th request depends on that
\* operation's own scheme list only (pickScheme keeps no state).
CodeSchemeAt(rs, hist, i) == IF Variant = "memoscheme" THEN PickScheme(rs, hist[1]) ELSE PickScheme(rs, hist[i])
CodeSchemeVia(entry, rs, hist, i) == PickScheme(rs, EntrySchemes(entry, (IF Variant = "memoscheme" THEN hist[1] ELSE hist[i])))

---------------------------------------------------------------------------
(* The property C10, on the observed URL                                   *)

\* the decoded text every segment of the escaped path must carry
ExpectedSeg(seg, vals) ==
  Flatten([i \in 1..Len(seg) |-> IF seg[i].k = "lit" THEN seg[i].s ELSE ValOf(vals, seg[i].s)])
ExpectedSegs(in) == in.base.segs \o [i \in 1..Len(in.pat.segs) |-> ExpectedSeg(in.pat.segs[i], in.vals)]

\* named deviation RootPatternHasNoTrailingSlash: the single slash of the
\* pattern "/" is its leading slash; only patterns with segments keep one.
KeepsTrailingSlash(in) == in.pat.trailing /\ in.pat.segs # <<>>

NoQueryOrFragment(p) == \A i \in 1..Len(p) : p[i] \notin {QMARK, HASH}

PathOK(in, p) ==     \* p = URL.EscapedPath()
  LET exp   == ExpectedSegs(in)
      n     == Len(exp)
      parts == Split(p, SLASH)                \* "/a/b/" -> <<"", "a", "b", "">>
  IN /\ p # <<>> /\ p[1] = SLASH
     /\ NoQueryOrFragment(p)
     /\ IF n = 0 THEN p = <<SLASH>>
        ELSE /\ Len(parts) = 1 + n + (IF KeepsTrailingSlash(in) THEN 1 ELSE 0)   \* exactly the segments
             /\ KeepsTrailingSlash(in) => parts[Len(parts)] = <<>>
             /\ \A i \in 1..n : /\ ValidPct(parts[i + 1])
                                /\ PathUnescape(parts[i + 1]) = exp[i]            \* literal kept, value escaped

WhyPath(in, p) ==
  LET exp   == ExpectedSegs(in)
      n     == Len(exp)
      parts == Split(p, SLASH)
  IN IF p = <<>> \/ p[1] # SLASH THEN "path-not-rooted"
     ELSE IF ~NoQueryOrFragment(p) THEN "value-adds-query-or-fragment"
     ELSE IF n = 0 THEN "path-not-root"
     ELSE IF Len(parts) # 1 + n + (IF KeepsTrailingSlash(in) THEN 1 ELSE 0) THEN "segment-count"
     ELSE IF KeepsTrailingSlash(in) /\ parts[Len(parts)] # <<>> THEN "trailing-slash-lost"
     ELSE "segment-text"

\* the raw query, decoded: Seq([k, v])
ParsePair(s) == LET i == Index(s, EQ) IN
  IF i = 0 THEN [k |-> s, v |-> <<>>] ELSE [k |-> TakeN(s, i - 1), v |-> DropN(s, i)]
RawPairs(rq) == IF rq = <<>> THEN <<>> ELSE LET ps == Split(rq, AMP) IN [i \in 1..Len(ps) |-> ParsePair(ps[i])]
RawQueryValid(rq) == \A i \in 1..Len(RawPairs(rq)) : ValidPct(RawPairs(rq)[i].k) /\ ValidPct(RawPairs(rq)[i].v)
DecodedPairs(rq) == [i \in 1..Len(RawPairs(rq)) |->
                       [k |-> PctDecode(RawPairs(rq)[i].k, TRUE), v |-> PctDecode(RawPairs(rq)[i].v, TRUE)]]
RECURSIVE PairValues(_, _)
PairValues(ps, k) == IF ps = <<>> THEN <<>>
                     ELSE (IF Head(ps).k = k THEN <<Head(ps).v>> ELSE <<>>) \o PairValues(Tail(ps), k)

\* caller over pattern over base path, per key
StaticValues(in, k) ==
  IF k \in Keys(in.pat.query) THEN ValuesFor(in.pat.query, k) ELSE ValuesFor(in.base.query, k)
\* "set by the caller" = set on the request, by the params writer or by the auth writer in force (the latter last)
ExpectedValues(in, k) ==
  IF k \in Keys(AuthQuery(in)) THEN ValuesFor(AuthQuery(in), k)
  ELSE IF k \in Keys(in.cq) THEN ValuesFor(in.cq, k) ELSE StaticValues(in, k)

\* named deviation CallerEmptyListOverrides (allow-both): SetQueryParam(k) without any value makes
\* the key absent even when it is fixed statically - the code's reading of "overridden"; the
\* statement does not say whether an empty list overrides, so the static values are accepted too.
ValuesAllowed(in, k, vs) ==
  \/ vs = ExpectedValues(in, k)
  \/ k \notin Keys(AuthQuery(in)) /\ k \in Keys(in.cq) /\ ValuesFor(in.cq, k) = <<>> /\ vs = StaticValues(in, k)

AllKeys(in) == Keys(in.cq) \cup Keys(AuthQuery(in)) \cup Keys(in.pat.query) \cup Keys(in.base.query)

QueryOK(in, rq) ==   \* rq = URL.RawQuery
  /\ RawQueryValid(rq)
  /\ LET ps == DecodedPairs(rq)
     IN \A k \in {ps[i].k : i \in 1..Len(ps)} \cup AllKeys(in) : ValuesAllowed(in, k, PairValues(ps, k))

\* the decoded form of a url.Values, for the model-level check: Encode drops keys without values
ValuesOK(in, vals) ==
  \A k \in DOMAIN vals \cup AllKeys(in) : ValuesAllowed(in, k, IF k \in DOMAIN vals THEN vals[k] ELSE <<>>)

\* named deviation RuntimeSchemesShadowOperation: the schemes "offered" are the
\* runtime's when it has any, else the operation's.
Offered(rs, os) == IF rs # <<>> THEN rs ELSE os
SchemeOK(rs, os, s) ==
  LET o == Offered(rs, os) IN
  IF o = <<>> THEN s = "http"
  ELSE IF Len(o) > 1 /\ \E i \in 1..Len(o) : o[i] = "https" THEN s = "https"
  ELSE \E i \in 1..Len(o) : o[i] = s

\* one observation [err, scheme, host, path, rawq]
ObsOK(in, o) ==
  /\ ~o.err
  /\ SchemeOK(in.rs, in.os, o.scheme)
  /\ o.host = in.host
  /\ PathOK(in, o.path)
  /\ QueryOK(in, o.rawq)

WhyObs(in, o) ==
  IF o.err THEN "error"
  ELSE IF ~SchemeOK(in.rs, in.os, o.scheme) THEN "scheme"
  ELSE IF o.host # in.host THEN "host"
  ELSE IF ~PathOK(in, o.path) THEN WhyPath(in, o.path)
  ELSE IF ~QueryOK(in, o.rawq) THEN "query-precedence"
  ELSE "ok"
=============================================================================
