-------------------------- MODULE TraceClientResp --------------------------
(* Trace validation of client.Runtime.Submit against ClientResp.            *)
(* case "pick": one Submit; event submit.                                    *)
(* case "conc": n concurrent Submits on a fresh Runtime; events gates?,      *)
(*              caller x n, done.                                            *)
(* case "race": appended by the runner: the race detector's report count.    *)
EXTENDS ClientResp, Json, IOUtils

VARIABLES l, st, skipping, fails, cs

Range(s) == { s[i] : i \in DOMAIN s }

RInit(e) ==
  IF e.kind = "pick"
  THEN [kind |-> "pick", cfg |-> [reg |-> Range(e.registry), star |-> e.star, default |-> e.default, defForm |-> e.default_form],
        h |-> e.header, status |-> e.status, opClient |-> e.op_client, opCtx |-> e.op_ctx, rtCtx |-> e.rt_ctx]
  ELSE IF e.kind = "conc"
  THEN [kind |-> "conc", n |-> e.n, mode |-> e.mode, gates |-> e.gates, seen |-> {}]
  ELSE IF e.kind = "retain" THEN [kind |-> "retain", n |-> e.calls, seen |-> {}]
  ELSE IF e.kind = "opreuse" THEN [kind |-> "opreuse", opHasCtx |-> e.op_has_ctx, rtCtxs |-> e.rt_ctxs, n |-> 0]
  ELSE IF e.kind = "multi" THEN [kind |-> "multi", m |-> CInitM]
  ELSE IF e.kind = "clientlat" THEN [kind |-> "clientlat", opc |-> e.op_client, rtMarker |-> e.rt_marker, rtJar |-> e.rt_jar]
  ELSE [kind |-> "race"]

CtxObs(e) == [op_value |-> e.ctx_op_value, rt_value |-> e.ctx_rt_value, err |-> e.ctx_err, short |-> e.ctx_short]
ObsPick(e) == [kind |-> e.outcome, id |-> e.consumer_id, names_ct |-> e.err_names_ct]

PickOK(s, e) ==
  /\ ~e.panic
  /\ PickAllowed(s.cfg, s.h, ObsPick(e))                         \* the right consumer, else catch-all, else error naming the type
  /\ e.reader_called <=> e.outcome = "consumer"                  \* the reader runs iff a consumer was found
  /\ e.outcome = "consumer" =>                                   \* and sees status, headers, body unchanged
        e.code_seen = s.status /\ e.message_ok /\ e.headers_ok /\ e.body_ok
  /\ e.rt_calls = 1
  /\ e.used_client = UsedClient(s.opClient)                      \* per-operation client / context take precedence
  /\ CtxAllowed(s.opCtx, s.rtCtx, CtxObs(e))                     \* the operation's context whenever it is non-nil

PickWhy(s, e) ==
  IF e.panic THEN "panic"
  ELSE IF ~PickAllowed(s.cfg, s.h, ObsPick(e)) THEN
       (IF e.outcome = "consumer" THEN "wrong-consumer-handed-to-reader"
        ELSE IF WellFormed(s.h) /\ (MediaType(s.cfg, s.h) \in s.cfg.reg \/ s.cfg.star) THEN "error-although-a-consumer-is-registered"
        ELSE "error-does-not-name-the-content-type")
  ELSE IF ~(e.reader_called <=> e.outcome = "consumer") THEN "reader-called-iff-consumer"
  ELSE IF e.outcome = "consumer" /\ ~(e.code_seen = s.status /\ e.message_ok /\ e.headers_ok /\ e.body_ok) THEN "reader-sees-changed-response"
  ELSE IF e.rt_calls # 1 THEN "not-exactly-one-exchange"
  ELSE IF e.used_client # UsedClient(s.opClient) THEN "operation-client-precedence"
  ELSE "operation-context-precedence"

ConcOK(s, e) ==
  CASE e.ev = "gates" ->
         /\ LegalGates(e.released, [i \in 1..s.n |-> 0])
         /\ e.exact => e.released = s.gates                     \* the TLC-exported interleaving was realised
    [] e.ev = "caller" ->
         /\ ~e.panic /\ ~e.failed
         /\ e.i \in 1..s.n /\ e.i \notin s.seen
         /\ e.got_body = e.sent /\ e.got_hdr = e.sent          \* the response to its own request
         /\ e.consumer_id = e.want_consumer
         /\ e.used_client = e.want_client
         /\ e.retained_ok                                        \* the response its reader kept is still its own
    [] e.ev = "done" -> s.seen = 1..s.n /\ e.rt_calls = s.n /\ e.distinct_tokens = s.n
    [] OTHER -> FALSE

ConcWhy(s, e) ==
  CASE e.ev = "gates" -> "gate-history-is-not-the-scheduled-interleaving"
    [] e.ev = "caller" ->
         IF e.panic \/ e.failed THEN "concurrent-call-failed"
         ELSE IF e.got_body # e.sent \/ e.got_hdr # e.sent THEN "caller-received-another-callers-response"
         ELSE IF e.consumer_id # e.want_consumer THEN "wrong-consumer-under-concurrency"
         ELSE IF ~e.retained_ok THEN "retained-response-shows-another-call"
         ELSE "wrong-client-under-concurrency"
    [] e.ev = "done" -> "exchanges-lost-or-duplicated"
    [] OTHER -> "unknown-event"

\* a reader may keep the response it was handed: it keeps showing that call's status, headers and body
RetainOK(s, e) ==
  CASE e.ev = "retained" -> /\ e.i \in 1..s.n /\ e.i \notin s.seen /\ ~e.failed /\ e.in_reader_ok
                            /\ e.code_ok /\ e.message_ok /\ e.header_ok /\ e.body_same
    [] e.ev = "retain_done" -> s.seen = 1..s.n /\ e.calls = s.n
    [] OTHER -> FALSE

\* what the server saw: the operation client exactly as given, nothing of the runtime's mixed in
WireOK(s, e) ==
  /\ e.ev = "wire" /\ e.result_ok /\ e.requests = 1
  /\ WireAllowed(s.opc, s.rtMarker, s.rtJar,
                 [rt_marker |-> e.rt_marker, op_marker |-> e.op_marker, rt_cookie |-> e.rt_cookie, op_cookie |-> e.op_cookie])

\* the same ClientOperation submitted again: untouched by Submit, and each call sees the transport-wide context of *that* call
ReuseOK(s, e) ==
  /\ e.ev = "reuse_call" /\ e.n = s.n + 1 /\ e.n <= Len(s.rtCtxs)
  /\ e.result_ok /\ e.requests = 1
  /\ e.op_unchanged
  /\ [op_value |-> e.op_value, rt_id |-> e.rt_id, err |-> e.err]
       = OpCtxSeen(s.opHasCtx, [id |-> s.rtCtxs[e.n].id, cancelled |-> s.rtCtxs[e.n].cancelled])

\* several Runtimes: each hands its readers what its own registry says, whatever was done to the others
MultiOK(s, e) ==
  /\ e.ev = "mop"
  /\ CASE e.op = "new" -> e.r = Len(s.m.at) + 1
        [] e.op \in {"set", "del"} -> e.r \in DOMAIN s.m.at
        [] e.op = "submit" -> /\ e.r \in DOMAIN s.m.at
                              /\ LET w == OwnLookup(s.m, e.r, e.t) IN e.outcome = w.kind /\ e.consumer_id = w.id
        [] OTHER -> FALSE

MAllowed(s, e) ==
  CASE s.kind = "pick" -> e.ev = "submit" /\ PickOK(s, e)
    [] s.kind = "conc" -> ConcOK(s, e)
    [] s.kind = "retain" -> RetainOK(s, e)
    [] s.kind = "clientlat" -> WireOK(s, e)
    [] s.kind = "opreuse" -> ReuseOK(s, e)
    [] s.kind = "multi" -> MultiOK(s, e)
    [] OTHER -> e.ev = "race" /\ e.reports = 0                  \* no data race reported on any of the runs

MStep(s, e) == IF s.kind = "opreuse" THEN [s EXCEPT !.n = @ + 1]
               ELSE IF s.kind = "multi" THEN [s EXCEPT !.m = MApply(@, [op |-> e.op, r |-> e.r, mt |-> e.mt, id |-> e.id])]
               ELSE IF (s.kind = "conc" /\ e.ev = "caller") \/ (s.kind = "retain" /\ e.ev = "retained")
               THEN [s EXCEPT !.seen = @ \cup {e.i}] ELSE s

MWhy(s, e) ==
  CASE s.kind = "pick" -> IF e.ev = "submit" THEN PickWhy(s, e) ELSE "unknown-event"
    [] s.kind = "conc" -> ConcWhy(s, e)
    [] s.kind = "retain" -> IF e.ev = "retained" THEN "retained-response-shows-another-call" ELSE "retained-responses-missing"
    [] s.kind = "opreuse" ->
         IF e.ev # "reuse_call" THEN "unknown-event"
         ELSE IF ~e.op_unchanged THEN "submit-modified-the-callers-operation"
         ELSE IF ~e.result_ok \/ e.requests # 1 THEN "resubmitted-operation-failed"
         ELSE "resubmitted-operation-carries-the-context-of-an-earlier-call"
    [] s.kind = "multi" -> IF e.ev = "mop" /\ e.op = "submit" THEN "runtime-hands-out-another-runtimes-registry" ELSE "bad-multi-event"
    [] s.kind = "clientlat" ->
         IF e.ev # "wire" THEN "unknown-event"
         ELSE IF ~e.result_ok \/ e.requests # 1 THEN "exchange-failed"
         ELSE IF e.rt_marker /\ s.opc # "none" THEN "operation-client-went-through-the-transport-wide-round-tripper"
         ELSE IF e.rt_cookie /\ s.opc # "none" THEN "operation-client-sent-the-transport-wide-cookies"
         ELSE "operation-client-not-used-as-given"
    [] OTHER -> "data-race-reported"

TheTrace == ndJsonDeserialize(IOEnv.TRACE_FILE)
TC == INSTANCE TraceCommon WITH TInit <- RInit, TAllowed <- MAllowed, TStep <- MStep, TWhy <- MWhy,
                                TStateful <- TRUE, Trace <- TheTrace
Spec == TC!Spec
=============================================================================
