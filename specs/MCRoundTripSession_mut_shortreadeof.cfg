SPECIFICATION Spec
CONSTANTS
  Mutant = "shortreadeof"
  PathAtoms = {97, 98, 47, 37}
  BodyAtoms = {97, 34, 92}
  MaxLenName = 1
  MaxLenBody = 0
  MaxSteps = 1
  MaxUpload = 6
  SniffLen = 2
INVARIANT PiecesIntactMC
CHECK_DEADLOCK FALSE
