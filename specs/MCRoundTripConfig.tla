-------------------------- MODULE MCRoundTripConfig --------------------------
(* Three small exhaustive checks of C04 (round 4):                            *)
(*  subst   - templates with 2 and 3 placeholders x values that spell a       *)
(*            sibling placeholder ("{b}", inside other text, in the escaped   *)
(*            spelling) x every order in which the client may visit its path  *)
(*            parameters: every placeholder delivers its own value.           *)
(*  authkey - a request whose header fields / query pairs carry the apiKey    *)
(*            (0-2 times) among others; the key is also a declared parameter: *)
(*            after Authorize it is bound like any other.                     *)
(*  codecs  - Runtimes 1 and 2 of one process; 2 is customised (any media,    *)
(*            any number of times) while 1 keeps exchanging: the codec used   *)
(*            by 1 stays the standard one.                                    *)
(*  defaults- a multi array with / without a declared default x supplied     *)
(*            lists of up to 3 items over {"", "a"}: a supplied list arrives. *)
EXTENDS RoundTrip

VARIABLES track, tmpl, vals, order, kvs, tables, n
vars == <<track, tmpl, vals, order, kvs, tables, n>>

Lit(s) == [k |-> "lit", s |-> s, n |-> ""]
Ph(x)  == [k |-> "ph", s |-> <<>>, n |-> x]
NB == [a |-> <<97>>, b |-> <<98>>, c |-> <<99>>]
Templates == { << Lit(<<105>>), Ph("a"), Ph("b") >>, << Ph("a"), Lit(<<120>>), Ph("b") >>, << Ph("a"), Ph("b"), Ph("c") >> }
Brace(x) == <<123>> \o NB[x] \o <<125>>
ValuePool == { <<120>>, Brace("a"), Brace("b"), Brace("c"), <<120>> \o Brace("b") \o <<121>>, Brace("b") \o Brace("a"),
               <<37, 55, 66, 98, 37, 55, 68>>, <<123, 98>> }
Orders(S) == { o \in [1..Cardinality(S) -> S] : \A i, j \in 1..Cardinality(S) : i # j => o[i] # o[j] }

Media == {"json", "text"}
Tables0 == [t \in 0..2 |-> [m \in Media |-> "standard"]]
K == <<107>>
KVPool == { [k |-> K, v |-> <<49>>], [k |-> K, v |-> <<50>>], [k |-> <<111>>, v |-> <<51>>] }

Init == /\ track = "start" /\ tmpl = <<>> /\ vals = [a |-> <<>>, b |-> <<>>, c |-> <<>>] /\ order = <<>> /\ kvs = <<>>
        /\ tables = Tables0 /\ n = 0

Subst ==
  /\ track = "start" /\ track' = "subst"
  /\ \E t \in Templates, va \in ValuePool, vb \in ValuePool, vc \in ValuePool :
       /\ tmpl' = t /\ vals' = [a |-> va, b |-> vb, c |-> vc]
       /\ \E o \in Orders(NamesOf(t)) : order' = o
  /\ UNCHANGED <<kvs, tables, n>>

AuthKey ==
  /\ track \in {"start", "authkey"} /\ track' = "authkey" /\ Len(kvs) < 3
  /\ \E e \in KVPool : kvs' = Append(kvs, e)
  /\ UNCHANGED <<tmpl, vals, order, tables, n>>

Customise ==      \* the application customises Runtime 2
  /\ track \in {"start", "codecs"} /\ track' = "codecs" /\ n < 3
  /\ \E m \in Media, c \in {"envelope", "swapped"} : tables' = Customised(tables, 2, m, c)
  /\ n' = n + 1
  /\ UNCHANGED <<tmpl, vals, order, kvs>>

\* kvs doubles as the supplied list (its v fields), tmpl as the declared default
Items == { <<>>, <<97>> }
Defaults ==
  /\ track = "start" /\ track' = "defaults"
  /\ \E d \in {<<>>, << <<>> >>, << << <<120>>, <<121>> >> >>, << << <<>> >> >>}, k \in 0..3 : \E l \in [1..k -> Items] :
       tmpl' = d /\ kvs' = [i \in 1..k |-> [k |-> K, v |-> l[i]]]
  /\ UNCHANGED <<vals, order, tables, n>>

Next == Subst \/ AuthKey \/ Customise \/ Defaults
Spec == Init /\ [][Next]_vars

SubstAgreesMC == track = "subst" => SubstAgrees(tmpl, vals, NB, order)
KeyParamBoundMC == track = "authkey" =>
   BindFormValue("scalar", ValuesOf(AfterAuthorize(kvs, K), K)) = BindFormValue("scalar", ValuesOf(kvs, K))
MultiAgreesMC == track = "defaults" => MultiAgrees(tmpl, [i \in 1..Len(kvs) |-> kvs[i].v])
OwnCodecsMC == \A m \in Media : CodecOf(tables, 1, m) = "standard"
=============================================================================
