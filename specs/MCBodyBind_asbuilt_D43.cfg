SPECIFICATION Spec
CONSTANTS
  AbsentBodyRule = TRUE
  ScalarTargets = FALSE
  NullIsNull = TRUE
  LibraryConforms = TRUE
  Thorough = FALSE
INVARIANTS PropertyHolds
CHECK_DEADLOCK FALSE
