------------------------ MODULE MCCredentialsSession ------------------------
(* History on one Runtime (C14).  The application configures the Runtime     *)
(* (DefaultAuthentication, Debug), makes a request, REPLACES the             *)
(* configuration, makes another request ... up to MaxSteps requests chosen   *)
(* freely from a pool (no / bearer / basic / query-API-key operation auth,   *)
(* preset Authorization header, static query parameters named like the key,  *)
(* direct or really sent).  The state is the configuration plus what the     *)
(* implementation remembers; every request, judged by every authenticator of *)
(* the pool, must satisfy C14 for the configuration in force WHEN IT IS      *)
(* MADE, and the faithful model's memory stays empty.                        *)
EXTENDS Credentials

CONSTANTS MaxSteps

VARIABLES mem, cfg, n, expect, seen
vars == <<mem, cfg, n, expect, seen>>

W(t, name, loc, u, p) == [t |-> t, name |-> name, in |-> loc, u |-> u, p |-> p]
Basic(u, p)       == W("basic", <<>>, "", u, p)
APIKey(k, loc, v) == W("apikey", k, loc, <<>>, v)
Bearer(t)         == W("bearer", <<>>, "", <<>>, t)
T(i) == <<116, 48 + i>>
KQ   == <<107>>
XKEY == <<88, 45, 75, 101, 121>>

DefPool == { <<>>, <<Bearer(T(1))>>, <<Bearer(T(2))>>, <<APIKey(KQ, "query", T(3))>>, <<Basic(<<100>>, <<101>>)>> }
OpPool  == { <<>>, <<Bearer(T(4))>>, <<APIKey(KQ, "query", T(5))>>, <<Basic(<<117>>, <<112>>)>> }
StaticPool == { <<>>, <<[k |-> KQ, v |-> T(6)]>>, <<[k |-> ACCESS, v |-> T(7)]>> }

Req(op, authz, st, tr) == [op |-> op, def |-> <<>>, authz |-> authz, hdrs |-> <<>>, query |-> <<>>, form |-> <<>>, media |-> "none",
                           static |-> st, debug |-> FALSE, transport |-> tr]
ReqPool == { Req(op, az, st, tr) : op \in OpPool, az \in {<<>>, <<67, 32, 120>>}, st \in StaticPool, tr \in {"direct", "server"} }

Auth(kind, name, loc, scopes, cberr) == [kind |-> kind, name |-> IF kind = "bearer" THEN <<>> ELSE name, scheme |-> IF kind = "bearer" THEN name ELSE "",
                                         in |-> loc, realm |-> "", scopes |-> scopes, cberr |-> cberr]
AuthPool == { Auth("basic", <<>>, "", <<>>, e) : e \in BOOLEAN }
            \cup { Auth("apikey", KQ, "query", <<>>, e) : e \in BOOLEAN }
            \cup { Auth("apikey", ACCESS, "query", <<>>, e) : e \in BOOLEAN }
            \cup { Auth("bearer", "oauth", "", <<"read">>, e) : e \in BOOLEAN }

Cfg0 == [def |-> <<>>, debug |-> FALSE]
Init == mem = RtMem0 /\ cfg = Cfg0 /\ n = 0 /\ expect = Req(<<>>, <<>>, <<>>, "direct") /\ seen = Req(<<>>, <<>>, <<>>, "direct")

\* the application replaces the configuration
Reconfigure ==
  /\ n < MaxSteps
  /\ \E d \in DefPool, dbg \in BOOLEAN : cfg' = [def |-> d, debug |-> dbg]
  /\ UNCHANGED <<mem, n, expect, seen>>

\* ... and makes a request
Request ==
  /\ n < MaxSteps
  /\ \E r \in ReqPool :
       LET s == RtRequest(mem, cfg, r) IN
       /\ mem' = s.mem /\ seen' = s.seen /\ expect' = InForceCase(cfg, r)
  /\ n' = n + 1
  /\ UNCHANGED cfg

Next == Reconfigure \/ Request
Spec == Init /\ [][Next]_vars

\* every request of every history carries the credentials of the configuration in force when it is made
Holds == n > 0 => \A A \in AuthPool : AuthOK(expect, A, SrvAuth(Wire(seen), A))
\* a correct Runtime remembers nothing but its configuration
NothingRemembered == mem = RtMem0
=============================================================================
