------------------------ MODULE MCCredentialsSession ------------------------
(* History on Runtimes and on the caller's operation value (C14).  The       *)
(* application has two Runtimes A (1) and B (2); it configures one of them   *)
(* (DefaultAuthentication, Debug), makes a request through one of them,      *)
(* REPLACES a configuration, makes another request ... up to MaxSteps        *)
(* requests chosen freely from a pool (no / bearer / basic / query-API-key   *)
(* operation auth, preset Authorization header, static query parameters      *)
(* named like the key, direct or really sent).  A request is made either     *)
(* with a fresh ClientOperation value or by submitting again THE SAME value  *)
(* (one without AuthInfo of its own) - whatever was configured meanwhile     *)
(* and whichever Runtime sends it.  The state is the configurations plus     *)
(* what the implementation remembers (in the Runtimes, in the operation      *)
(* value); every request, judged by every authenticator of the pool, must    *)
(* satisfy C14 for the configuration in force of the SENDING Runtime WHEN IT *)
(* IS MADE, the faithful model's memories stay empty and the caller's        *)
(* operation value is left unchanged.                                        *)
EXTENDS Credentials

CONSTANTS MaxSteps

VARIABLES mem, opval, cfg, n, expect, seen
vars == <<mem, opval, cfg, n, expect, seen>>

W(t, name, loc, u, p) == [t |-> t, name |-> name, in |-> loc, u |-> u, p |-> p]
Basic(u, p)       == W("basic", <<>>, "", u, p)
APIKey(k, loc, v) == W("apikey", k, loc, <<>>, v)
Bearer(t)         == W("bearer", <<>>, "", <<>>, t)
T(i) == <<116, 48 + i>>
KQ   == <<107>>

DefPool == { <<>>, <<Bearer(T(1))>>, <<Bearer(T(2))>>, <<APIKey(KQ, "query", T(3))>>, <<Basic(<<100>>, <<101>>)>> }
OpPool  == { <<>>, <<Bearer(T(4))>>, <<APIKey(KQ, "query", T(5))>>, <<Basic(<<117>>, <<112>>)>> }
StaticPool == { <<>>, <<[k |-> KQ, v |-> T(6)]>> }
Runtimes == {1, 2}

Req(op, authz, st, tr) == [op |-> op, def |-> <<>>, authz |-> authz, hdrs |-> <<>>, query |-> <<>>, form |-> <<>>, media |-> "none",
                           static |-> st, debug |-> FALSE, transport |-> tr]
\* requests made with a fresh operation value / with the shared one (no AuthInfo of its own; its description never changes)
FreshPool  == { Req(op, az, st, tr) : op \in OpPool, az \in {<<>>, <<67, 32, 120>>}, st \in StaticPool, tr \in {"direct", "server"} }
SharedReq(tr) == Req(<<>>, <<>>, <<>>, tr)

Auth(kind, name, loc, scopes, cberr) == [kind |-> kind, name |-> IF kind = "bearer" THEN <<>> ELSE name, scheme |-> IF kind = "bearer" THEN name ELSE "",
                                         in |-> loc, realm |-> "", scopes |-> scopes, cberr |-> cberr]
AuthPool == { Auth("basic", <<>>, "", <<>>, e) : e \in BOOLEAN }
            \cup { Auth("apikey", KQ, "query", <<>>, e) : e \in BOOLEAN }
            \cup { Auth("apikey", ACCESS, "query", <<>>, e) : e \in BOOLEAN }
            \cup { Auth("bearer", "oauth", "", <<"read">>, e) : e \in BOOLEAN }

Cfg0 == [def |-> <<>>, debug |-> FALSE]
Init == /\ mem = [r \in Runtimes |-> RtMem0] /\ opval = OpVal0 /\ cfg = [r \in Runtimes |-> Cfg0] /\ n = 0
        /\ expect = SharedReq("direct") /\ seen = SharedReq("direct")

\* the application replaces the configuration of a Runtime (Debug only on A)
Reconfigure ==
  /\ n < MaxSteps
  /\ \E r \in Runtimes, d \in DefPool, dbg \in BOOLEAN :
       /\ (r = 2 => ~dbg)
       /\ cfg' = [cfg EXCEPT ![r] = [def |-> d, debug |-> dbg]]
  /\ UNCHANGED <<mem, opval, n, expect, seen>>

\* ... makes a request with a fresh operation value through A
Fresh ==
  /\ n < MaxSteps
  /\ \E q \in FreshPool :
       LET s == RtSubmit(mem[1], OpVal0, cfg[1], q) IN
       /\ mem' = [mem EXCEPT ![1] = s.mem] /\ seen' = s.seen /\ expect' = InForceCase(cfg[1], q)
  /\ n' = n + 1
  /\ UNCHANGED <<cfg, opval>>

\* ... or submits the shared operation value (again) through either Runtime
Resubmit ==
  /\ n < MaxSteps
  /\ \E r \in Runtimes, tr \in {"direct", "server"} :
       LET s == RtSubmit(mem[r], opval, cfg[r], SharedReq(tr)) IN
       /\ mem' = [mem EXCEPT ![r] = s.mem] /\ opval' = s.opval /\ seen' = s.seen /\ expect' = InForceCase(cfg[r], SharedReq(tr))
  /\ n' = n + 1
  /\ UNCHANGED cfg

Next == Reconfigure \/ Fresh \/ Resubmit
Spec == Init /\ [][Next]_vars

\* every request of every history carries the credentials of the configuration in force, of the Runtime that sends it, when it is made
Holds == n > 0 => \A A \in AuthPool : AuthOK(expect, A, SrvAuth(Wire(seen), A))
\* a correct Runtime remembers nothing but its configuration
NothingRemembered == \A r \in Runtimes : mem[r] = RtMem0
\* Submit leaves the caller's operation value as it was
OperationUnchanged == opval = OpVal0
=============================================================================
