------------------------------ MODULE MCCodecs ------------------------------
(* Exhaustive small-scope check of Part A of Codecs (C15): for every reader  *)
(* script x reader kind x closing option x destination kind (consumers) and  *)
(* every source kind x delivery script x writer limit x writer kind x        *)
(* closing option (producers) the faithful model of bytestream.go / text.go  *)
(* satisfies ConsumeAllowed / ProduceAllowed.                                *)
EXTENDS Codecs, TLC

CONSTANTS MaxContent, MaxChunks, MaxChunk,
          MaxSeq,         \* steps per history of successive Consume calls (Part A2)
          SeqReaders,     \* concrete reader kinds used in histories (subset of SeqReaderKinds)
          SeqDeepReaders  \* those also used in histories of more than 2 steps

ContentBytes == [i \in 1..MaxContent |-> i]

Chunkings(L) == { c \in UNION { [1..m -> 0..MaxChunk] : m \in 0..MaxChunks } : SumSeq(c) = L }

Scripts ==
  { sc \in [content : { Take(ContentBytes, n) : n \in 0..MaxContent },
            chunks  : UNION { Chunkings(n) : n \in 0..MaxContent },
            term    : {"eof", "err"},
            withData : BOOLEAN] : WellFormedScript(sc) }

(* one chunk, delivered at once: for sources that are not streams *)
Plain(n) == [content |-> Take(ContentBytes, n), chunks |-> IF n = 0 THEN <<>> ELSE <<n>>, term |-> "eof", withData |-> FALSE]

Accepts == {-1} \cup 0..MaxContent

ConsumerCfgs(codec, sc) ==
  { [codec |-> codec, sc |-> sc, content |-> Blob(sc.content), term |-> sc.term, rkind |-> rk, closeOpt |-> co,
     dst |-> d, pre |-> pre, wacc |-> wa, uerr |-> ue, ekind |-> ek] :
       ek \in (IF sc.term = "err" THEN ErrKinds ELSE {"none"}), rk \in {"reader", "readcloser", "nil", "peeked"}, co \in (IF codec = "bytes" THEN BOOLEAN ELSE {FALSE}),
       d \in (IF codec = "bytes" THEN BytesDst ELSE TextDst), pre \in BOOLEAN, wa \in Accepts, ue \in BOOLEAN }

\* drop parameter values that do not matter for the destination kind
ConsumerRelevant(c) ==
  /\ (c.dst # "writer" => c.wacc = -1)
  /\ (c.dst \notin {"binunm", "textunm"} => ~c.uerr)
  /\ (PreOf([c EXCEPT !.pre = TRUE]) = <<>> => ~c.pre)
  /\ (c.rkind = "nil" => c.sc = Plain(0))
  /\ (c.ekind \notin {"none", "custom"} => c.rkind # "nil" /\ c.wacc = -1 /\ ~c.uerr /\ ~c.pre)   \* identity matters for the read fault only

ProducerCfgs(codec, sc) ==
  { [codec |-> codec, sc |-> sc, content |-> Blob(sc.content), term |-> sc.term, src |-> sk, wkind |-> wk, closeOpt |-> co,
     wacc |-> wa, merr |-> me, ekind |-> ek] :
       ek \in (IF sc.term = "err" THEN ErrKinds ELSE {"none"}), sk \in (IF codec = "bytes" THEN BytesSrc ELSE TextSrc),
       wk \in {"writer", "writecloser", "nil"}, co \in (IF codec = "bytes" THEN BOOLEAN ELSE {FALSE}),
       wa \in Accepts, me \in BOOLEAN }

ProducerRelevant(p) ==
  /\ (p.src \notin StreamSrc => p.sc = Plain(Len(p.sc.content)))
  /\ (p.src \notin {"binm", "textm", "dualtm"} => ~p.merr)
  /\ (p.src \in {"nil", "nilpstring", "nilpbytes", "nilpstruct", "array0"} => p.sc = Plain(0))
  /\ (p.wkind = "nil" => p.wacc = -1)
  /\ (p.ekind \notin {"none", "custom"} => p.src \in {"reader", "readcloser"} /\ p.wkind # "nil" /\ p.wacc = -1)
  \* the harness' WriterTo does not deliver data together with its error
  /\ (p.src \in {"writerto", "wtreader", "wtreadcloser"} => ~p.sc.withData)

VARIABLES kind, cfg, out
vars == <<kind, cfg, out>>

Init == kind = "none" /\ cfg = <<>> /\ out = <<>>

\* two steps (script first) so that TLC's workers share the configurations
PickScript == kind = "none" /\ \E sc \in Scripts : kind' = "script" /\ cfg' = sc /\ out' = <<>>

PickConsumer(codec) ==
  \E c \in ConsumerCfgs(codec, cfg) : ConsumerRelevant(c) /\ kind' = "consume" /\ cfg' = c /\ out' = Consume(c)
PickProducer(codec) ==
  \E p \in ProducerCfgs(codec, cfg) : ProducerRelevant(p) /\ kind' = "produce" /\ cfg' = p /\ out' = Produce(p)

(* Part A2: histories of successive Consume calls, grown step by step *)
SeqContents == { <<1>>, <<2, 3>>, <<4, 5, 6>>, <<>> }
SeqSteps(h) ==
  { [op |-> "consume", dst |-> d, content |-> ct, target |-> 0, rkind |-> rk] : d \in SeqDst, ct \in SeqContents, rk \in SeqReaders }
  \cup { [op |-> "mutate", dst |-> "", content |-> <<>>, target |-> t, rkind |-> ""] :
           t \in { j \in 1..Len(h) : h[j].op = "consume" /\ h[j].dst \in ByteKindDst } }
  \cup { [op |-> "srcmutate", dst |-> "", content |-> <<>>, target |-> t, rkind |-> ""] :
           t \in { j \in 1..Len(h) : h[j].op = "consume" /\ h[j].rkind # "script" /\ h[j].content # <<>> } }

GrowSeq ==
  /\ kind \in {"none", "seq"}
  /\ LET h == IF kind = "none" THEN <<>> ELSE cfg.hist IN
     /\ Len(h) < MaxSeq
     /\ \E st \in SeqSteps(h) :
          /\ LET h2 == Append(h, st) IN
             Len(h2) <= 2 \/ \A i \in 1..Len(h2) : h2[i].op = "consume" => h2[i].rkind \in SeqDeepReaders
          /\ kind' = "seq" /\ cfg' = [hist |-> Append(h, st)]
          /\ out' = SeqRun(cfg'.hist, Len(cfg'.hist))

Next == \/ PickScript
        \/ GrowSeq
        \/ kind = "script" /\ (PickConsumer("bytes") \/ PickConsumer("text") \/ PickProducer("bytes") \/ PickProducer("text"))
Spec == Init /\ [][Next]_vars

PropertyHolds ==
  CASE kind = "consume" -> ConsumeAllowed(cfg, out)
    [] kind = "produce" -> ProduceAllowed(cfg, out)
    [] kind = "seq"     -> SeqWellFormed(cfg.hist) /\ out.held = ExpectedHeld(cfg.hist, Len(cfg.hist))
    [] OTHER -> TRUE
=============================================================================
