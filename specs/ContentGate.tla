----------------------------- MODULE ContentGate -----------------------------
(* C06 - a body is decoded only by the consumer of an admitted media type,  *)
(* else 415 (400 for an unparsable Content-Type); requests without a body   *)
(* are not checked; both binding entry points behave alike.                 *)
(*                                                                          *)
(* Part 1: data.  Part 2: the PROPERTY (GateAllowed).  Part 3: a FAITHFUL   *)
(* model of the code, one operator per function:                            *)
(*   runtime.HasBody                        request.go                      *)
(*   runtime.ContentType                    headers.go                      *)
(*   defaultRouteBuilder.AddRoute           middleware/router.go (default appended, consumer table) *)
(*   validateContentType                    middleware/validation.go        *)
(*   validation.contentType (untyped gate)  middleware/validation.go        *)
(*   Context.BindValidRequest (typed gate)  middleware/context.go           *)
EXTENDS Naturals, Sequences, FiniteSets, TLC, SequencesExt

CONSTANT EntryParamsNormalised  \* normative TRUE: a consumes entry "t/s; p=v" admits t/s ("ignoring parameters").
                                \* FALSE = what the tree does (defect D15): the raw entry is compared and admits nothing.
CONSTANT StrictWildcardConsumer \* FALSE: a media type admitted only through a wildcard entry (or an empty list) has no
                                \* consumer in the route's table => 500, allowed (named deviation WildcardAdmittedNoConsumer).

-----------------------------------------------------------------------------
(* Part 1 - data                                                            *)
(* media type  : [t, s]   lower-case type and subtype ("*" = wildcard in entries)        *)
(* entry       : [t, s, p]  consumes entry, p = TRUE when spelled with parameters        *)
(* cfg         : [consumes: Seq(entry), default: <<>> | <<[t,s]>>, registry: Seq([t,s])] *)
(*               registry = media types the API has a consumer registered for            *)
(* request     : [body, ct]                                                              *)
(*   body \in  "none"     no body, no Content-Length                                     *)
(*             "cl"       Content-Length > 0 ("clnohdr": length known, no header line)   *)
(*             "cl0"      explicit Content-Length: 0                                     *)
(*             "chunked"  length unknown (chunked), at least one byte                    *)
(*             "chunked0" length unknown, no byte                                        *)
(*   ct   =    [k, t, s, ok]  k \in "absent" | "empty" | "valid" | "malformed"           *)
(*             (valid: t/s is the media type the header denotes, however it is spelled)  *)
(*             trace validation only: k = "opaque" - arbitrary bytes, read by the        *)
(*             reference parser mime.ParseMediaType: ok = parsed, t/s = what it denotes; *)
(*             k = "noslash" - the reference parser accepts a type without subtype       *)

Bodies  == {"none", "cl", "clnohdr", "cl0", "chunked", "chunked0"}
CTKinds == {"absent", "empty", "valid", "malformed"}
Octet   == [t |-> "application", s |-> "octet-stream"]     \* runtime.DefaultMime

MT(e)        == [t |-> e.t, s |-> e.s]
SameMT(a, b) == a.t = b.t /\ a.s = b.s

\* defaultRouteBuilder.AddRoute: the API default is appended unless (case-insensitively) present
\* (present = spelled exactly like it: an entry with parameters does not count)
Effective(c) ==
  IF c.default = <<>> THEN c.consumes
  ELSE IF \E i \in DOMAIN c.consumes : SameMT(c.consumes[i], c.default[1]) /\ ~c.consumes[i].p
       THEN c.consumes
       ELSE Append(c.consumes, [t |-> c.default[1].t, s |-> c.default[1].s, p |-> FALSE])

Registered(c, mt) == \E i \in DOMAIN c.registry : SameMT(c.registry[i], mt)

\* route.Consumers = api.ConsumersFor(normalizeOffers(consumes)): keyed by the parameter-free entries
InTable(c, mt) == /\ \E i \in DOMAIN Effective(c) : SameMT(Effective(c)[i], mt)
                  /\ Registered(c, mt)

-----------------------------------------------------------------------------
(* Part 2 - the property                                                    *)
(* observation o = [status, consumers: Seq(media type id), handler: BOOLEAN]             *)
(*   status class: "ok" (2xx), "415", "400", "500", "other"                              *)

CarriesBody(body) == body \in {"cl", "clnohdr", "chunked"}

\* the media type a header denotes; <<>> = cannot be parsed
Denotes(ct) == CASE ct.k \in {"absent", "empty"} -> <<Octet>>
                 [] ct.k = "valid"               -> <<[t |-> ct.t, s |-> ct.s]>>
                 [] ct.k = "opaque" /\ ct.ok     -> <<[t |-> ct.t, s |-> ct.s]>>
                 [] OTHER                        -> <<>>

\* "admitted by the consumes list (+ default), directly or through a wildcard entry, ignoring parameters"
EntryAdmits(e, mt) == \/ e.t = mt.t /\ e.s = mt.s
                      \/ e.t = "*"  /\ e.s = "*"
                      \/ e.t = mt.t /\ e.s = "*"
Admitted(c, mt) == \E i \in DOMAIN Effective(c) : EntryAdmits(Effective(c)[i], mt)

Refusal(status)  == [status |-> status, consumers |-> <<>>, handler |-> FALSE]
Decoded(mt)      == [status |-> "ok", consumers |-> <<mt>>, handler |-> TRUE]
NotChecked       == [status |-> "ok", consumers |-> <<>>, handler |-> TRUE]

GateAllowed(c, r) ==
  IF ~CarriesBody(r.body) THEN { NotChecked }                        \* "a request without a body is not subjected to the check"
  ELSE IF r.ct.k = "noslash" THEN { Refusal("400"), Refusal("415"), Refusal("500") }  \* not a media type: any refusal
  ELSE IF Denotes(r.ct) = <<>> THEN { Refusal("400") }                \* "400 when the Content-Type header cannot be parsed"
  ELSE LET mt == Denotes(r.ct)[1] IN
       IF ~Admitted(c, mt)
       THEN { Refusal("415") }                                       \* "otherwise 415, neither a consumer nor the handler runs"
            \cup (IF Effective(c) = <<>> THEN { Refusal("500") } ELSE {})  \* named deviation EmptyConsumesAdmitsAll
       ELSE IF InTable(c, mt) THEN { Decoded(mt) }                   \* "decoded by the consumer registered for its media type"
       ELSE IF Registered(c, mt) /\ StrictWildcardConsumer THEN { Decoded(mt) }
       ELSE { Refusal("500") }                                       \* admitted, but no consumer to decode it

GateWhy(c, r, o) ==
  IF ~CarriesBody(r.body) THEN "request-without-body-was-gated"
  ELSE IF Denotes(r.ct) = <<>> THEN "unparsable-content-type-not-400-or-something-ran"
  ELSE IF ~Admitted(c, Denotes(r.ct)[1]) THEN
       (IF o.consumers # <<>> \/ o.handler THEN "non-admitted-media-type-reached-consumer-or-handler" ELSE "non-admitted-media-type-not-415")
  ELSE IF o.status = "415" THEN "admitted-media-type-refused-415"
  ELSE IF InTable(c, Denotes(r.ct)[1]) THEN "not-decoded-by-the-consumer-of-its-media-type"
  ELSE "admitted-without-consumer-not-500"

-----------------------------------------------------------------------------
(* Part 3 - faithful model                                                  *)

\* runtime.HasBody: ContentLength > 0; else an explicit Content-Length header means no body; else peek one byte
HasBody(body) == CASE body = "cl"       -> TRUE
                   [] body = "clnohdr"  -> TRUE
                   [] body = "cl0"      -> FALSE
                   [] body = "chunked"  -> TRUE      \* peekingReader.HasContent
                   [] body = "chunked0" -> FALSE
                   [] body = "none"     -> FALSE

\* runtime.ContentType: "" -> DefaultMime; mime.ParseMediaType error -> parse error (400); lower-cased, parameters dropped
ParseCT(ct) == CASE ct.k \in {"absent", "empty"} -> [err |-> FALSE, mt |-> <<Octet>>]
                 [] ct.k = "valid"               -> [err |-> FALSE, mt |-> <<[t |-> ct.t, s |-> ct.s]>>]
                 [] OTHER                        -> [err |-> TRUE, mt |-> <<>>]

\* swag.ContainsStringsCI(allowed, x) on the entries as spelled in the document
RawContains(list, t, s) ==
  \E i \in DOMAIN list : list[i].t = t /\ list[i].s = s /\ (EntryParamsNormalised \/ ~list[i].p)

\* validateContentType(allowed, actual)
ValidateContentType(list, mt) ==
  \/ list = <<>>
  \/ RawContains(list, mt.t, mt.s)
  \/ RawContains(list, "*", "*")
  \/ RawContains(list, mt.t, "*")

\* validation.contentType + the rest of the untyped handler (bind with the consumer, handler)
GateUntyped(c, r) ==
  IF ~HasBody(r.body) THEN NotChecked
  ELSE LET p == ParseCT(r.ct) IN
       IF p.err THEN Refusal("400")
       ELSE LET mt == p.mt[1]
                e415 == ~ValidateContentType(Effective(c), mt)
                e500 == ~InTable(c, mt)           \* `if ct != "" && v.route.Consumer == nil` - looked up even after a 415
            IN IF e415 THEN Refusal("415")        \* first error decides the status
               ELSE IF e500 THEN Refusal("500")
               ELSE Decoded(mt)

\* Context.BindValidRequest + a generated binder (consumes the body with route.Consumer) + handler
GateTyped(c, r) ==
  IF ~HasBody(r.body) THEN NotChecked
  ELSE LET p == ParseCT(r.ct) IN
       IF p.err THEN Refusal("400")
       ELSE LET mt == p.mt[1] IN
            IF ~ValidateContentType(Effective(c), mt) THEN Refusal("415")
            ELSE IF ~InTable(c, mt) THEN Refusal("500")   \* `if len(res) == 0 { cons, ok := route.Consumers[ct] ...`
            ELSE Decoded(mt)
=============================================================================
