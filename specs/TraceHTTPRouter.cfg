SPECIFICATION Spec
CONSTANTS
  GuardReserved = TRUE
  UseEscapedPath = TRUE
CHECK_DEADLOCK FALSE
