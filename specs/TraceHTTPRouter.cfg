SPECIFICATION Spec
CONSTANTS
  GuardReserved = TRUE
  GuardNul = TRUE
  UseEscapedPath = TRUE
CHECK_DEADLOCK FALSE
