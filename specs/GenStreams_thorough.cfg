SPECIFICATION GSpec
CONSTANTS
  BufSize = 4096
  MaxEmptyReads = 100
  NilCloseGuarded = TRUE
  MaxContent = 3
  MaxChunks = 3
  MaxChunk = 2
  ReadSizes = {0, 1, 2, 4096}
  MaxHist = 4
  MaxConds = 1
  OneShots = {"err"}
  CloseErrs = {FALSE, TRUE}
VIEW GView
CONSTRAINT GBound
CHECK_DEADLOCK FALSE
