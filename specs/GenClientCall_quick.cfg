SPECIFICATION Spec
CONSTANTS
  ClosesPipeOnBuildError = TRUE
  ClosesFilesOnParamsError = TRUE
  CopyMarksEndSeen = FALSE
  CancelsBeforeClose = FALSE
  ClosesFilesOnFieldError = TRUE
  ZeroLenReadSetsEOF = FALSE
  FileLen = 2
  RespLen = 2
  PNames = {"buffer", "reader", "mp11", "mp02"}
  Auths = {"none", "ok", "read"}
  Readers = {"all", "p1"}
  Cancels = {"none", "auth", "send", "read"}
  P2Names = {}
  Auths2 = {}
  Readers2 = {}
  Cancels2 = {}
CHECK_DEADLOCK FALSE
