SPECIFICATION Spec
CONSTANTS
  N = 3
  SharedBuffer = FALSE
INVARIANT FullContent
CHECK_DEADLOCK FALSE
