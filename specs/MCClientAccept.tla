--------------------------- MODULE MCClientAccept ---------------------------
(* Exhaustive: produces lists up to MaxProduces over a media-type pool x     *)
(* params-writer / auth-writer Accept settings x every entry point.          *)
EXTENDS ClientAccept

CONSTANTS Medias, MaxProduces

VARIABLES in, phase
vars == <<in, phase>>

Settings == { <<>>, << <<>> >>, << <<"x/p">> >>, << <<"x/p", "x/q">> >> }

Init == in = [produces |-> <<>>, pset |-> <<>>, aset |-> <<>>] /\ phase = "produces"
AddProduces == /\ phase = "produces" /\ Len(in.produces) < MaxProduces
               /\ \E m \in Medias : in' = [in EXCEPT !.produces = Append(@, m)]
               /\ UNCHANGED phase
SetWriters == /\ phase = "produces"
              /\ \E p \in Settings, a \in Settings : in' = [in EXCEPT !.pset = p, !.aset = a]
              /\ phase' = "done"
Next == AddProduces \/ SetWriters
Spec == Init /\ [][Next]_vars

Holds == \A e \in Entries : AcceptOK(in, CodeAccept(e, in))
=============================================================================
