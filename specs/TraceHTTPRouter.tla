-------------------------- MODULE TraceHTTPRouter --------------------------
(* Trace validation of the real spec-driven router against                  *)
(* HTTPRouter!DispatchAllowed (property C01).                               *)
(* case  : one API description (reset line: api, via)                       *)
(* event : serve {method, target (atoms as ints), escaped, ran, params,     *)
(*         status, allow, panic, matched, mparams, pattern}                 *)
EXTENDS HTTPRouter, Json, IOUtils

VARIABLES l, st, skipping, fails, cs

RInit(e) == [api |-> e.api, via |-> e.via]

\* Named deviation DocsShadow (the subject of C20): the full API handler (via = "api") answers the documentation page at
\* <basePath>/docs and the spec at /swagger.json itself, whatever the description routes there; such requests are not judged here.
DocsWord == <<100,111,99,115>>
SwaggerJSON == <<47,115,119,97,103,103,101,114,46,106,115,111,110>>
Shadowed(s, e) ==
  /\ s.via = "api"
  /\ Clean(PathUnescape(e.escaped)) \in {JoinSegs(Append(s.api.base.segs, DocsWord)), SwaggerJSON}

\* atom encoding of the driver: c | 256 + c (%XX) | 512 + c (%xx)
AtomOf(n) == [esc |-> n >= 256, c |-> n % 256, lc |-> n >= 512]
Atoms(t) == [i \in DOMAIN t |-> AtomOf(t[i])]

ObsOf(e) == [ran |-> e.ran, params |-> e.params, status |-> e.status,
             allow |-> {e.allow[i] : i \in DOMAIN e.allow}, panic |-> e.panic]
ReqOf(e) == [method |-> e.method, path |-> e.escaped]

\* trusted-base assumption NetHTTPEscapedPath, checked on every event
EscapedOK(e) == e.panic \/ e.escaped = EscapedPathOf(Atoms(e.target))

\* MatchedRouteFrom(request).Params carries the same decoded texts as the handler's map
MatchedOK(e) == (Len(e.ran) = 1) => (e.matched /\ ParamSet(e.mparams) = ParamSet(e.params))

RAllowed(s, e) ==
  CASE e.ev = "serve" -> /\ EscapedOK(e)
                         /\ Shadowed(s, e) \/ (DispatchAllowed(s.api, ReqOf(e), ObsOf(e)) /\ MatchedOK(e))
    [] OTHER -> FALSE

RWhy(s, e) ==
  CASE e.ev = "serve" ->
         IF ~EscapedOK(e) THEN "assumption-nethttp-escaped-path"
         ELSE IF ~DispatchAllowed(s.api, ReqOf(e), ObsOf(e)) THEN DispatchWhy(s.api, ReqOf(e), ObsOf(e))
         ELSE "matched-route-params"
    [] OTHER -> "unknown-event"

RStep(s, e) == s

TheTrace == ndJsonDeserialize(IOEnv.TRACE_FILE)
TC == INSTANCE TraceCommon WITH TInit <- RInit, TAllowed <- RAllowed, TStep <- RStep,
                                TWhy <- RWhy, TStateful <- FALSE, Trace <- TheTrace
Spec == TC!Spec
=============================================================================
