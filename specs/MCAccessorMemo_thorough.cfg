SPECIFICATION Spec
CONSTANTS
  SharedField = "none"
  MemoBound = TRUE
  SampleKinds = FALSE
  MaxHist = 7
INVARIANT Memo
CHECK_DEADLOCK FALSE
