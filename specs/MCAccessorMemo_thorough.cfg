SPECIFICATION Spec
CONSTANTS
  SharedField = "none"
  MemoBound = TRUE
  MaxHist = 7
INVARIANT Memo
CHECK_DEADLOCK FALSE
