--------------------------- MODULE MCAccessorMemo ---------------------------
EXTENDS AccessorMemo
CONSTANT MaxHist
VARIABLES in, m, n
vars == <<in, m, n>>
Init == in \in Kinds /\ m = InitMemo /\ n = 0
Next == /\ n < MaxHist
        /\ \E a \in Accessors : m' = Call(in, m, a).m
        /\ n' = n + 1 /\ UNCHANGED in
Spec == Init /\ [][Next]_vars
\* Unbounded check: the memo cells form a finite state space once the history length and the
\* absolute number of authenticator calls (on which no transition and no property depends: the
\* properties speak about the change made by one call) are projected away, so TLC visits every
\* reachable memo state of histories of ANY length.
AbstractView == <<in, [m EXCEPT !.authcalls = 0]>>

Memo == /\ BodyAtMostOnce(m) /\ LookupAtMostOnce(m)
        /\ \A a \in Accessors : ReusedNotRecomputed(in, m, a) /\ CellsStable(in, m, a) /\ NoReauthWhileCached(in, m, a)
=============================================================================
