--------------------------- MODULE MCAccessorMemo ---------------------------
EXTENDS AccessorMemo
CONSTANT MaxHist
VARIABLES in, m, n
vars == <<in, m, n>>
Init == in \in Kinds /\ m = InitMemo /\ n = 0
Next == /\ n < MaxHist
        /\ \E a \in Accessors : m' = Call(in, m, a).m
        /\ n' = n + 1 /\ UNCHANGED in
Spec == Init /\ [][Next]_vars
Memo == /\ BodyAtMostOnce(m) /\ LookupAtMostOnce(m)
        /\ \A a \in Accessors : ReusedNotRecomputed(in, m, a) /\ CellsStable(in, m, a) /\ NoReauthWhileCached(in, m, a)
=============================================================================
