SPECIFICATION Spec
CONSTANTS
  ParamsParsed = TRUE
  LoopMutant = 0
  MaxSpecs = 2
  MaxOffers = 3
  MaxSynRanges = 2
  BigQ = FALSE
  CheckMonotone = TRUE
INVARIANTS ContentTypeProperty Monotone EncLoopIsBest ParseRoundTrip
CHECK_DEADLOCK FALSE
