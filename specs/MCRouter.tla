------------------------------ MODULE MCRouter ------------------------------
(* Exhaustive small-scope check: the faithful lookup model satisfies C05    *)
(* for every well-formed table over a pattern pool and every path.          *)
EXTENDS Router, SequencesExt

CONSTANTS MaxSegs, MaxRecs, MaxPath, PathBytes, WithRestconf

VARIABLES records, path
vars == <<records, path>>

Lit(s)   == [k |-> "lit",   s |-> s,    n |-> ""]
Par(n)   == [k |-> "param", s |-> <<>>, n |-> n]
Wild(n)  == [k |-> "wild",  s |-> <<>>, n |-> n]

MidSegs  == { <<Lit(<<97>>)>>, <<Lit(<<98>>)>>, <<Par("x")>>, <<Par("y")>> }
            \cup (IF WithRestconf THEN { <<Lit(<<97, 61>>), Par("x")>> } ELSE {})
LastSegs == MidSegs \cup { <<Wild("w")>> }

RECURSIVE PatsOf(_)
PatsOf(n) ==   \* patterns with exactly n segments, no trailing slash
  IF n = 1 THEN { <<Lit(<<SLASH>>)>> \o s : s \in LastSegs }
  ELSE { <<Lit(<<SLASH>>)>> \o s \o p : s \in MidSegs, p \in PatsOf(n - 1) }

EndsWild(p) == p[Len(p)].k = "wild"
Pool == LET base == UNION { PatsOf(n) : n \in 1..MaxSegs }
        IN { p \in base : ~DupNames(p) }
           \cup { Append(p, Lit(<<SLASH>>)) : p \in { q \in base : ~EndsWild(q) /\ ~DupNames(q) } }

PoolSeq == SetToSeq(Pool)

Init == records = <<>> /\ path = <<>>

\* records are added in increasing pool order (a table is a set) and carry
\* their pool index as value; shape-equivalent patterns are not combined.
AddRecord ==
  /\ Len(records) < MaxRecs
  /\ path = <<>>
  /\ \E k \in DOMAIN PoolSeq :
       /\ \A i \in DOMAIN records : records[i].value < k /\ Shape(records[i].pat) # Shape(PoolSeq[k])
       /\ records' = Append(records, [pat |-> PoolSeq[k], value |-> k])
  /\ UNCHANGED path

ExtendPath ==
  /\ records # <<>>
  /\ Len(path) < MaxPath
  /\ \E b \in PathBytes : path' = Append(path, b)
  /\ UNCHANGED records

Next == AddRecord \/ ExtendPath
Spec == Init /\ [][Next]_vars

PropertyHolds == LookupAllowed(records, path, CodeLookup(records, path))

Permute(rs, p) == [i \in DOMAIN rs |-> rs[p[i]]]
OrderIndependent ==
  \A p \in Permutations(DOMAIN records) : CodeLookup(Permute(records, p), path) = CodeLookup(records, path)

\* non-vacuity witnesses (checked to be *violated* during development)
NeverFoundViaParam == ~(CodeLookup(records, path).found /\ CodeLookup(records, path).texts # <<>>)
=============================================================================
