---------------------------- MODULE TraceDocsMW ----------------------------
(* Trace validation of the real spec / docs middlewares against DocsMW (C20). *)
(* case  : one or several configurations whose handlers are all alive at once  *)
(*         (reset line: cfgs)                                                 *)
(* events: build {inst, panic}                                                *)
(*         req {inst, method, urlpath, noescape, next_called, same_method,          *)
(*              same_url, same_header, same_body, entered, next_hdr, next_mode, status, ctype, sha, ran,    *)
(*              panic, slots [{name, occ}], specref}                          *)
EXTENDS DocsMW, Json, IOUtils

VARIABLES l, st, skipping, fails, cs

RInit(e) == [cfgs |-> e.cfgs]     \* the instances of the case, all alive; events name theirs by inst

HTMLType == "text/html; charset=utf-8"

SlotEntry(e, name) == {e.slots[i] : i \in {j \in DOMAIN e.slots : e.slots[j].name = name}}

(* every option value the configuration sets appears, escaped for its context and recoverable *)
SlotsOK(cfg, e) ==
  \A k \in DOMAIN cfg.slots :
    LET sl == cfg.slots[k] IN
    \E en \in SlotEntry(e, sl.name) :
       /\ en.occ # <<>>
       /\ \A i \in DOMAIN en.occ : SlotOK(SlotCtx(cfg, sl.name), sl.payload, en.occ[i])

(* the page of an API handler references the location given as SpecURL *)
SpecRefOK(cfg, e) ==
  (IsAPI(cfg) /\ cfg.specurl.kind # "default") =>
     /\ Len(e.specref) = 1
     /\ NoRawMeta(SlotCtx(cfg, "SpecURL"), e.specref[1])
     /\ LET ctx == SlotCtx(cfg, "SpecURL")
            got == Recover(ctx, e.specref[1])
            want == SpecURLText(cfg.specurl)
        IN IF ctx = "url" THEN got = PctUnescape(want)      \* a URL attribute may spell bytes percent-encoded: same location
           ELSE got = want

(* the instrumented next answers in one of three ways (next_mode); what the client gets is exactly that answer:  *)
(* 0: 299 with its own Content-Type; 1: a plain Write without Content-Type (the type is sniffed from the body);     *)
(* 2: 204 No Content without Content-Type                                                                           *)
NextAnswerIntact(e) ==
  CASE e.next_mode = 0 -> e.status = 299 /\ e.ctype = "text/x-next"
    [] e.next_mode = 1 -> e.status = 200 /\ e.ctype = "text/plain; charset=utf-8"
    [] e.next_mode = 2 -> e.status = 204 /\ e.ctype = ""

OpAt(cfg, e) ==
  {i \in DOMAIN cfg.ops : e.method = "GET" /\ e.noescape /\ PathClean(e.urlpath) = OpPath(cfg, i)}

ReqWhy(cfg, e) ==
  LET who == WhoTV(cfg, e.urlpath) IN
  IF e.panic THEN "panic"
  ELSE CASE who = "spec" ->
              IF e.next_called \/ e.ran # 0 THEN "spec-path-handed-on"
              ELSE IF e.status # 200 \/ e.ctype # "application/json" THEN "spec-answer-status-or-type"
              ELSE IF e.sha # cfg.specsha THEN "spec-bytes-differ"
              ELSE "ok"
         [] who = "ui" ->
              IF e.next_called \/ e.ran # 0 THEN "ui-path-handed-on"
              ELSE IF e.status # 200 \/ e.ctype # HTMLType THEN "ui-answer-status-or-type"
              ELSE IF ~SlotsOK(cfg, e) THEN "option-value-missing-or-not-html-escaped"
              ELSE IF ~SpecRefOK(cfg, e) THEN "page-does-not-reference-the-spec-location"
              ELSE "ok"
         [] who = "next" ->
              IF ~e.next_called THEN "other-path-intercepted"
              ELSE IF ~(e.same_method /\ e.same_url /\ e.same_header /\ e.same_body) THEN "request-modified"
              ELSE IF e.next_hdr # <<>> THEN "response-headers-preset-for-next"
              ELSE IF ~NextAnswerIntact(e) THEN "next-answer-altered"
              ELSE "ok"
         [] who = "404" ->
              IF e.status # 404 THEN "404-expected" ELSE "ok"
         [] who = "routes" ->
              IF e.ctype = HTMLType \/ (e.status = 200 /\ e.sha = cfg.specsha) THEN "other-path-intercepted"
              ELSE IF \E i \in OpAt(cfg, e) : e.ran # i THEN "operation-not-reachable"
              ELSE IF e.entered /\ e.next_hdr # <<>> THEN "response-headers-preset-for-next"
              ELSE "ok"

RAllowed(s, e) ==
  CASE e.ev = "build" -> ~e.panic
    [] e.ev = "req"   -> ReqWhy(s.cfgs[e.inst], e) = "ok"
    [] OTHER -> FALSE

RWhy(s, e) ==
  CASE e.ev = "build" -> "construction-panics"
    [] e.ev = "req"   -> ReqWhy(s.cfgs[e.inst], e)
    [] OTHER -> "unknown-event"

RStep(s, e) == s

TheTrace == ndJsonDeserialize(IOEnv.TRACE_FILE)
TC == INSTANCE TraceCommon WITH TInit <- RInit, TAllowed <- RAllowed, TStep <- RStep,
                                TWhy <- RWhy, TStateful <- FALSE, Trace <- TheTrace
Spec == TC!Spec
=============================================================================
