SPECIFICATION Spec
CONSTANTS
  ProducerLookupNormalised = TRUE
  MaxProduces = 3
INVARIANTS PropertyHolds NegotiationSound
CHECK_DEADLOCK FALSE
