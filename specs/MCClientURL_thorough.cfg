SPECIFICATION Spec
CONSTANTS
  Variant = "fixed"
  Atoms <- AtomsAll
  MaxVal = 3
  MaxVal2 = 1
  MaxSegs = 2
  LitPool <- LitEscaped
  Schemes <- SchemesAll
  MaxSchemes = 3
  MaxHistory = 2
  MaxBaseQ = 2
  MaxPatQ = 2
INVARIANTS PathHolds OrderIndependent QueryHolds SchemeHolds RawQueryRoundTrip
CHECK_DEADLOCK FALSE
