---------------------------- MODULE MCParamBind ----------------------------
(* Exhaustive check of ParamBind: the faithful model of the binder satisfies *)
(* the declarative statement, Outcome(d, req) \in Allowed(d, req) and never  *)
(* panics, over a lattice of declarations x request texts.  The declaration  *)
(* is chosen field group by field group and the request last, all in Next.   *)
EXTENDS ParamBind

CONSTANTS Thorough    \* FALSE: pairwise-reduced lattice (quick); TRUE: full lattice

VARIABLES phase, d, req
vars == <<phase, d, req>>

B(c) == <<c>>
Txt(digs) == [i \in DOMAIN digs |-> digs[i] + 48]

NameLim  == <<108, 105, 109>>                       \* lim
HdrNames == { <<88, 45, 76, 105, 109>>, <<120, 45, 108, 105, 109>>, <<88, 45, 76, 73, 77>> }   \* X-Lim  x-lim  X-LIM
HdrOther == <<88, 45, 79>>                          \* X-O
QueryOtherKeys == { <<76, 73, 77>>, <<108, 105, 109, 120>> }      \* LIM  limx

NoVal == [k |-> "none", hasmin |-> FALSE, hasmax |-> FALSE, min |-> <<>>, max |-> <<>>, emin |-> FALSE, emax |-> FALSE,
          vals |-> <<>>, unique |-> FALSE]
RangeVal(mn, mx, emin) == [NoVal EXCEPT !.k = "range", !.hasmin = TRUE, !.min = mn, !.hasmax = TRUE, !.max = mx, !.emin = emin]
EnumVal(vals) == [NoVal EXCEPT !.k = "enum", !.vals = vals]
LenVal(mn, mx) == [NoVal EXCEPT !.k = "len", !.hasmin = TRUE, !.min = mn, !.hasmax = TRUE, !.max = mx]
ItemsVal(mn, mx, uniq) == [NoVal EXCEPT !.k = "items", !.hasmin = TRUE, !.min = mn, !.hasmax = TRUE, !.max = mx, !.unique = uniq]

T5 == <<53>>  T7 == <<55>>  T1 == <<49>>  T3 == <<51>>  T9 == <<57>>

\* (type, format) kinds of scalars and of array items
ScalarKinds ==
  { <<"integer", "">>, <<"integer", "int8">>, <<"integer", "int32">>, <<"integer", "int64">>,
    <<"number", "">>, <<"number", "float">>, <<"number", "double">>, <<"boolean", "">>,
    <<"string", "">>, <<"string", "date">>, <<"string", "byte">>, <<"string", "uuid">>, <<"string", "password">> }
    \cup (IF Thorough THEN { <<"integer", "int16">>, <<"string", "date-time">>, <<"string", "foo">>, <<"string", "sku">> } ELSE {})
ItemKinds == { <<"string", "">>, <<"integer", "int32">>, <<"number", "">>, <<"string", "uuid">>, <<"string", "sku">> }   \* sku: application-defined
             \cup (IF Thorough THEN { <<"number", "double">>, <<"string", "date">>, <<"integer", "int64">>, <<"boolean", "">> } ELSE {})
CFs == IF Thorough THEN {"", "csv", "ssv", "tsv", "pipes", "multi"} ELSE {"", "ssv", "pipes", "multi"}
DeclHdrNames == IF Thorough THEN HdrNames ELSE { <<88, 45, 76, 105, 109>>, <<120, 45, 108, 105, 109>> }

\* a valid literal of the kind (defaults, enum members)
GoodText(type, format) ==
  CASE type = "integer" -> T5
    [] type = "number"  -> <<49, 46, 53>>
    [] type = "boolean" -> W_true
    [] IsFormat(format) -> (CHOOSE pr \in FormatInfo(format).valid : TRUE)[1]
    [] OTHER -> <<97, 98>>

ValsFor(type, format) ==
  {NoVal} \cup
  CASE type = "integer" -> { RangeVal(T3, T7, FALSE) } \cup (IF Thorough THEN { RangeVal(T5, T9, TRUE), EnumVal(<<T5, T7>>) } ELSE {})
    [] type = "number"  -> { EnumVal(<<<<49, 46, 53>>, T7>>) } \cup (IF Thorough THEN { RangeVal(T1, T7, FALSE) } ELSE {})
    [] type = "string" /\ ~IsFormat(format) -> { LenVal(<<50>>, <<51>>) } \cup (IF Thorough THEN { EnumVal(<<<<97, 98>>, <<97, 98, 99>>>>) } ELSE {})
    [] OTHER -> {}

\* declared defaults: a good literal; zero-valued defaults (0, 0.0, false, "", the empty list: a default that "is zero" is still a
\* default); magnitudes at which a float64 prints in exponent notation (>= 10^6, < 10^-4), also negative
ZeroTexts(et, ef) ==
  CASE et = "integer" -> {<<48>>}
    [] et = "number"  -> {<<48>>} \cup (IF Thorough THEN {<<48, 46, 48>>} ELSE {})
    [] et = "boolean" -> {W_false}
    [] et = "string" /\ ~IsFormat(ef) -> {<<>>}
    [] OTHER -> {}
BigTexts(et, ef) ==
  CASE et = "integer" /\ Bits(ef) >= 32 -> {<<49, 48, 48, 48, 48, 48, 48>>} \cup (IF Thorough THEN {<<45, 49, 48, 48, 48, 48, 48, 48>>} ELSE {})
    [] et = "number"  -> {<<48, 46, 48, 48, 48, 48, 49>>} \cup (IF Thorough THEN {<<49, 48, 48, 48, 48, 48, 48>>} ELSE {})
    [] OTHER -> {}
DefChoices(et, ef, isArray, noVal) ==
  LET g == GoodText(et, ef) IN
  IF isArray
  THEN {<<g, g>>} \cup (IF noVal THEN {<<>>} \cup { <<z>> : z \in ZeroTexts(et, ef) } \cup { <<b, g>> : b \in BigTexts(et, ef) } ELSE {})
  ELSE {<<g>>} \cup (IF noVal THEN { <<z>> : z \in ZeroTexts(et, ef) \cup BigTexts(et, ef) } ELSE {})

BaseDecl == [in |-> "query", enc |-> "", name |-> NameLim, type |-> "string", format |-> "", itype |-> "", iformat |-> "", cf |-> "",
             required |-> FALSE, hasdef |-> FALSE, def |-> <<>>, allowEmpty |-> FALSE, val |-> NoVal]

Locations == { <<"query", "">>, <<"header", "">>, <<"path", "">>, <<"formData", "urlencoded">>, <<"formData", "multipart">> }

NoReq == [pairs |-> <<>>, seg |-> <<>>, other |-> <<>>, oenc |-> ""]
Init == phase = "kind" /\ d = BaseDecl /\ req = NoReq

\* 1. location, name, type
ChooseKind ==
  /\ phase = "kind"
  /\ \E loc \in Locations :
     \E nm \in (IF loc[1] = "header" THEN DeclHdrNames ELSE {NameLim}) :
       \/ \E sk \in ScalarKinds :
            d' = [d EXCEPT !.in = loc[1], !.enc = loc[2], !.name = nm, !.type = sk[1], !.format = sk[2]]
       \/ \E ik \in ItemKinds : \E cf \in CFs :
            d' = [d EXCEPT !.in = loc[1], !.enc = loc[2], !.name = nm, !.type = "array", !.itype = ik[1], !.iformat = ik[2], !.cf = cf]
       \/ /\ loc = <<"formData", "multipart">>
          /\ d' = [d EXCEPT !.in = loc[1], !.enc = loc[2], !.name = nm, !.type = "file"]
  /\ phase' = "flags" /\ UNCHANGED req

\* 2. required / default / allowEmptyValue / validation
ChooseFlags ==
  /\ phase = "flags"
  /\ \E rq \in BOOLEAN, hd \in BOOLEAN, ae \in BOOLEAN :
       /\ d.in = "path" => (rq /\ ~hd)                     \* path parameters are required
       /\ d.type = "file" => (~hd /\ ~ae)
       /\ LET et == IF d.type = "array" THEN d.itype ELSE d.type
              ef == IF d.type = "array" THEN d.iformat ELSE d.format
              vals == IF d.type = "file" THEN {NoVal}
                      ELSE IF d.type = "array" THEN ValsFor(et, ef) \cup { ItemsVal(<<50>>, <<51>>, TRUE) }
                      ELSE ValsFor(et, ef)
          IN \E vd \in vals :
               \* a declared default satisfies the declared validation (else the declaration is not legal)
               /\ hd => (vd.k \in {"none"} \/ (vd.k = "enum" /\ d.type # "array") \/ (vd.k = "range" /\ d.type # "array" /\ ~vd.emin))
               /\ \E df \in (IF ~hd THEN {<<>>} ELSE DefChoices(et, ef, d.type = "array", vd.k = "none")) :
                    d' = [d EXCEPT !.required = rq, !.hasdef = hd, !.allowEmpty = ae, !.val = vd, !.def = df]
  /\ phase' = "req" /\ UNCHANGED req

TextsFor(type, format) ==
  CASE type = "integer" -> (CASE Bits(format) = 8 -> IntTexts8 [] Bits(format) = 16 -> IntTexts16 [] Bits(format) = 32 -> IntTexts32 [] OTHER -> IntTexts64)
    [] type = "number"  -> FloatTexts
    [] type = "boolean" -> BoolTexts
    [] IsFormat(format) -> FormatTexts(format)
    [] OTHER -> StrTexts

\* a text that is not a literal of the kind
BadText(type, format) ==
  CASE type \in {"integer", "number"} -> <<120>>
    [] type = "boolean" -> <<109, 97, 121, 98, 101>>
    [] IsFormat(format) /\ FormatInfo(format).invalid # {} -> CHOOSE t \in FormatInfo(format).invalid : TRUE
    [] OTHER -> <<97, 44, 98>>

\* item texts joined with the declared separator (blanks, empty items, a foreign separator)
Join2(a, b, sep) == a \o <<sep>> \o b
ArrayTexts ==
  LET good == GoodText(d.itype, d.iformat)
      bad  == BadText(d.itype, d.iformat)
      its  == IF Thorough THEN { t \in TextsFor(d.itype, d.iformat) : Len(t) <= 4 } \cup {good, bad} ELSE {good, bad, <<>>}
      sep  == SepOf(d.cf)
      closed == IsFormat(d.iformat) /\ ~FormatInfo(d.iformat).open       \* only table texts have a defined meaning
  IN IF closed /\ d.cf = "multi" THEN its
     ELSE its \cup { Join2(a, b, sep) : a \in its, b \in {good, bad, <<>>} }
              \cup { <<32>> \o Join2(a, good, sep) \o <<32>> : a \in {good, <<>>} } \cup { <<sep>> }
              \cup (IF closed THEN {} ELSE { Join2(good, good, 59) })

Pair(k, v) == [k |-> k, v |-> v, bare |-> FALSE, file |-> FALSE, fn |-> <<>>]
FilePair(k, v) == [k |-> k, v |-> v, bare |-> FALSE, file |-> TRUE, fn |-> <<102>>]

\* the same key sent in the opposite location (query string of a form post / body of a query request): must be ignored
Others ==
  LET et == IF d.type = "array" THEN d.itype ELSE d.type
      ef == IF d.type = "array" THEN d.iformat ELSE d.format
      encs == IF d.in = "formData" THEN {""} ELSE {"urlencoded", "multipart"}
  IN IF d.in \in {"formData", "query"} /\ d.type # "file"
     THEN {<<<<>>, "">>} \cup { <<<<Pair(d.name, t)>>, e>> : t \in ({BadText(et, ef)} \cup IF Thorough THEN {GoodText(et, ef)} ELSE {}), e \in encs }
     ELSE {<<<<>>, "">>}
Mk(ps, sg) == \E o \in Others : req' = [pairs |-> ps, seg |-> sg, other |-> o[1], oenc |-> o[2]]

\* 3. the request
ChooseRequest ==
  /\ phase = "req"
  /\ LET et == IF d.type = "array" THEN d.itype ELSE d.type
         ef == IF d.type = "array" THEN d.iformat ELSE d.format
         good == GoodText(et, ef)
         few   == {good, BadText(et, ef), <<>>}
         \* declarations with a zero-valued / large default differ from the others only in what absent and empty requests yield
         plainDefault == ~d.hasdef \/ d.def \in {<<good>>, <<good, good>>}
         texts == IF d.type = "file" THEN {<<104, 105>>}
                  ELSE IF ~plainDefault THEN few \cup (IF d.type = "array" /\ ~(d.cf = "multi" /\ IsFormat(ef) /\ ~FormatInfo(ef).open) THEN {<<SepOf(d.cf)>>} ELSE {})
                  ELSE IF d.type = "array" THEN ArrayTexts ELSE TextsFor(d.type, d.format)
         keys  == IF d.in = "header" THEN HdrNames ELSE {d.name}
         other == IF d.in = "header" THEN {HdrOther} ELSE QueryOtherKeys
     IN IF d.in = "path"
        THEN \E t \in (texts \ {<<>>}) : Mk(<<>>, t)
        ELSE IF d.type = "file"
        THEN \/ Mk(<<>>, <<>>)
             \/ \E t \in texts : Mk(<<FilePair(d.name, t)>>, <<>>)
             \/ \E t \in texts : Mk(<<Pair(d.name, t)>>, <<>>)                     \* a value part, not a file
             \/ \E t \in texts : Mk(<<FilePair(d.name, t), FilePair(d.name, <<>>)>>, <<>>)
        ELSE \/ Mk(<<>>, <<>>)                                                      \* absent
             \/ \E t \in texts : Mk(<<Pair(d.name, t)>>, <<>>)                     \* every text, declared spelling
             \/ \E k \in keys \cup other, t \in few : Mk(<<Pair(k, t)>>, <<>>)         \* other spellings / other keys
             \/ \E k1 \in keys, k2 \in keys \cup other, t1 \in few, t2 \in few :                                \* two occurrences
                    (Thorough \/ k1 = d.name \/ k2 = d.name) /\ Mk(<<Pair(k1, t1), Pair(k2, t2)>>, <<>>)
             \/ /\ Thorough                                                                                    \* every text first / last of two
                /\ \E t \in texts, t2 \in {good, <<>>} :
                     \/ Mk(<<Pair(d.name, t), Pair(d.name, t2)>>, <<>>)
                     \/ Mk(<<Pair(d.name, t2), Pair(d.name, t)>>, <<>>)
  /\ phase' = "done" /\ UNCHANGED d

Next == ChooseKind \/ ChooseFlags \/ ChooseRequest
Spec == Init /\ [][Next]_vars

\* ---- invariants ---------------------------------------------------------------
Conforms(o)       == Admits(Allowed(d, req), o)
NeverPanics(o)    == o.k # "panic"
OnlyValueOr422(o) == o.k \in {"ok", "okany", "rej"}          \* the value, or 422: nothing else
\* header lookup is case-insensitive in the declared name
HeaderCaseInsensitive(o) == d.in = "header" => \A nm \in HdrNames : Outcome([d EXCEPT !.name = nm], req) = o

Property ==
  phase = "done" => LET o == Outcome(d, req) IN Conforms(o) /\ NeverPanics(o) /\ OnlyValueOr422(o) /\ HeaderCaseInsensitive(o)

\* non-vacuity witnesses (violated when checked)
NeverRejects == ~(phase = "done" /\ Outcome(d, req).k = "rej")
NeverDefault == ~(phase = "done" /\ d.hasdef /\ Occurrences(d, req) = <<>> /\ Outcome(d, req).k = "ok")
=============================================================================
