SPECIFICATION Spec
CONSTANTS
  RestoresOp = TRUE
  ClientStatusRule = TRUE
  CopiesOpts = TRUE
  SharedSpanVar = FALSE
  MaxCalls = 2
  Statuses = {200, 404}
  Unassigned = {}
  NCallers = 2
  ConcCtxs = {"plain", "span"}
  ConcEnds = {"params", "reader", "ok"}
  ConcStatuses = {200, 404}
INVARIANTS InvProp InvOwn InvSpans InvQuiescent InvNoRace
CHECK_DEADLOCK FALSE
