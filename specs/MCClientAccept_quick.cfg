SPECIFICATION Spec
CONSTANTS
  Variant = "head"
  Medias = {"application/json", "text/plain", "application/xml; q=0.5"}
  MaxProduces = 3
INVARIANT Holds
CHECK_DEADLOCK FALSE
