---------------------------- MODULE MCContentGate ----------------------------
(* Exhaustive check: both faithful gates satisfy C06 and agree, for every   *)
(* consumes list over the entry pool, default, registry, header and body.   *)
EXTENDS ContentGate

CONSTANTS MaxEntries

VARIABLES stage, cfg, req
vars == <<stage, cfg, req>>

E(t, s, p) == [t |-> t, s |-> s, p |-> p]
M(t, s)    == [t |-> t, s |-> s]
EntryPool  == { E("a", "x", FALSE), E("a", "y", FALSE), E("b", "x", FALSE), E("a", "*", FALSE), E("*", "*", FALSE),
                E("a", "x", TRUE), E("application", "octet-stream", FALSE),
                E("a", "*", TRUE), E("*", "*", TRUE) }                 \* wildcard entries may carry parameters too
Defaults   == { <<>>, <<M("a", "x")>>, <<M("b", "y")>> }
Types      == { M("a", "x"), M("a", "y"), M("b", "x"), M("b", "y"), Octet }
Headers    == { [k |-> "absent", t |-> "", s |-> ""], [k |-> "empty", t |-> "", s |-> ""], [k |-> "malformed", t |-> "", s |-> ""] }
              \cup { [k |-> "valid", t |-> m.t, s |-> m.s] : m \in Types }

Init == stage = "consumes" /\ cfg = [consumes |-> <<>>, default |-> <<>>, registry |-> <<>>]
        /\ req = [body |-> "none", ct |-> [k |-> "absent", t |-> "", s |-> ""]]

AddEntry == /\ stage = "consumes" /\ Len(cfg.consumes) < MaxEntries
            /\ \E e \in EntryPool : cfg' = [cfg EXCEPT !.consumes = Append(@, e)]
            /\ UNCHANGED <<stage, req>>
ChooseRest == /\ stage = "consumes" /\ stage' = "request"
              /\ \E d \in Defaults, R \in SUBSET Types :
                    cfg' = [cfg EXCEPT !.default = d, !.registry = SetToSeq(R)]
              /\ UNCHANGED req
ChooseRequest == /\ stage = "request" /\ stage' = "done"
                 /\ \E b \in Bodies, h \in Headers : req' = [body |-> b, ct |-> h]
                 /\ UNCHANGED cfg
Next == AddEntry \/ ChooseRest \/ ChooseRequest
Spec == Init /\ [][Next]_vars

AtEnd == stage = "done"
UntypedOK  == AtEnd => GateUntyped(cfg, req) \in GateAllowed(cfg, req)
TypedOK    == AtEnd => GateTyped(cfg, req) \in GateAllowed(cfg, req)
Equivalent == AtEnd => GateUntyped(cfg, req) = GateTyped(cfg, req)
\* the model's view of "carries a body" is the code's
BodyViewOK == AtEnd => (HasBody(req.body) <=> CarriesBody(req.body))

\* non-vacuity witnesses (each must be violated)
NeverDecoded  == ~(AtEnd /\ GateUntyped(cfg, req).consumers # <<>>)
Never415      == ~(AtEnd /\ GateUntyped(cfg, req).status = "415")
Never500      == ~(AtEnd /\ GateUntyped(cfg, req).status = "500" /\ cfg.consumes # <<>>)
NeverWildcard == ~(AtEnd /\ GateUntyped(cfg, req).status = "ok" /\ req.ct.k = "valid" /\ HasBody(req.body)
                     /\ \E i \in DOMAIN cfg.consumes : cfg.consumes[i].s = "*")
=============================================================================
