---------------------------- MODULE MCBodyBind ----------------------------
(* Exhaustive checks of BodyBind:                                                                   *)
(*  logic  : for every declaration (schema kind x required x default) and every request (transport x  *)
(*           syntax class x document x trailing bytes) the faithful model of the binder produces an  *)
(*           outcome the property allows:  Allowed(p, rq, Outcome(p, rq))                             *)
(*  oracle : for every schema x value of a generated family the declarative relation Valid and the   *)
(*           independently structured checker Violations agree, in both number modes; plus a table   *)
(*           of hand-computed verdicts (ASSUME TableHolds)                                           *)
(* All choices are made in Next (two steps each), never in Init.                                     *)
EXTENDS BodyBind

CONSTANTS Thorough

VARIABLES st
vars == <<st>>

N(m, e) == [m |-> m, e |-> e]
S_(c) == <<c>>
a_  == <<97>>   ab_ == <<97, 98>>   abc_ == <<97, 98, 99>>   c_ == <<99>>   d5_ == <<53>>
date_ == <<50, 48, 50, 48, 45, 48, 49, 45, 49, 53>>      \* 2020-01-15
baddate_ == <<50, 48, 50, 48, 45, 49, 51, 45, 48, 49>>   \* 2020-13-01

\* ---- schemas ----
AnyS  == [ref |-> FALSE]
Str1 == [ty |-> "string", minL |-> 2]
Str2 == [ty |-> "string", maxL |-> 1]
Str3 == [ty |-> "string", pat |-> "^a"]
Str4 == [ty |-> "string", enum |-> <<VStr(ab_), VStr(c_)>>]
Str5 == [ty |-> "string", fmt |-> "date"]
Str6 == [ty |-> "string", pat |-> "b", minL |-> 1, maxL |-> 2]
Int1 == [ty |-> "integer"]
Int2 == [ty |-> "integer", min |-> N(2, 0)]
Int3 == [ty |-> "integer", max |-> N(5, 0), exMax |-> TRUE]
Int4 == [ty |-> "integer", mult |-> N(2, 0)]
Int5 == [ty |-> "integer", enum |-> <<VInt(1), VInt(2)>>]
Num1 == [ty |-> "number", min |-> N(15, -1), exMin |-> TRUE]
Num2 == [ty |-> "number", max |-> N(2, 0)]
Num3 == [ty |-> "number", mult |-> N(5, -1)]
Num4 == [ty |-> "number", enum |-> <<VNum(15, -1, "frac"), VInt(2)>>]
Bool == [ty |-> "boolean"]
Leaf == {AnyS, Str1, Str2, Str3, Str4, Str5, Int1, Int2, Int3, Int4, Int5, Num1, Num2, Num3, Bool}
       \cup (IF Thorough THEN {Str6, Num4} ELSE {})

ArrOf(L) == { [ty |-> "array", items |-> L], [ty |-> "array", items |-> L, minI |-> 1], [ty |-> "array", items |-> L, maxI |-> 1],
              [ty |-> "array", items |-> L, uniq |-> TRUE] }
Arrs == UNION { ArrOf(L) : L \in Leaf } \cup { [ty |-> "array"], [ty |-> "array", uniq |-> TRUE, minI |-> 2] }

Reqs == { <<>>, <<"a">>, <<"b">>, <<"a", "b">> }
ObjOf(L1, L2) ==
  { [ty |-> "object", props |-> <<[name |-> "a", sch |-> L1], [name |-> "b", sch |-> L2]>>, req |-> r] : r \in Reqs }
  \cup { [ty |-> "object", props |-> <<[name |-> "a", sch |-> L1], [name |-> "b", sch |-> L2]>>, req |-> r, addl |-> "false"] : r \in {<<>>, <<"a">>} }
  \cup { [ty |-> "object", props |-> <<[name |-> "a", sch |-> L1]>>, addl |-> "schema", addlSch |-> L2] }
  \cup { [props |-> <<[name |-> "a", sch |-> L1]>>, req |-> <<"b">>, addlSch |-> L2, addl |-> "schema"] }     \* no `type`
Objs == UNION { ObjOf(L1, L2) : L1 \in Leaf, L2 \in (IF Thorough THEN Leaf ELSE {AnyS, Str1, Int2, Num2, Bool}) }
        \cup { [ty |-> "object", minP |-> 1], [ty |-> "object", maxP |-> 1], [ty |-> "object", minP |-> 1, maxP |-> 2, addl |-> "true"] }

Nested == { [ty |-> "object", props |-> <<[name |-> "a", sch |-> X]>>, req |-> <<"a">>] : X \in Arrs }
          \cup { [ty |-> "array", items |-> [ty |-> "object", props |-> <<[name |-> "a", sch |-> L]>>, req |-> r], uniq |-> u]
                 : L \in Leaf, r \in {<<>>, <<"a">>}, u \in BOOLEAN }
          \cup { [ty |-> "object", props |-> <<[name |-> "c", sch |-> [ty |-> "object", props |-> <<[name |-> "a", sch |-> L]>>, req |-> <<"a">>, addl |-> "false"]]>>]
                 : L \in Leaf }

OracleSchemas == Leaf \cup Arrs \cup Objs \cup Nested

\* ---- values ----
Scalars == { VNull, VBool(TRUE), VInt(1), VInt(2), VInt(3), VInt(5), VInt(6), VNum(20, -1, "frac"), VNum(15, -1, "frac"),
             VNum(2, 0, "exp"), VNum(5, -1, "frac"), VInt(0), VInt(-4),
             VBig("i63max"), VBig("i63ovf"), VBig("x1e400"), VBig("f53"), VBig("i63und"), VBig("x1e30"),
             VStr(<<>>), VStr(a_), VStr(ab_), VStr(abc_), VStr(c_), VStr(date_), VStr(baddate_), VStr(d5_), VStr(<<233>>) }
Small == { VNull, VInt(1), VInt(2), VNum(20, -1, "frac"), VStr(a_), VStr(ab_) } \cup (IF Thorough THEN { VBool(TRUE), VInt(6), VStr(c_), VNum(15, -1, "frac") } ELSE {})
ArrVals == { VArr(<<>>) } \cup { VArr(<<x>>) : x \in Small } \cup { VArr(<<x, y>>) : x, y \in Small }
ObjVals == { VObj(<<>>) } \cup { VObj(<<KV("a", x)>>) : x \in Small } \cup { VObj(<<KV("c", x)>>) : x \in Small }
           \cup { VObj(<<KV("a", x), KV("b", y)>>) : x, y \in Small }
           \cup { VObj(<<KV("b", x), KV("c", y)>>) : x, y \in Small }
           \cup { VObj(<<KV("a", x), KV("a", y)>>) : x, y \in Small }          \* duplicate names: the last wins
NestVals == { VObj(<<KV("a", x)>>) : x \in ArrVals } \cup { VArr(<<x>>) : x \in ObjVals }
            \cup { VArr(<<VObj(<<KV("a", x)>>), VObj(<<KV("a", y)>>)>>) : x, y \in Small }
            \cup { VObj(<<KV("c", VObj(<<KV("a", x)>>))>>) : x \in Small } \cup { VObj(<<KV("c", VObj(<<KV("b", x)>>))>>) : x \in Small }
OracleValues == Scalars \cup ArrVals \cup ObjVals \cup NestVals

\* ---- declarations and requests of the logic part ----
LObjReq == [ty |-> "object", req |-> <<"a">>, props |-> <<[name |-> "a", sch |-> Int1]>>]
LObj    == [ty |-> "object"]
LObjNoT == [props |-> <<[name |-> "a", sch |-> Int1]>>]
LArr1   == [ty |-> "array", items |-> Int1, minI |-> 1]
LArr    == [ty |-> "array", items |-> Str1]
LMinP   == [ty |-> "object", minP |-> 1]
LUniq   == [ty |-> "array", items |-> [ty |-> "number"], uniq |-> TRUE]
LogicSchemas == { LObjReq, LObj, LObjNoT, LArr1, LArr, LMinP, LUniq, Str1, Int2, Num2, Bool, AnyS }

DefFor(S) ==
  CASE S = LObjReq -> VObj(<<KV("a", VInt(7))>>)
    [] S = LObj    -> VObj(<<KV("z", VStr(ab_))>>)
    [] S = LObjNoT -> VObj(<<KV("a", VInt(7))>>)
    [] S = LArr1   -> VArr(<<VInt(7), VInt(8)>>)
    [] S = LArr    -> VArr(<<>>)
    [] S = LMinP   -> VObj(<<KV("z", VBool(TRUE))>>)
    [] S = LUniq   -> VArr(<<VInt(7)>>)
    [] S = Str1    -> VStr(abc_)
    [] S = Int2    -> VInt(7)
    [] S = Num2    -> VNum(15, -1, "frac")
    [] S = Bool    -> VBool(FALSE)
    [] S = AnyS     -> VStr(a_)

Decls == { [name |-> "b", required |-> r, hasDef |-> h, def |-> (IF h THEN DefFor(S) ELSE VNull), schema |-> S]
           : r \in BOOLEAN, h \in BOOLEAN, S \in LogicSchemas }

LogicValues == { VNull, VObj(<<>>), VObj(<<KV("a", VInt(1))>>), VObj(<<KV("a", VStr(a_))>>), VObj(<<KV("a", VStr(a_)), KV("a", VInt(1))>>),
                 VObj(<<KV("a", VBig("i63ovf"))>>), VObj(<<KV("a", VNum(10, -1, "frac"))>>),
                 VArr(<<>>), VArr(<<VInt(1)>>), VArr(<<VStr(ab_)>>), VArr(<<VStr(a_)>>), VArr(<<VInt(1), VNum(10, -1, "frac")>>), VArr(<<VInt(1), VInt(1)>>),
                 VStr(ab_), VStr(a_), VInt(5), VInt(1), VNum(50, -1, "frac"), VNum(15, -1, "frac"), VBool(TRUE), VBig("x1e400") }

Requests ==
  { [tr |-> t, syn |-> "empty", v |-> VNull, trail |-> ""] : t \in {"none", "cl0", "chunked"} }
  \cup { [tr |-> t, syn |-> s, v |-> VNull, trail |-> ""] : t \in {"len", "chunked"}, s \in {"ws", "bad", "trunc"} }
  \cup { [tr |-> t, syn |-> "ok", v |-> v, trail |-> x] : t \in {"len", "chunked"}, v \in LogicValues, x \in {"", "ws", "garbage", "second"} }

\* ---- hand-computed verdicts (math mode unless stated) ----
T(S, v, ok) == [s |-> S, v |-> v, ok |-> ok]
Table == <<
  T(Str1, VStr(a_), FALSE), T(Str1, VStr(ab_), TRUE), T(Str1, VInt(1), FALSE), T(Str1, VNull, FALSE),
  T(Str1, VStr(<<233, 233>>), TRUE), T(Str2, VStr(<<128512>>), TRUE), T(Str2, VStr(ab_), FALSE),
  T(Str3, VStr(ab_), TRUE), T(Str3, VStr(<<98, 97>>), FALSE), T(Str6, VStr(<<97, 98>>), TRUE), T(Str6, VStr(<<97, 98, 98>>), FALSE),
  T(Str4, VStr(c_), TRUE), T(Str4, VStr(a_), FALSE), T(Str5, VStr(date_), TRUE), T(Str5, VStr(baddate_), FALSE), T(Str5, VStr(a_), FALSE),
  T(Int1, VInt(3), TRUE), T(Int1, VNum(30, -1, "frac"), FALSE), T(Int1, VNum(3, 0, "exp"), FALSE), T(Int1, VNum(15, -1, "frac"), FALSE),
  T(Int1, VStr(d5_), FALSE), T(Int1, VBig("i63ovf"), TRUE), T(Int1, VBig("x1e30"), FALSE), T(Int1, VBool(TRUE), FALSE),
  T(Int2, VInt(2), TRUE), T(Int2, VInt(1), FALSE), T(Int2, VBig("i63und"), FALSE), T(Int3, VInt(5), FALSE), T(Int3, VInt(-4), TRUE),
  T(Int3, VBig("i63max"), FALSE), T(Int4, VInt(6), TRUE), T(Int4, VInt(3), FALSE), T(Int4, VInt(0), TRUE), T(Int4, VInt(-4), TRUE),
  T(Int5, VInt(2), TRUE), T(Int5, VInt(3), FALSE),
  T(Num1, VNum(15, -1, "frac"), FALSE), T(Num1, VInt(2), TRUE), T(Num1, VNum(2, 0, "exp"), TRUE), T(Num2, VNum(20, -1, "frac"), TRUE),
  T(Num2, VInt(3), FALSE), T(Num2, VBig("x1e400"), FALSE), T(Num2, VBig("xm1e400"), TRUE), T(Num3, VNum(15, -1, "frac"), TRUE),
  T(Num3, VNum(125, -2, "frac"), FALSE), T(Num4, VNum(20, -1, "frac"), TRUE), T(Num4, VNum(150, -2, "frac"), TRUE), T(Num4, VInt(1), FALSE),
  T(Bool, VBool(FALSE), TRUE), T(Bool, VInt(0), FALSE), T(AnyS, VNull, TRUE), T(AnyS, VInt(1), TRUE), T(AnyS, VArr(<<VNull>>), TRUE),
  T([ty |-> "array", items |-> Int1, uniq |-> TRUE], VArr(<<VInt(1), VInt(2)>>), TRUE),
  T([ty |-> "array", items |-> Num2, uniq |-> TRUE], VArr(<<VInt(1), VNum(10, -1, "frac")>>), FALSE),          \* 1 and 1.0 are equal
  T([ty |-> "array", items |-> Num2, uniq |-> TRUE], VArr(<<VInt(1), VNum(1, 0, "exp")>>), FALSE),
  T([ty |-> "array", uniq |-> TRUE], VArr(<<VInt(1), VStr(<<49>>)>>), TRUE),
  T([ty |-> "array", uniq |-> TRUE], VArr(<<VObj(<<KV("a", VInt(1)), KV("b", VInt(2))>>), VObj(<<KV("b", VInt(2)), KV("a", VInt(1))>>)>>), FALSE),
  T([ty |-> "array", items |-> Int1, minI |-> 1], VArr(<<>>), FALSE), T([ty |-> "array", items |-> Int1, maxI |-> 1], VArr(<<VInt(1), VInt(1)>>), FALSE),
  T([ty |-> "array", items |-> Int1], VArr(<<VInt(1), VStr(a_)>>), FALSE), T([ty |-> "array", items |-> Int1], VObj(<<>>), FALSE),
  T([ty |-> "array", items |-> Int1], VNull, FALSE),
  T(LObjReq, VObj(<<>>), FALSE), T(LObjReq, VObj(<<KV("a", VInt(1))>>), TRUE), T(LObjReq, VObj(<<KV("a", VStr(a_))>>), FALSE),
  T(LObjReq, VObj(<<KV("a", VStr(a_)), KV("a", VInt(1))>>), TRUE), T(LObjReq, VObj(<<KV("a", VInt(1)), KV("a", VStr(a_))>>), FALSE),
  T(LObjReq, VObj(<<KV("a", VInt(1)), KV("zz", VNull)>>), TRUE), T(LObjReq, VNull, FALSE), T(LObjReq, VArr(<<>>), FALSE),
  T([ty |-> "object", req |-> <<"a">>], VObj(<<KV("a", VNull)>>), TRUE),
  T([ty |-> "object", props |-> <<[name |-> "a", sch |-> Int1]>>, addl |-> "false"], VObj(<<KV("b", VInt(1))>>), FALSE),
  T([ty |-> "object", props |-> <<[name |-> "a", sch |-> Int1]>>, addl |-> "false"], VObj(<<KV("a", VInt(1))>>), TRUE),
  T([ty |-> "object", props |-> <<[name |-> "a", sch |-> Int1]>>, addl |-> "schema", addlSch |-> Str1], VObj(<<KV("b", VStr(ab_))>>), TRUE),
  T([ty |-> "object", props |-> <<[name |-> "a", sch |-> Int1]>>, addl |-> "schema", addlSch |-> Str1], VObj(<<KV("b", VInt(1))>>), FALSE),
  T([ty |-> "object", props |-> <<[name |-> "a", sch |-> Int1]>>, addl |-> "schema", addlSch |-> Str1], VObj(<<KV("a", VInt(1))>>), TRUE),
  T([ty |-> "object", minP |-> 1], VObj(<<>>), FALSE), T([ty |-> "object", maxP |-> 1], VObj(<<KV("a", VInt(1)), KV("a", VInt(2))>>), TRUE),
  T(LObjNoT, VInt(5), TRUE), T(LObjNoT, VObj(<<KV("a", VStr(a_))>>), FALSE), T(LObjNoT, VNull, TRUE),
  T([ty |-> "object", props |-> <<[name |-> "c", sch |-> LObjReq]>>], VObj(<<KV("c", VObj(<<>>))>>), FALSE),
  T([ty |-> "object", props |-> <<[name |-> "c", sch |-> LObjReq]>>], VObj(<<KV("c", VObj(<<KV("a", VInt(0))>>))>>), TRUE)
>>
TableGo == << T(Int1, VBig("i63ovf"), FALSE), T(Int1, VBig("i63max"), TRUE), T(Num2, VBig("xm1e400"), FALSE), T(AnyS, VBig("x1e400"), TRUE),
              T([ty |-> "number"], VBig("x1e400"), FALSE), T([ty |-> "number"], VBig("i1e30"), TRUE), T(Int1, VBig("i1e30"), FALSE) >>

ASSUME TableHolds   == \A i \in DOMAIN Table : Valid(Table[i].s, Table[i].v, "math") = Table[i].ok
ASSUME TableGoHolds == \A i \in DOMAIN TableGo : Valid(TableGo[i].s, TableGo[i].v, "go") = TableGo[i].ok
\* the reported paths of a few hand-checked cases
ASSUME PathsHold ==
  /\ Violations(LObjReq, VObj(<<>>), <<"b">>, "go") = {<<"b", "a">>}
  /\ Violations(LObjReq, VObj(<<KV("a", VStr(a_))>>), <<"b">>, "go") = {<<"b", "a">>}
  /\ Violations([ty |-> "array", items |-> LObjReq], VArr(<<VObj(<<KV("a", VInt(1))>>), VObj(<<>>)>>), <<"b">>, "go") = {<<"b", "1", "a">>}
  /\ Violations(LArr1, VArr(<<>>), <<"b">>, "go") = {<<"b">>}
  /\ Violations([ty |-> "object", props |-> <<[name |-> "a", sch |-> Int1]>>, addl |-> "false"], VObj(<<KV("z", VInt(1)), KV("a", VNull)>>), <<>>, "go")
       = {<<"z">>, <<"a">>}

\* ---- behaviour ----
Init == st = [kind |-> "start"]

ChooseDecl   == st.kind = "start" /\ \E p \in Decls : st' = [kind |-> "decl", p |-> p]
ChooseReq    == st.kind = "decl" /\ \E rq \in Requests : st' = [kind |-> "logic", p |-> st.p, rq |-> rq]
ChooseSchema == st.kind = "start" /\ \E S \in OracleSchemas : st' = [kind |-> "schema", S |-> S]
ChooseValue  == st.kind = "schema" /\ \E v \in OracleValues : st' = [kind |-> "oracle", S |-> st.S, v |-> v]

Next == ChooseDecl \/ ChooseReq \/ ChooseSchema \/ ChooseValue
Spec == Init /\ [][Next]_vars

\* ---- invariants ----
PropertyHolds == st.kind = "logic" => Allowed(st.p, st.rq, Outcome(st.p, st.rq))

OracleAgrees ==
  st.kind = "oracle" =>
    /\ Valid(st.S, st.v, "math") <=> (Violations(st.S, st.v, <<>>, "math") = {})
    /\ Valid(st.S, st.v, "go")   <=> (Violations(st.S, st.v, <<>>, "go") = {})
    /\ Valid(st.S, st.v, "go")   =>  Valid(st.S, st.v, "math")                 \* the go mode only refuses more
    /\ Valid(st.S, st.v, "math") <=> Valid(st.S, Decoded(st.v), "math")        \* validity is a property of the decoded value

\* non-vacuity of the generated family: both verdicts occur for composite schemas (checked by the *_cover cfg: must be violated)
NeverValidNested   == ~(st.kind = "oracle" /\ st.S \in Nested /\ Valid(st.S, st.v, "math"))
NeverInvalidNested == ~(st.kind = "oracle" /\ st.S \in Nested /\ st.v.k \in {"arr", "obj"} /\ ~Valid(st.S, st.v, "math"))
=============================================================================
