SPECIFICATION Spec
CONSTANTS
  Mutant = "none"
  MaxLen = 5
INVARIANTS ValidateIsCurrent
CHECK_DEADLOCK FALSE
