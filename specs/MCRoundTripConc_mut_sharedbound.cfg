SPECIFICATION Spec
CONSTANTS
  Mutant = "sharedbound"
  NReq = 3
INVARIANT EachGetsItsOwn
CHECK_DEADLOCK FALSE
