SPECIFICATION Spec
CONSTANTS
  RestoresOp = TRUE
  ClientStatusRule = TRUE
  CopiesOpts = TRUE
  SharedSpanVar = FALSE
  MaxCalls = 1
  Statuses = {200, 404}
  Unassigned = {}
  NCallers = 3
  ConcCtxs = {"nil", "plain", "span"}
  ConcEnds = {"params", "transport", "ok"}
  ConcStatuses = {200, 404}
INVARIANTS InvProp InvOwn InvSpans InvQuiescent InvNoRace
CHECK_DEADLOCK FALSE
