SPECIFICATION Spec
CONSTANTS
  RestoresOp = TRUE
  ClientStatusRule = TRUE
  CopiesOpts = TRUE
  SharedSpanVar = FALSE
  MaxCalls = 1
  Statuses = {200, 404}
  Unassigned = {}
  NCallers = 2
  ConcCtxs = {"nil", "plain", "span"}
  ConcEnds = {"params", "transport", "reader", "ok"}
  ConcStatuses = {200, 404}
INVARIANTS InvProp InvOwn InvSpans InvQuiescent InvNoRace
PROPERTIES AllReturn
CHECK_DEADLOCK FALSE
