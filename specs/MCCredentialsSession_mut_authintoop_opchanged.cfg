SPECIFICATION Spec
CONSTANTS
  Mutant = "authintoop"
  MaxSteps = 3
INVARIANT OperationUnchanged
CHECK_DEADLOCK FALSE
