SPECIFICATION Spec
CONSTANTS
  Mutant = "none"
  PathAtoms = {97, 98, 47, 37}
  BodyAtoms = {97, 34, 92}
  MaxLenName = 3
  MaxLenBody = 2
  MaxSteps = 3
  MaxUpload = 6
  SniffLen = 2
INVARIANTS SessionAgrees HistoryIndependent NothingRemembered UploadAgreesMC FormAgreesMC PiecesIntactMC
CHECK_DEADLOCK FALSE
