SPECIFICATION Spec
CONSTANTS
  ParamsParsed = TRUE
  LoopMutant = 0
  MaxSpecs = 3
  MaxOffers = 3
  MaxSynRanges = 2
  BigQ = FALSE
  CheckMonotone = FALSE
INVARIANTS ContentTypeProperty Monotone EncLoopIsBest ParseRoundTrip
CHECK_DEADLOCK FALSE
