------------------------------ MODULE Negotiate ------------------------------
(***************************************************************************)
(* C07 - Accept / Accept-Encoding negotiation                              *)
(*   middleware/negotiate.go      NegotiateContentType, -Encoding,         *)
(*                                normalizeOffer                           *)
(*   middleware/header/header.go  ParseAccept, expectTokenSlash, skipSpace,*)
(*                                expectQuality                            *)
(*                                                                         *)
(* Three layers, each with a FAITHFUL model (what the code does, one       *)
(* operator per function / branch) and a DECLARATIVE definition (what the  *)
(* property statement says); MCNegotiate checks faithful = declarative     *)
(* over all small inputs, TraceNegotiate checks the real code against the  *)
(* declarative side only.                                                  *)
(*   1. selection   NegotiateLoop  (double loop as a fold)  vs  BestOffer  *)
(*                  EncodingLoop                            vs  BestEncoding*)
(*   2. quality     q-values are digit sequences, compared exactly         *)
(*   3. syntax      ParseAcceptBytes (byte-level parser)    vs  SpecsOf    *)
(*                  of a structured header rendered by RenderHeader        *)
(* All text is a sequence of bytes (small integers).                       *)
(***************************************************************************)
EXTENDS Naturals, Sequences, FiniteSets, TLC

CONSTANTS
  ParamsParsed,  \* TRUE : ParseAccept walks the ';'-separated parameters of a range: q is read from the
                 \*        parameter *named* q, every other parameter (before or after q) is skipped.
                 \* FALSE: as-built - after ';' the parser scans byte-wise for the two bytes "q=" and stops
                 \*        parsing the line when anything but ',' follows the q-value (finding D21).
  LoopMutant     \* 0: the code's selection loop.  1,2,3: seeded mutants used only to show that the
                 \* MC invariants are not vacuous (1: '>=' in the exact branch, 2: q=0 case removed,
                 \* 3: wildcard ranks of a/* and */* swapped).

(***************************************************************************)
(* 2. q-values.  q = [i |-> 0..1, f |-> Seq(0..9)] denotes i + 0.f         *)
(*    (the code accepts 1.5; it denotes 1.5).                              *)
(***************************************************************************)
QOne  == [i |-> 1, f |-> <<>>]
QZero == [i |-> 0, f |-> <<>>]

Digit(f, k) == IF k <= Len(f) THEN f[k] ELSE 0
MaxN(a, b)  == IF a >= b THEN a ELSE b

RECURSIVE FracCmp(_, _, _)
FracCmp(a, b, k) ==   \* "lt" | "eq" | "gt": compare 0.a with 0.b from digit k on
  IF k > MaxN(Len(a), Len(b)) THEN "eq"
  ELSE IF Digit(a, k) < Digit(b, k) THEN "lt"
  ELSE IF Digit(a, k) > Digit(b, k) THEN "gt"
  ELSE FracCmp(a, b, k + 1)

QCmp(a, b) == IF a.i < b.i THEN "lt" ELSE IF a.i > b.i THEN "gt" ELSE FracCmp(a.f, b.f, 1)
QLess(a, b) == QCmp(a, b) = "lt"
QEq(a, b)   == QCmp(a, b) = "eq"
QIsZero(a)  == QEq(a, QZero)

(***************************************************************************)
(* 1. Selection.                                                           *)
(*    spec  (parsed range) = [v |-> bytes, q |-> q]                        *)
(*    offer                = [t |-> bytes, s |-> bytes, sep |-> bytes,     *)
(*                            p |-> bytes]   raw text  t "/" s sep p       *)
(*                           (sep = <<>> and p = <<>>, or sep starts ';')  *)
(***************************************************************************)
SLASH == 47
STAR  == 42
SEMI  == 59
COMMA == 44
EQUAL == 61
DOT   == 46

Raw(o)        == o.t \o <<SLASH>> \o o.s \o o.sep \o o.p
NormOffer(o)  == o.t \o <<SLASH>> \o o.s          \* normalizeOffer: text before the first ';'

HasSuffix(v, x) == Len(v) >= Len(x) /\ SubSeq(v, Len(v) - Len(x) + 1, Len(v)) = x
HasPrefix(v, x) == Len(v) >= Len(x) /\ SubSeq(v, 1, Len(x)) = x

\* wildcard rank of a range value, as the switch in NegotiateContentType sees it
Wild(v) == IF v = <<STAR, SLASH, STAR>> THEN 2
           ELSE IF HasSuffix(v, <<SLASH, STAR>>) THEN 1 ELSE 0

\* does range value v admit the (normalised) offer text n
Matches(v, n) ==
  CASE Wild(v) = 2 -> TRUE
    [] Wild(v) = 1 -> HasPrefix(n, SubSeq(v, 1, Len(v) - 1))
    [] OTHER       -> v = n

(* ---- faithful: the double loop of NegotiateContentType as a fold ------- *)
(* accumulator: q = <<>> (bestQ = -1) or <<q>>; wild = bestWild; best = 0   *)
(* (defaultOffer) or the index of the offer held in bestOffer.              *)
Acc0 == [q |-> <<>>, wild |-> 3, best |-> 0]

RankOf(v) == IF LoopMutant = 3 /\ Wild(v) # 0 THEN 3 - Wild(v) ELSE Wild(v)

CTStep(acc, sp, n, i) ==
  LET gt   == acc.q = <<>> \/ QLess(acc.q[1], sp.q)       \* spec.Q > bestQ
      ge   == gt \/ QEq(acc.q[1], sp.q)
      take(w) == [q |-> <<sp.q>>, wild |-> w, best |-> i]
  IN
  IF QIsZero(sp.q) /\ LoopMutant # 2 THEN acc                  \* case spec.Q == 0.0: ignore
  ELSE IF acc.q # <<>> /\ QLess(sp.q, acc.q[1]) THEN acc       \* case spec.Q < bestQ
  ELSE IF sp.v = <<STAR, SLASH, STAR>>                         \* case "*/*"
       THEN IF gt \/ acc.wild > RankOf(sp.v) THEN take(RankOf(sp.v)) ELSE acc
  ELSE IF HasSuffix(sp.v, <<SLASH, STAR>>)                     \* case "type/*"
       THEN IF HasPrefix(n, SubSeq(sp.v, 1, Len(sp.v) - 1)) /\ (gt \/ acc.wild > RankOf(sp.v)) THEN take(RankOf(sp.v)) ELSE acc
  ELSE IF sp.v = n /\ ((IF LoopMutant = 1 THEN ge ELSE gt) \/ acc.wild > 0) THEN take(0) ELSE acc   \* default

RECURSIVE CTLoop(_, _, _, _, _)
CTLoop(specs, offers, i, j, acc) ==
  IF i > Len(offers) THEN acc
  ELSE IF j > Len(specs) THEN CTLoop(specs, offers, i + 1, 1, acc)
  ELSE CTLoop(specs, offers, i, j + 1, CTStep(acc, specs[j], NormOffer(offers[i]), i))

\* result: 0 = defaultOffer, i = offers[i]
NegotiateLoop(specs, offers) ==
  IF offers = <<>> THEN 0
  ELSE IF specs = <<>> THEN 1                  \* "No Accept header: just return the first offer"
  ELSE CTLoop(specs, offers, 1, 1, Acc0).best

(* ---- declarative: the statement ---------------------------------------- *)
(* candidates: (offer i, range j) with range j admitting offer i and q_j > 0 *)
Cands(specs, offers) ==
  { c \in (DOMAIN offers) \X (DOMAIN specs) :
       Matches(specs[c[2]].v, NormOffer(offers[c[1]])) /\ ~QIsZero(specs[c[2]].q) }

Specificity(v) == 2 - Wild(v)

\* strict lexicographic order on (q, specificity, earlier offer)
Better(specs, c, d) ==
  LET qc == specs[c[2]].q  qd == specs[d[2]].q
      sc == Specificity(specs[c[2]].v)  sd == Specificity(specs[d[2]].v)
  IN \/ QLess(qd, qc)
     \/ QEq(qd, qc) /\ sc > sd
     \/ QEq(qd, qc) /\ sc = sd /\ c[1] < d[1]

BestOffer(specs, offers) ==
  IF offers = <<>> THEN 0
  ELSE IF specs = <<>> THEN 1                  \* "a missing Accept header selects the first offer"
  ELSE LET C == Cands(specs, offers) IN
       IF C = {} THEN 0                        \* "the stated default when nothing matches"
       ELSE (CHOOSE c \in C : \A d \in C : ~Better(specs, d, c))[1]

\* the text NegotiateContentType must return
ResultText(k, offers, default) == IF k = 0 THEN default ELSE Raw(offers[k])

(* further formulas of the statement, as consequences to be checked on the loop *)
ZeroNeverSelects(specs, offers, k) ==
  (specs # <<>> /\ k # 0) =>
     \E j \in DOMAIN specs : Matches(specs[j].v, NormOffer(offers[k])) /\ ~QIsZero(specs[j].q)

\* the chosen offer is admitted by a range whose q no admitting, positive range of any offer exceeds
NoSmallerOutranks(specs, offers, k) ==
  (specs # <<>> /\ k # 0) =>
     LET C == Cands(specs, offers) IN
     \E j \in DOMAIN specs :
        /\ Matches(specs[j].v, NormOffer(offers[k]))
        /\ \A d \in C : ~QLess(specs[j].q, specs[d[2]].q)

\* raising the q of one range that admits the chosen offer keeps that offer chosen or replaces it by one admitted
\* by the same range (monotonicity in q)
Raise(specs, j, q) == [specs EXCEPT ![j].q = q]

(* ---- NegotiateContentEncoding ------------------------------------------ *)
(* result [k |-> "identity"] | [k |-> "none"] ("" is returned) | [k |-> "offer", i |-> index]     *)
(* offers are plain byte strings here.                                                        *)
(* Named deviations (statement silent): EncodingNoSpecificity - "*" and an exact coding rank   *)
(* equal; IdentityFallback - "identity" is returned when no range admits any offer, whether    *)
(* or not it was offered; BestZeroIsNone - "" when the best admitting q is 0.                  *)
EncMatches(v, o) == v = <<STAR>> \/ v = o

RECURSIVE EncLoop(_, _, _, _, _)
EncLoop(specs, offers, i, j, acc) ==
  IF i > Len(offers) THEN acc
  ELSE IF j > Len(specs) THEN EncLoop(specs, offers, i + 1, 1, acc)
  ELSE LET sp == specs[j] IN
       EncLoop(specs, offers, i, j + 1,
               IF (acc.q = <<>> \/ QLess(acc.q[1], sp.q)) /\ EncMatches(sp.v, offers[i])
               THEN [q |-> <<sp.q>>, best |-> i] ELSE acc)

EncRes(kind, i) == [k |-> kind, i |-> i]

EncodingLoop(specs, offers) ==
  LET a == EncLoop(specs, offers, 1, 1, [q |-> <<>>, best |-> 0]) IN
  IF a.q # <<>> /\ QIsZero(a.q[1]) THEN EncRes("none", 0)
  ELSE IF a.best = 0 THEN EncRes("identity", 0) ELSE EncRes("offer", a.best)

BestEncoding(specs, offers) ==
  LET M == { c \in (DOMAIN offers) \X (DOMAIN specs) : EncMatches(specs[c[2]].v, offers[c[1]]) } IN
  IF M = {} THEN EncRes("identity", 0)
  ELSE LET top == CHOOSE c \in M : \A d \in M : ~QLess(specs[c[2]].q, specs[d[2]].q)
           qmax == specs[top[2]].q
       IN IF QIsZero(qmax) THEN EncRes("none", 0)
          ELSE EncRes("offer", CHOOSE i \in DOMAIN offers :
                                  /\ \E j \in DOMAIN specs : <<i, j>> \in M /\ QEq(specs[j].q, qmax)
                                  /\ \A i2 \in 1..(i - 1) : ~\E j \in DOMAIN specs : <<i2, j>> \in M /\ QEq(specs[j].q, qmax))

EncResultText(r, offers) ==
  CASE r.k = "identity" -> <<105, 100, 101, 110, 116, 105, 116, 121>>
    [] r.k = "none"     -> <<>>
    [] OTHER            -> offers[r.i]

(***************************************************************************)
(* 3. Syntax.                                                              *)
(* Structured header: a sequence of lines, a line a sequence of ranges     *)
(* (a line without ranges - empty or white space only - contributes        *)
(* nothing)  [t, s, hasq, q, pb, pa, ...spelling]:                         *)
(*   t, s   token bytes; s = <<>> means the value is the single token t    *)
(*          (Accept-Encoding codings, the bare "*" some clients send)      *)
(*   hasq   a q parameter is present; q its value                          *)
(*   pb, pa parameters before / after q (pa = <<>> unless hasq):           *)
(*          sequences of [k |-> bytes, v |-> bytes]                        *)
(* Spelling fields are read by the renderers only.                         *)
(* Named deviations (statement silent; the model follows the code):        *)
(*   ExactBytesMatch   type names are compared byte-wise (no case folding) *)
(*   LowercaseQOnly    only the parameter name "q" (lower case) is a weight*)
(*   LaterQWins        (with ParamsParsed) a repeated q parameter replaces *)
(*                     the earlier one - never rendered by the driver      *)
(***************************************************************************)
ValueOf(r) == IF r.s = <<>> THEN r.t ELSE r.t \o <<SLASH>> \o r.s

RECURSIVE Flatten(_)
Flatten(lines) == IF lines = <<>> THEN <<>> ELSE Head(lines) \o Flatten(Tail(lines))

\* declarative reading of a structured header: every range, in order; weight 1 unless a q is given
SpecsOf(lines) ==
  LET rs == Flatten(lines) IN
  [k \in DOMAIN rs |-> [v |-> ValueOf(rs[k]), q |-> IF rs[k].hasq THEN rs[k].q ELSE QOne]]

(* ---- octet classes of header.go ---------------------------------------- *)
Separators == {32, 9, 34, 40, 41, 44, 47, 58, 59, 60, 61, 62, 63, 64, 91, 93, 92, 123, 125}
IsTokenByte(b) == b >= 33 /\ b <= 126 /\ b \notin Separators
IsSpaceByte(b) == b \in {32, 9, 13, 10}

At(s, p, b) == p <= Len(s) /\ s[p] = b

RECURSIVE SkipSpaceAt(_, _)          \* skipSpace
SkipSpaceAt(s, p) == IF p <= Len(s) /\ IsSpaceByte(s[p]) THEN SkipSpaceAt(s, p + 1) ELSE p

RECURSIVE TokenSlashEnd(_, _)        \* expectTokenSlash
TokenSlashEnd(s, p) == IF p <= Len(s) /\ (IsTokenByte(s[p]) \/ s[p] = SLASH) THEN TokenSlashEnd(s, p + 1) ELSE p

RECURSIVE DigitsEnd(_, _)
DigitsEnd(s, p) == IF p <= Len(s) /\ s[p] >= 48 /\ s[p] <= 57 THEN DigitsEnd(s, p + 1) ELSE p

HasQEq(s, p) == At(s, p, 113) /\ At(s, p + 1, EQUAL)

PRes(ok, q, p) == [ok |-> ok, q |-> q, p |-> p]

(* expectQuality, as the property wants it: the number the digits denote.  *)
(* The code accumulates the fraction in machine integers; their overflow   *)
(* for >= 19 digits is finding D6 and deliberately not modelled.           *)
ExpectQuality(s, p) ==
  IF p > Len(s) THEN PRes(FALSE, QOne, p)
  ELSE LET c  == s[p]
           ip == IF c = 48 THEN <<0, p + 1>> ELSE IF c = 49 THEN <<1, p + 1>> ELSE IF c = DOT THEN <<0, p>> ELSE <<2, p>>
       IN IF ip[1] = 2 THEN PRes(FALSE, QOne, p)
          ELSE IF ~At(s, ip[2], DOT) THEN PRes(TRUE, [i |-> ip[1], f |-> <<>>], ip[2])
          ELSE LET e == DigitsEnd(s, ip[2] + 1) IN
               PRes(TRUE, [i |-> ip[1], f |-> [k \in 1..(e - ip[2] - 1) |-> s[ip[2] + k] - 48]], e)

(* parameters of one range, as-built: scan for "q=" *)
RECURSIVE ScanQ(_, _)
ScanQ(s, p) == IF ~HasQEq(s, p) /\ p <= Len(s) /\ ~At(s, p, COMMA) THEN ScanQ(s, SkipSpaceAt(s, p + 1)) ELSE p

ParamsAsBuilt(s, p) ==
  IF At(s, p, SEMI)
  THEN LET p2 == ScanQ(s, SkipSpaceAt(s, p + 1)) IN
       IF HasQEq(s, p2) THEN ExpectQuality(s, p2 + 2) ELSE PRes(TRUE, QOne, p2)
  ELSE PRes(TRUE, QOne, p)

(* parameters of one range, repaired: one parameter per ';' *)
RECURSIVE SkipParam(_, _)
SkipParam(s, p) == IF p <= Len(s) /\ s[p] # SEMI /\ s[p] # COMMA THEN SkipParam(s, p + 1) ELSE p

RECURSIVE ParamsFixed(_, _, _)
ParamsFixed(s, p, q) ==
  IF At(s, p, SEMI)
  THEN LET p1 == SkipSpaceAt(s, p + 1)
           r  == IF HasQEq(s, p1) THEN ExpectQuality(s, p1 + 2) ELSE PRes(TRUE, q, p1)
       IN IF ~r.ok THEN r ELSE ParamsFixed(s, SkipParam(s, r.p), r.q)
  ELSE PRes(TRUE, q, p)

(* the inner for-loop of ParseAccept over one header line *)
RECURSIVE ParseElems(_, _)
ParseElems(s, p) ==
  LET e == TokenSlashEnd(s, p) IN
  IF e = p THEN <<>>                                      \* spec.Value == "": continue loop
  ELSE LET pr == IF ParamsParsed THEN ParamsFixed(s, SkipSpaceAt(s, e), QOne)
                                 ELSE ParamsAsBuilt(s, SkipSpaceAt(s, e))
       IN IF ~pr.ok THEN <<>>                             \* spec.Q < 0: continue loop
          ELSE LET p2 == SkipSpaceAt(s, pr.p) IN
               <<[v |-> SubSeq(s, p, e - 1), q |-> pr.q]>>
                 \o (IF At(s, p2, COMMA) THEN ParseElems(s, SkipSpaceAt(s, p2 + 1)) ELSE <<>>)

RECURSIVE ParseAcceptBytes(_)
ParseAcceptBytes(lines) ==
  IF lines = <<>> THEN <<>> ELSE ParseElems(Head(lines), 1) \o ParseAcceptBytes(Tail(lines))

(* ---- a renderer of structured headers (model-level; the Go driver has   *)
(* its own, richer one).  Spelling: r.ws = OWS bytes put around every ';'  *)
(* and before ','; r.lead = write the integer digit of a q below 1.        *)
RECURSIVE RenderParams(_, _)
RenderParams(ps, ws) ==
  IF ps = <<>> THEN <<>>
  ELSE ws \o <<SEMI>> \o ws \o Head(ps).k \o <<EQUAL>> \o Head(ps).v \o RenderParams(Tail(ps), ws)

RenderQ(q, lead) ==
  LET ip == IF q.i = 1 THEN <<49>> ELSE IF lead THEN <<48>> ELSE <<>> IN
  ip \o (IF q.f # <<>> \/ ip = <<>> THEN <<DOT>> \o [k \in DOMAIN q.f |-> q.f[k] + 48] ELSE <<>>)

RenderRange(r) ==
  ValueOf(r) \o RenderParams(r.pb, r.ws)
    \o (IF r.hasq THEN r.ws \o <<SEMI>> \o r.ws \o <<113, EQUAL>> \o RenderQ(r.q, r.lead) ELSE <<>>)
    \o RenderParams(r.pa, r.ws)

RECURSIVE RenderLine(_)
RenderLine(rs) ==
  IF rs = <<>> THEN <<>>                       \* a header line without ranges (an empty field value)
  ELSE IF Len(rs) = 1 THEN RenderRange(rs[1])
  ELSE RenderRange(rs[1]) \o rs[1].ws \o <<COMMA>> \o rs[1].ws \o RenderLine(Tail(rs))

RenderHeader(lines) == [k \in DOMAIN lines |-> RenderLine(lines[k])]
=============================================================================
