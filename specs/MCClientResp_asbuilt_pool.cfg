SPECIFICATION Spec
CONSTANTS
  Types = {"application/json", "text/plain", "application/xml"}
  NCallers = 2
  RecyclesWrappers = TRUE
  SharedDefaults = FALSE
  MaxOps = 4
  SharedCloser = FALSE
  OnceIsNilCheck = FALSE
INVARIANTS InvRetained
CHECK_DEADLOCK FALSE
