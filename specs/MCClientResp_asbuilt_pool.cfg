SPECIFICATION Spec
CONSTANTS
  Types = {"application/json", "text/plain", "application/xml"}
  NCallers = 2
  RecyclesWrappers = TRUE
  OnceIsNilCheck = FALSE
INVARIANTS InvRetained
CHECK_DEADLOCK FALSE
