SPECIFICATION Spec
CONSTANTS
  AbsentBodyRule = TRUE
  ScalarTargets = TRUE
  NullIsNull = FALSE
  LibraryConforms = TRUE
  Thorough = FALSE
INVARIANTS PropertyHolds
CHECK_DEADLOCK FALSE
