SPECIFICATION Spec
CONSTANTS
  GuardReserved = TRUE
  GuardNul = TRUE
  UseEscapedPath = TRUE
  MaxOps = 2
  MaxSegs = 4
  Bases = {"empty", "/api"}
  TemplateIds = {"axcy", "ax", "ab"}
  OpMethods = {"GET"}
  ReqMethods = {"get", "POST"}
  SegIds = {"a", "c", "api", "a%2Fb"}
INVARIANTS PropertyHolds
CHECK_DEADLOCK FALSE
