SPECIFICATION Spec
CONSTANTS
  OAuthEscapes = TRUE
  SpecRouteEscaped = FALSE
  MaxSegs = 3
  MaxPayload = 4
  SegIds = {"docs", "swagger.json", "api", "ui", "specs", "api.json", "..", "empty", "oauth2-callback", "docsx", "my specs", "my%20specs"}
  PayloadBytes = {97, 60, 62, 38, 34, 39, 43, 47, 92, 32}
INVARIANTS RoutingHolds EscapingHolds
CHECK_DEADLOCK FALSE
