SPECIFICATION Spec
CONSTANTS
  GuardReserved = TRUE
  UseEscapedPath = TRUE
  MaxOps = 2
  MaxSegs = 3
  Bases = {"empty", "/api", "/api/"}
  TemplateIds = {"a", "ax", "ab", "xb", "axcy", "root", "a/"}
  OpMethods = {"GET", "POST"}
  ReqMethods = {"GET", "get", "Post", "PUT"}
  SegIds = {"a", "b", "c", "api", ":", "a%2Fb", "%25", "..", "empty"}
INVARIANTS PropertyHolds
CHECK_DEADLOCK FALSE
