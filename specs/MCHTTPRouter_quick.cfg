SPECIFICATION Spec
CONSTANTS
  GuardReserved = TRUE
  GuardNul = TRUE
  UseEscapedPath = TRUE
  MaxOps = 2
  MaxSegs = 3
  Bases = {"empty", "/api", "/api/"}
  TemplateIds = {"a", "ax", "ab", "xb", "root", "a/"}
  OpMethods = {"GET", "POST"}
  ReqMethods = {"GET", "get", "Post", "PUT"}
  SegIds = {"a", "b", "api", ":", "a%2Fb"}
INVARIANTS PropertyHolds
CHECK_DEADLOCK FALSE
