SPECIFICATION Spec
CONSTANTS
  ProducerLookupNormalised = TRUE
  MaxProduces = 2
INVARIANTS PropertyHolds NegotiationSound
CHECK_DEADLOCK FALSE
