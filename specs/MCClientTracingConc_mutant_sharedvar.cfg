SPECIFICATION Spec
CONSTANTS
  RestoresOp = TRUE
  ClientStatusRule = TRUE
  CopiesOpts = TRUE
  SharedSpanVar = TRUE
  MaxCalls = 1
  Statuses = {200, 404}
  Unassigned = {}
  NCallers = 2
  ConcCtxs = {"span"}
  ConcEnds = {"ok"}
  ConcStatuses = {200}
INVARIANTS InvIsolation

CHECK_DEADLOCK FALSE
