SPECIFICATION Spec
CONSTANTS Mutant = "none"
INVARIANTS PropertyHolds NoSilentSkip UntrustedCA NeverOldTLS CertPresented
CHECK_DEADLOCK FALSE
