----------------------------- MODULE GenStreams -----------------------------
(* Script export for C17 (TG): TLC explores the PeekBody model of MCStreams   *)
(* with the history hidden from the VIEW, so every distinct model state is    *)
(* expanded once (reached by a shortest history), and EVERY transition of the *)
(* reduced state graph is written as one case                                  *)
(*   {sc, declared, bodyNil, hist}   (history = the shortest history of the   *)
(*   source state + the action taken)                                         *)
(* = all-transitions coverage of the bounded model, replayed on the real      *)
(* code by driver c17.  One JSON document per line, each wrapped as a JSON    *)
(* string (CSVWrite appends; ndJsonSerialize can only write whole files).     *)
EXTENDS MCStreams, Json, IOUtils, CSV

VARIABLE hist
gvars == <<s, act, started, why, hist>>

GInit == Init /\ hist = <<>>

GNext ==
  \/ Choose /\ hist' = <<>>
  \/ /\ Act
     /\ hist' = Append(hist, act')
     /\ CSVWrite("%1$s", <<ToJson([sc |-> s.sc, declared |-> s.declared, bodyNil |-> s.bodyNil, hist |-> hist'])>>,
                 IOEnv.OUT_FILE)

GSpec == GInit /\ [][GNext]_gvars

GView == <<s, started>>
GBound == Len(hist) < MaxHist
=============================================================================
