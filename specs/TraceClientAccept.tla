------------------------- MODULE TraceClientAccept -------------------------
(* Trace validation of the real client against ClientAccept.                *)
(* case  : a history of operations built on ONE Runtime                     *)
(*         {steps: [{produces, pset, aset, defauth}]}                       *)
(* event : accept {step, obs: the distinct lists of Accept values seen over *)
(*         the entry points (CreateHttpRequest, Submit, WithOpenTelemetry,  *)
(*         WithOpenTracing)}; exactly one list, equal to the expected one    *)
EXTENDS ClientAccept, Json, IOUtils

VARIABLES l, st, skipping, fails, cs

AInit(e) == [steps |-> e.steps]
In(s, k) == [produces |-> s.steps[k].produces, pset |-> s.steps[k].pset, aset |-> s.steps[k].aset]

AAllowed(s, e) ==
  CASE e.ev = "accept" -> /\ ~e.err
                          /\ Len(e.obs) = 1
                          /\ AcceptOK(In(s, e.step), e.obs[1])
    [] OTHER -> FALSE

AWhy(s, e) ==
  CASE e.ev = "accept" -> IF e.err THEN "error"
                          ELSE IF Len(e.obs) # 1 THEN "entry-points-disagree"
                          ELSE WhyAccept(In(s, e.step), e.obs[1])
    [] OTHER -> "unknown-event"

AStep(s, e) == s

TheTrace == ndJsonDeserialize(IOEnv.TRACE_FILE)
TC == INSTANCE TraceCommon WITH TInit <- AInit, TAllowed <- AAllowed, TStep <- AStep,
                                TWhy <- AWhy, TStateful <- FALSE, Trace <- TheTrace
Spec == TC!Spec
=============================================================================
