SPECIFICATION Spec
CONSTANTS
  Mutant = "multipass"
INVARIANT SubstAgreesMC
CHECK_DEADLOCK FALSE
