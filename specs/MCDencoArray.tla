---------------------------- MODULE MCDencoArray ----------------------------
(* The array-level model of denco (DencoArray: build + lookup over the BASE/CHECK slots) returns, for every small  *)
(* table and every path, exactly what the trie-level model of Router.tla returns: the layout refines the trie.     *)
(* With GuardNul = FALSE (as built before D55) it does not: TLC finds the NUL byte that walks an unused slot.      *)
EXTENDS MCRouter, DencoArray

NameSeqBytes(names) == [k \in DOMAIN names |-> NameBytes(names[k])]

LayoutRefinesTrie ==
  LET a == ArrCodeLookup(records, path)
      t == CodeLookup(records, path)
  IN /\ a.found = t.found
     /\ a.panic = FALSE
     /\ a.found => /\ a.value = t.value
                   /\ a.texts = t.texts
                   /\ a.names = NameSeqBytes(t.names)

\* the array-level lookup satisfies the declarative property directly
ArrPropertyHolds ==
  LET a == ArrCodeLookup(records, path) IN
  LookupAllowed(records, path, [found |-> a.found, value |-> a.value, texts |-> a.texts, panic |-> a.panic,
                                names |-> IF a.found /\ ~a.panic THEN Names(records[CHOOSE i \in DOMAIN records : records[i].value = a.value].pat) ELSE <<>>])

\* every node's BASE is given out once (usedBase) and no slot is written twice
NoSlotWrittenTwice ==
  ParamRecs(records) # {} =>
    LET da == BuiltArray(records) IN
    \A i \in 0..(Len(da.bc) - 1) : At(da, i).check # 0 => At(da, i).check \in 1..255
=============================================================================
