--------------------------- MODULE TraceBodyBind ---------------------------
(* Trace validation of the real untyped API (body parameter) against BodyBind!Allowed.             *)
(* case  : reset {kind "bind", decl, reqs}                                                         *)
(* events: bind {i, ran, status, set, got, consumes, errs:[{code, path}], panic, msg} - request i   *)
(*         served through middleware.NewContext(doc, api, nil).RoutesHandler(nil); got = what the  *)
(*         recording handler found under the parameter's name, consumes = calls of the consumer    *)
(*         build {ok, msg} - the declaration could not be served at all                            *)
EXTENDS BodyBind, Json, IOUtils

VARIABLES l, st, skipping, fails, cs

BInit(e) == e

\* every number of a decoded body reaches the handler as json.Number (its literal), never as a float
RECURSIVE AllLiterals(_)
AllLiterals(o) ==
  CASE o.k = "num" -> o.dyn = "json.Number"
    [] o.k = "arr" -> \A i \in DOMAIN o.items : AllLiterals(o.items[i])
    [] o.k = "obj" -> \A i \in DOMAIN o.mem : AllLiterals(o.mem[i].val)
    [] OTHER -> TRUE

FromBody(rq, e) == e.ran /\ e.set /\ Bytes(rq) /\ rq.syn = "ok"

BAllowed(s, e) ==
  CASE e.ev = "bind" -> LET rq == s.reqs[e.i] IN
                        /\ Allowed(s.decl, rq, e)
                        /\ FromBody(rq, e) => AllLiterals(e.got)
    [] OTHER -> FALSE

BWhy(s, e) ==
  IF e.ev = "build" THEN "declaration-cannot-be-served"
  ELSE IF e.ev # "bind" THEN "unknown-event"
  ELSE LET rq == s.reqs[e.i] IN
       IF ~Allowed(s.decl, rq, e) THEN Why(s.decl, rq, e) ELSE "number-not-delivered-as-its-literal"

BStep(s, e) == s

TheTrace == ndJsonDeserialize(IOEnv.TRACE_FILE)
TC == INSTANCE TraceCommon WITH TInit <- BInit, TAllowed <- BAllowed, TStep <- BStep,
                                TWhy <- BWhy, TStateful <- FALSE, Trace <- TheTrace
Spec == TC!Spec
=============================================================================
