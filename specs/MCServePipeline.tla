-------------------------- MODULE MCServePipeline --------------------------
(* All interleavings of up to MaxReqs concurrent requests, stage by stage.  *)
EXTENDS ServePipeline

CONSTANTS MaxReqs, Media, Users

VARIABLES s, phase
vars == <<s, phase>>

ReqChoices(k) ==
  { [op |-> op, id |-> "i" \o ToString(k), body |-> "b" \o ToString(k), ctype |-> ct, accept |-> ac, cs |-> c, cu |-> u] :
      op \in Ops, ct \in Media, ac \in Media, c \in {"key", "tok", NoneStr}, u \in Users }

WellFormed(q) == /\ (Secured(q.op) => Admits(q.op, q.cs))
                 /\ (~Secured(q.op) => q.cs = NoneStr /\ q.cu = CHOOSE u \in Users : TRUE)
                 /\ (~HasBody(q.op) => q.ctype = CHOOSE m \in Media : TRUE)

Init == s = InitState(<< >>) /\ phase = "build"

AddReq == /\ phase = "build"
          /\ Len(s.in) < MaxReqs
          /\ \E q \in ReqChoices(Len(s.in) + 1) :
                WellFormed(q) /\ s' = InitState(Append(s.in, q))
          /\ UNCHANGED phase

Start == phase = "build" /\ Len(s.in) >= 1 /\ phase' = "run" /\ UNCHANGED s

Run == /\ phase = "run"
       /\ \E r \in DOMAIN s.in : ~Finished(s, r) /\ s' = StepState(s, r)
       /\ UNCHANGED phase

Next == AddReq \/ Start \/ Run
Spec == Init /\ [][Next]_vars

Private == phase = "run" => \A r \in DOMAIN s.in : Finished(s, r) \/ PrivateStep(s, r)

\* sanity: every request can run to completion and all stage kinds occur
AllDone == phase = "run" /\ \A r \in DOMAIN s.in : Finished(s, r)
NeverAllDone == ~(AllDone /\ Len(s.in) = MaxReqs)
=============================================================================
