-------------------------- MODULE MCServePipeline --------------------------
(* All interleavings of up to MaxReqs concurrent requests, stage by stage.  *)
EXTENDS ServePipeline

CONSTANTS MaxReqs, Media, Users, MaxDefects

VARIABLES s, phase, solo   \* solo[r]: what request r observes when it runs alone (computed when it is added)
vars == <<s, phase, solo>>

DefectCount(d) == IF d = "none" THEN 0 ELSE 1
ReqChoices(k) ==
  { WithDefect(Req(k, oc[1], oc[2]), d) : oc \in OpCreds, d \in {x \in DefectKinds : DefectCount(x) <= MaxDefects} }

WellFormed(q) == \E k \in 1..3, oc \in OpCreds, d \in DefectKinds :
                    DefectApplies(oc[1], d) /\ q = WithDefect(Req(k, oc[1], oc[2]), d)

Init == s = InitState(<< >>) /\ phase = "build" /\ solo = << >>

AddReq == /\ phase = "build"
          /\ Len(s.in) < MaxReqs
          /\ \E q \in ReqChoices(Len(s.in) + 1) :
                WellFormed(q) /\ s' = InitState(Append(s.in, q)) /\ solo' = Append(solo, Solo(q))
          /\ UNCHANGED phase

Start == phase = "build" /\ Len(s.in) >= 1 /\ phase' = "run" /\ UNCHANGED <<s, solo>>

Run == /\ phase = "run"
       /\ \E r \in DOMAIN s.in : ~Finished(s, r) /\ s' = StepState(s, r)
       /\ UNCHANGED <<phase, solo>>

Next == AddReq \/ Start \/ Run
Spec == Init /\ [][Next]_vars

Private == phase = "run" => \A r \in DOMAIN s.in : Finished(s, r) \/ StepObs(s, r) = solo[r][s.pc[r]]

\* sanity: every request can run to completion and all stage kinds occur
AllDone == phase = "run" /\ \A r \in DOMAIN s.in : Finished(s, r)
NeverAllDone == ~(AllDone /\ Len(s.in) = MaxReqs)
=============================================================================
