SPECIFICATION Spec
CONSTANTS
  Mutant = "none"
  MaxOps = 1
  WithUpperCaseDesc = TRUE
  WithNoContent = TRUE
  SmallSec = FALSE
INVARIANTS ValidateExact ServingConsequence
CHECK_DEADLOCK FALSE
