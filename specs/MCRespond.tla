------------------------------ MODULE MCRespond ------------------------------
(* Exhaustive check: the faithful Respond model satisfies C08 for every     *)
(* produces list, default, Accept shape, method, declared codes and outcome, *)
(* with and without the memoised format of the untyped flow.                *)
EXTENDS Respond

CONSTANTS MaxProduces

VARIABLES stage, cfg, rq, out, memo
vars == <<stage, cfg, rq, out, memo>>

E(t, s, p) == [t |-> t, s |-> s, p |-> p]
JSON   == E("application", "json", "")
Pool   == { E("a", "x", ""), E("t", "p", ""), E("t", "p", "; charset=utf-8"), JSON, E("a", "x", ";q=1") }
Defaults == { JSON, E("t", "p", "") }
R(t, s, q) == [t |-> t, s |-> s, q |-> q]
Accepts == { <<>>,
             << <<R("*", "*", 10)>> >>, << <<R("t", "*", 10)>> >>, << <<R("t", "p", 10)>> >>, << <<R("a", "x", 10)>> >>,
             << <<R("a", "x", 5), R("t", "p", 10)>> >>, << <<R("t", "p", 5), R("*", "*", 1)>> >>,
             << <<R("t", "p", 0), R("*", "*", 5)>> >>, << <<R("application", "json", 10), R("a", "*", 10)>> >>,
             << <<R("z", "z", 10)>> >> }
Methods  == {"GET", "HEAD", "POST", "DELETE"}
Declared == { <<200>>, <<201, 200>>, <<204>>, <<204, 201>>, <<0>>, <<0, 200>>, <<404, 0>> }
Outcomes == { [k |-> "value", code |-> 0, scripted |-> FALSE], [k |-> "nil", code |-> 0, scripted |-> FALSE],
              [k |-> "responder", code |-> 0, scripted |-> FALSE], [k |-> "error", code |-> 409, scripted |-> TRUE] }
Registries == { <<"a/x", "t/p", "application/json">>, <<"a/x", "application/json">>, <<"t/p", "application/json">> }

Init == /\ stage = "produces"
        /\ cfg = [produces |-> <<>>, default |-> JSON, registry |-> <<>>, declared |-> <<200>>, realm |-> "API"]
        /\ rq = [method |-> "GET", accept |-> <<>>] /\ out = [k |-> "value", code |-> 0, scripted |-> FALSE] /\ memo = <<>>

AddProduces == /\ stage = "produces" /\ Len(cfg.produces) < MaxProduces
               /\ \E e \in Pool : /\ \A i \in DOMAIN cfg.produces : cfg.produces[i] # e       \* produces is a set
                                  /\ cfg' = [cfg EXCEPT !.produces = Append(@, e)]
               /\ UNCHANGED <<stage, rq, out, memo>>
\* AddRoute appends the default when it is not (case-insensitively, as spelled) in the list
ChooseRest == /\ stage = "produces" /\ stage' = "request"
              /\ \E d \in Defaults, rg \in Registries, dc \in Declared :
                    /\ Id(d) \in Range(rg)                                   \* the default producer exists
                    /\ cfg' = [cfg EXCEPT !.default = d, !.registry = rg, !.declared = dc,
                                       !.produces = IF \E i \in DOMAIN @ : @[i] = d THEN @ ELSE Append(@, d)]
              /\ UNCHANGED <<rq, out, memo>>
ChooseRequest == /\ stage = "request" /\ stage' = "done"
                 /\ \E m \in Methods, a \in Accepts, o \in Outcomes, untyped \in BOOLEAN :
                       /\ rq' = [method |-> m, accept |-> a] /\ out' = o
                       /\ memo' = IF untyped THEN MemoUntyped(cfg, [method |-> m, accept |-> a]) ELSE <<>>
                 /\ UNCHANGED cfg
Next == AddProduces \/ ChooseRest \/ ChooseRequest
Spec == Init /\ [][Next]_vars

AtEnd == stage = "done"
Obs   == RespondModel(cfg, rq, out, memo)
\* the flows that reach Respond with a result have passed the 406 gate: something is negotiable
Reaches == out.k = "error" \/ Negotiated(cfg, rq) # {}

PropertyHolds ==
  (AtEnd /\ Reaches) =>
     CASE out.k \in {"value", "nil"} -> AllowedValue(cfg, rq, out, Obs)
       [] out.k = "responder"        -> AllowedResponder(cfg, rq, Obs)
       [] out.k = "error"            -> AllowedError(cfg, rq, out, Obs)
\* the transcription of the double loop picks one of the declaratively best offers
NegotiationSound ==
  AtEnd => LET f == Format(cfg, rq, memo) IN
           IF Negotiated(cfg, rq) = {} THEN f = NoFormat ELSE f \in Negotiated(cfg, rq)

\* non-vacuity witnesses (each must be violated)
NeverParamFormat == ~(AtEnd /\ Reaches /\ out.k = "value" /\ Obs.ctype = "t/p; charset=utf-8" /\ Obs.produced # <<>>)
NeverNoBody      == ~(AtEnd /\ Reaches /\ out.k = "value" /\ Obs.status = 204)
NeverFallback    == ~(AtEnd /\ Reaches /\ out.k = "responder" /\ Obs.given = <<"application/json">> /\ Obs.ctype = "t/p")
=============================================================================
