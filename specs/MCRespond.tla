------------------------------ MODULE MCRespond ------------------------------
(* Exhaustive check: the faithful Respond model satisfies C08 for every     *)
(* produces list, default, Accept shape, method, declared codes and outcome, *)
(* with and without an API default producer.                                *)
EXTENDS Respond

CONSTANTS MaxProduces

VARIABLES stage, cfg, rq, out
vars == <<stage, cfg, rq, out>>

E(t, s, p) == [t |-> t, s |-> s, p |-> p]
JSON   == E("application", "json", "")
Pool   == { E("a", "x", ""), E("t", "p", ""), E("t", "p", "; charset=utf-8"), JSON, E("a", "x", "; charset=utf-8; version=0.0.4") }
Defaults == { JSON, E("t", "p", ""), NoFormat }
R(t, s, q) == [t |-> t, s |-> s, q |-> q]
Accepts == { <<>>,
             << <<R("*", "*", 10)>> >>, << <<R("t", "*", 10)>> >>, << <<R("t", "p", 10)>> >>, << <<R("a", "x", 10)>> >>,
             << <<R("a", "x", 5), R("t", "p", 10)>> >>, << <<R("t", "p", 5), R("*", "*", 1)>> >>,
             << <<R("t", "p", 0), R("*", "*", 5)>> >>, << <<R("application", "json", 10), R("a", "*", 10)>> >>,
             << <<R("z", "z", 10)>> >> }
Methods  == {"GET", "HEAD", "POST", "DELETE"}
Declared == { <<200>>, <<201, 200>>, <<204>>, <<204, 201>>, <<0>>, <<0, 200>>, <<404, 0>>, <<205>>, <<206, 203>> }
Outcomes == { [k |-> "value", code |-> 0, scripted |-> FALSE], [k |-> "nil", code |-> 0, scripted |-> FALSE],
              [k |-> "responder", code |-> 0, scripted |-> FALSE], [k |-> "error", code |-> 409, scripted |-> TRUE],
              [k |-> "libresponder", code |-> 409, scripted |-> FALSE] }
Registries == { <<"a/x", "t/p", "application/json">>, <<"a/x", "application/json">>, <<"t/p", "application/json">> }

Init == /\ stage = "produces"
        /\ cfg = [produces |-> <<>>, default |-> JSON, registry |-> <<>>, declared |-> <<200>>, realm |-> "API"]
        /\ rq = [method |-> "GET", accept |-> <<>>] /\ out = [k |-> "value", code |-> 0, scripted |-> FALSE]

AddProduces == /\ stage = "produces" /\ Len(cfg.produces) < MaxProduces
               /\ \E e \in Pool : /\ \A i \in DOMAIN cfg.produces : cfg.produces[i] # e       \* produces is a set
                                  /\ cfg' = [cfg EXCEPT !.produces = Append(@, e)]
               /\ UNCHANGED <<stage, rq, out>>
\* AddRoute appends the default (if the API has one) when it is not, as spelled, in the list
ChooseRest == /\ stage = "produces" /\ stage' = "request"
              /\ \E d \in Defaults, rg \in Registries, dc \in Declared :
                    \* precondition: a producer exists for the default, or (no default) for every declared type
                    /\ IF d # NoFormat THEN Id(d) \in Range(rg)
                       ELSE \A i \in DOMAIN cfg.produces : Id(cfg.produces[i]) \in Range(rg)
                    /\ cfg' = [cfg EXCEPT !.default = d, !.registry = rg, !.declared = dc,
                                       !.produces = IF d = NoFormat \/ \E i \in DOMAIN @ : @[i] = d THEN @ ELSE Append(@, d)]
              /\ UNCHANGED <<rq, out>>
ChooseRequest == /\ stage = "request" /\ stage' = "done"
                 /\ \E m \in Methods, a \in Accepts, o \in Outcomes :
                       rq' = [method |-> m, accept |-> a] /\ out' = o
                 /\ UNCHANGED cfg
Next == AddProduces \/ ChooseRest \/ ChooseRequest
Spec == Init /\ [][Next]_vars

AtEnd == stage = "done"
Obs   == RespondModel(cfg, rq, out)
\* the flows that reach Respond with a result have passed the 406 gate: something is negotiable - or nothing is
\* offered at all (no produces, no default), where only HEAD / 204 answers need no producer
Reaches == \/ out.k = "error"
           \/ Negotiated(cfg, rq) # {}
           \/ /\ Offers(cfg) = {} /\ out.k \in {"value", "nil"}
              /\ HasSuccess(cfg) => (rq.method = "HEAD" \/ MinSuccess(cfg) = 204)

PropertyHolds ==
  (AtEnd /\ Reaches) =>
     CASE out.k \in {"value", "nil"} -> AllowedValue(cfg, rq, out, Obs)
       [] out.k = "responder"        -> AllowedResponder(cfg, rq, Obs)
       [] out.k = "libresponder"     -> AllowedLibResponder(cfg, rq, out, Obs)
       [] out.k = "error"            -> AllowedError(cfg, rq, out, Obs)
\* the transcription of the double loop picks one of the declaratively best offers
NegotiationSound ==
  AtEnd => LET f == Format(cfg, rq) IN
           IF Negotiated(cfg, rq) = {} THEN f = NoFormat ELSE f \in Negotiated(cfg, rq)

\* non-vacuity witnesses (each must be violated)
NeverParamFormat == ~(AtEnd /\ Reaches /\ out.k = "value" /\ Obs.ctype = "t/p; charset=utf-8" /\ Obs.produced # <<>>)
NeverNoBody      == ~(AtEnd /\ Reaches /\ out.k = "value" /\ Obs.status = 204)
NeverFallback    == ~(AtEnd /\ Reaches /\ out.k = "responder" /\ Obs.given = <<"application/json">> /\ Obs.ctype = "t/p")
=============================================================================
