SPECIFICATION Spec
CONSTANTS
  Mutant = "shared-scheme-buffer"
  MaxOps = 1
  WithUpperCaseDesc = TRUE
  SmallSec = FALSE
INVARIANTS ServingConsequence
CHECK_DEADLOCK FALSE
