SPECIFICATION Spec
CONSTANTS
  Mutant = "shared-scheme-buffer"
  MaxOps = 1
  WithUpperCaseDesc = TRUE
  WithNoContent = TRUE
  SmallSec = FALSE
INVARIANTS ServingConsequence
CHECK_DEADLOCK FALSE
