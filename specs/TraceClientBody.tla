-------------------------- MODULE TraceClientBody --------------------------
(* Trace validation of the client's body construction against C11.          *)
(* case  : one request, or a batch of requests overlapping in time (all     *)
(*         built before the first is sent, or submitted concurrently); the  *)
(*         property is per request, whatever else is in flight              *)
(* event : sent {err, supplied:{payload sha, files [[sha]]}, auth_saw:[sha], *)
(*         producers, body_len, body_sha, ct, ctmedia, boundary, kind,       *)
(*         raw (urlencoded body bytes), pairs, parts, payload}               *)
(* The urlencoded form is decoded by the spec itself (ClientURL's decoder). *)
EXTENDS ClientBody, Json, IOUtils

VARIABLES l, st, skipping, fails, cs

U == INSTANCE ClientURL WITH Variant <- "fixed"

Req(r) == [media |-> r.media, method |-> r.method, presetct |-> r.presetct, payload |-> r.payload.kind,
           fields |-> r.fields, files |-> r.files, auth |-> r.auth, defauth |-> r.defauth, k |-> r.k,
           fault |-> r.payload.fail, debug |-> r.debug, pseek |-> r.payload.seekable, pskip |-> r.payload.skip]
BInit(e) == [reqs |-> [i \in 1..Len(e.reqs) |-> Req(e.reqs[i])]]

Ids(e) == [payload |-> e.supplied.payload, ref |-> e.supplied.ref, files |-> e.supplied.files]

RawOK(e) == e.kind = "multipart" \/ U!RawQueryValid(e.raw)
Pairs(e) == IF e.kind = "multipart" THEN e.pairs ELSE U!DecodedPairs(e.raw)

Obs(e) == [err |-> e.err, ctmedia |-> e.ctmedia, boundary |-> e.boundary, kind |-> e.kind,
           pairs |-> Pairs(e), parts |-> e.parts, payload |-> e.payload, producers |-> e.producers]

BAllowed(s, e) ==
  CASE e.ev = "sent" -> \/ MayFail(s.reqs[e.req]) /\ e.err /\ ~e.panic     \* a failing payload reader may fail the call ...
                        \/ /\ ~e.err                                        \* ... a call that succeeds satisfies C11 in full
                           /\ RawOK(e)
                           /\ BodyOK(s.reqs[e.req], Ids(e), Obs(e))
                           /\ PlacementOK(s.reqs[e.req], e.auth_saw, e.def_saw)
                           /\ AuthOK(s.reqs[e.req], InForceSaw(s.reqs[e.req], e.auth_saw, e.def_saw), e.body_sha)
    [] OTHER -> FALSE

BWhy(s, e) ==
  CASE e.ev = "sent" -> IF e.err THEN "error"
                        ELSE IF ~RawOK(e) THEN "form-fields"
                        ELSE IF ~BodyOK(s.reqs[e.req], Ids(e), Obs(e)) THEN WhyBody(s.reqs[e.req], Ids(e), Obs(e))
                        ELSE "auth-saw-other-bytes-than-sent"
    [] OTHER -> "unknown-event"

BStep(s, e) == s

TheTrace == ndJsonDeserialize(IOEnv.TRACE_FILE)
TC == INSTANCE TraceCommon WITH TInit <- BInit, TAllowed <- BAllowed, TStep <- BStep,
                                TWhy <- BWhy, TStateful <- FALSE, Trace <- TheTrace
Spec == TC!Spec
=============================================================================
