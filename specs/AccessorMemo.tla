----------------------------- MODULE AccessorMemo -----------------------------
(***************************************************************************)
(* C09, second half: within one request a stage result is reused by every  *)
(* later asker that holds the request value the stage returned.            *)
(*                                                                         *)
(* State machine of the per-request memo cells carried by the request      *)
(* value (context keys in middleware/context.go) under any sequence of the *)
(* accessors RouteInfo / ContentType / ResponseFormat / Authorize /        *)
(* BindAndValidate / ResetAuth, the returned request value being threaded. *)
(* One operator per accessor, written after the code:                      *)
(*   route  cached when found            ctype cached unless parse error   *)
(*   format cached only when non-empty   principal cached only when non-nil*)
(*   binding outcome cached valid or not ResetAuth clears principal+scopes *)
(*   BindAndValidate threads out only the binding outcome (its inner       *)
(*   content-type / format memos are dropped)                              *)
(***************************************************************************)
EXTENDS ServePipeline

CONSTANT MemoBound   \* TRUE: the code. FALSE: binding outcome not cached (mutant, for non-vacuity)
CONSTANT SampleKinds \* TRUE: a representative subset of the request kinds (quick tier of the history export)

(* A request kind: [op, cs, cu, ctype, accept]                              *)
(*   cu    : a user | "bad" (authenticator rejects) ; cs = "-" : no credential *)
(*   ctype : "json" | "text" | "xml" (not admitted) | "bad" (unparsable) | "absent" *)
(*   accept: "json" | "text" | "none" (matches no offer)                    *)
MediaOf(c) == CASE c = "json" -> "application/json" [] c = "text" -> "text/plain"
                [] c = "xml" -> "application/xml" [] c = "absent" -> "application/octet-stream"
                [] OTHER -> ""
CtypeParses(in) == in.ctype # "bad"
Admitted(in) == in.ctype \in {"json", "text"}

Kinds ==
  { k \in [op : Ops, id : {"i1"}, body : {"b1"}, cs : {"key", "tok", NoneStr}, cu : {"u1", "u2", "bad", NoneStr},
           ctype : {"json", "text", "xml", "bad", "absent"}, accept : {"json", "text", "none"}] :
      /\ (k.op \in {"opB", "opE"} => k.cs = NoneStr /\ k.cu = NoneStr)
      /\ (k.op \notin {"opB", "opE"} => <<k.cs, k.cu>> \in {<<"key", "u1">>, <<"tok", "u2">>, <<"key", "bad">>, <<NoneStr, NoneStr>>})
      /\ (k.op = "opC" => k.ctype = "absent")
      /\ (SampleKinds => k.accept # "text" /\ k.ctype \in {"json", "xml", "bad", "absent"}) }

FormatAccessors == {"ResponseFormat", "ResponseFormatText", "ResponseFormatCharset"}
\* AuthorizeFresh: Authorize handed a MatchedRoute value the asker just obtained from the public Context.LookupRoute
\* (not the one earlier calls were given, so its Authenticator field is still unset): what is reused hangs on the
\* request value, not on the route value (seed C09-16)
AuthAccessors == {"Authorize", "AuthorizeFresh"}
\* BindAndValidateFresh: likewise BindAndValidate handed a freshly looked-up MatchedRoute value (seed C09-19)
BindAccessors == {"BindAndValidate", "BindAndValidateFresh"}
Accessors == {"RouteInfo", "ContentType", "ResetAuth"} \cup BindAccessors \cup AuthAccessors \cup FormatAccessors

\* ResponseFormatCharset offers <<"text/plain; charset=utf-8">>: an offer is matched ignoring its parameters and
\* returned (and remembered) exactly as offered
OffersOf(a) == IF a \in {"ResponseFormatText", "ResponseFormatCharset"} THEN {"text"} ELSE {"json", "text"}
Negotiated(in, offers) == IF in.accept \in offers THEN <<MediaOf(in.accept)>> ELSE << >>
NegotiatedBy(in, a) == IF a = "ResponseFormatCharset"
                       THEN (IF in.accept = "text" THEN <<"text/plain; charset=utf-8">> ELSE << >>)
                       ELSE Negotiated(in, OffersOf(a))


InitMemo == [route |-> FALSE, ct |-> << >>, fmt |-> << >>, pr |-> << >>, sc |-> << >>, bound |-> << >>,
             lookups |-> 0, authcalls |-> 0, consumes |-> 0]

(* result of one accessor call: [m (next memo), ret (string tuple), same (returned request = argument), nilreq] *)
Res(m, ret, same, nilreq) == [m |-> m, ret |-> ret, same |-> same, nilreq |-> nilreq]

BindOutcome(in, m) ==
  \* what validateRequest computes from scratch, given the memo cells of the request it is handed
  LET ctErr   == HasBody(in.op) /\ m.ct = << >> /\ ~CtypeParses(in)
      ctBad   == HasBody(in.op) /\ ~ctErr /\ ~Admitted(in)          \* 415 (+ no consumer)
      fmtv    == IF m.fmt # << >> THEN m.fmt ELSE Negotiated(in, {"json", "text"})
      fmtBad  == ~ctErr /\ ~ctBad /\ fmtv = << >>                    \* 406
      valid   == ~ctErr /\ ~ctBad /\ ~fmtBad
  IN [valid |-> valid, consumed |-> valid /\ HasBody(in.op)]

Call(in, m, a) ==
  CASE a = "RouteInfo" ->
         IF m.route THEN Res(m, (<<Pattern(in.op), IdOf(in)>> \o RouteView), TRUE, FALSE)
         ELSE Res([m EXCEPT !.route = TRUE, !.lookups = @ + 1], (<<Pattern(in.op), IdOf(in)>> \o RouteView), FALSE, FALSE)
    [] a = "ContentType" ->
         IF m.ct # << >> THEN Res(m, m.ct, TRUE, FALSE)
         ELSE IF ~CtypeParses(in) THEN Res(m, <<"err">>, FALSE, TRUE)
         ELSE Res([m EXCEPT !.ct = <<MediaOf(in.ctype)>>], <<MediaOf(in.ctype)>>, FALSE, FALSE)
    [] a \in FormatAccessors ->
         IF m.fmt # << >> THEN Res(m, m.fmt, TRUE, FALSE)
         ELSE LET f == NegotiatedBy(in, a) IN
              IF f = << >> THEN Res(m, <<"">>, TRUE, FALSE)
              ELSE Res([m EXCEPT !.fmt = f], f, FALSE, FALSE)
    [] a \in AuthAccessors ->
         IF ~Secured(in.op) THEN Res(m, <<"noauth">>, FALSE, TRUE)
         ELSE IF m.pr # << >> THEN Res(m, m.pr \o m.sc, TRUE, FALSE)
         ELSE IF AuthOK(in)
              THEN LET sc == Alts(in.op)[AdmittingAlt(in.op, in.cs)].scopes IN
                   Res([m EXCEPT !.pr = <<in.cs, in.cu>>, !.sc = sc, !.authcalls = @ + AuthCallsOf(in)],
                       <<in.cs, in.cu>> \o sc, FALSE, FALSE)
              ELSE Res([m EXCEPT !.authcalls = @ + AuthCallsOf(in)], <<"err", "401">>, FALSE, TRUE)
    [] a \in BindAccessors ->
         IF m.bound # << >> /\ MemoBound THEN Res(m, m.bound, TRUE, FALSE)
         ELSE LET o == BindOutcome(in, m)
                  ret == IF o.valid THEN <<"valid", IdOf(in), IF HasBody(in.op) THEN in.body ELSE NoneStr>> ELSE <<"invalid">>
              IN Res([m EXCEPT !.bound = ret, !.consumes = @ + (IF o.consumed THEN 1 ELSE 0)], ret, FALSE, FALSE)
    [] a = "ResetAuth" ->
         Res([m EXCEPT !.pr = << >>, !.sc = << >>], <<"reset">>, FALSE, FALSE)

(* ---- the property, as facts about one call ------------------------------ *)
(* (MCAccessorMemo checks them on every transition of every history.)        *)
MemoHit(m, a) ==
  \/ a = "RouteInfo" /\ m.route
  \/ a = "ContentType" /\ m.ct # << >>
  \/ a \in FormatAccessors /\ m.fmt # << >>
  \/ a \in AuthAccessors /\ m.pr # << >>
  \/ a \in BindAccessors /\ m.bound # << >>

ReusedNotRecomputed(in, m, a) ==
  LET r == Call(in, m, a) IN
  MemoHit(m, a) => /\ r.same                                   \* the same request value comes back
                   /\ r.m = m                                  \* nothing recomputed, no counter moves
                   /\ r.ret = (CASE a = "RouteInfo" -> (<<Pattern(in.op), IdOf(in)>> \o RouteView)
                                 [] a = "ContentType" -> m.ct
                                 [] a \in FormatAccessors -> m.fmt
                                 [] a \in AuthAccessors -> m.pr \o m.sc
                                 [] a \in BindAccessors -> m.bound)

CellsStable(in, m, a) ==
  LET n == Call(in, m, a).m IN
  /\ (m.route => n.route)
  /\ (m.ct # << >> => n.ct = m.ct)
  /\ (m.fmt # << >> => n.fmt = m.fmt)
  /\ (m.bound # << >> => n.bound = m.bound)
  /\ (m.pr # << >> /\ a # "ResetAuth" => n.pr = m.pr /\ n.sc = m.sc)

BodyAtMostOnce(m) == m.consumes <= 1
LookupAtMostOnce(m) == m.lookups <= 1
NoReauthWhileCached(in, m, a) == (m.pr # << >> /\ a # "ResetAuth") => Call(in, m, a).m.authcalls = m.authcalls
=============================================================================
