SPECIFICATION Spec
CONSTANTS
  ClosesPipeOnBuildError = TRUE
  ClosesFilesOnParamsError = TRUE
  CopyMarksEndSeen = FALSE
  CancelsBeforeClose = FALSE
  ClosesFilesOnFieldError = TRUE
  ZeroLenReadSetsEOF = FALSE
  FileLen = 2
  RespLen = 2
  Lens = {0, 1, 2, 3}
  Chunks = {1, 2, 5}
  Sizes = {0, 1, 2, 5}
  MaxReads = 6
INVARIANTS InvDrained InvPos
CHECK_DEADLOCK FALSE
