------------------------ MODULE TraceServePipeline ------------------------
(* Trace validation for C09.  Case kinds:                                   *)
(*  sched : a TLC-generated interleaving replayed through the hook gates;   *)
(*          events {ev: stage, req, v} in global order, then "end"          *)
(*  free  : free-running concurrent batch; "reqs" then each request's       *)
(*          events (a serial interleaving of independent requests), "end"   *)
(*  hist  : an accessor history on one request; events "acc"                *)
(*  race  : the race detector's report count for the whole run              *)
EXTENDS AccessorMemo, Json, IOUtils

VARIABLES l, st, skipping, fails, cs

PInit(e) ==
  CASE e.kind = "sched" -> [kind |-> "sched", s |-> InitState(e.reqs)]
    [] e.kind = "free"  -> [kind |-> "free",  s |-> InitState(<< >>)]
    [] e.kind = "hist"  -> [kind |-> "hist",  in |-> e.req, m |-> InitMemo]
    [] e.kind = "race"  -> [kind |-> "race"]

StageOK(s, e) ==
  /\ e.req \in DOMAIN s.in
  /\ ~Finished(s, e.req)
  /\ e.ev = Stage(s, e.req)
  /\ e.v = StepObs(s, e.req)

AccOK(x, e) ==
  LET r == Call(x.in, x.m, e.name) IN
  /\ e.ret = r.ret /\ e.same = r.same /\ e.nilreq = r.nilreq
  /\ e.lookups = r.m.lookups /\ e.authcalls = r.m.authcalls /\ e.consumes = r.m.consumes

PAllowed(x, e) ==
  CASE x.kind \in {"sched", "free"} ->
         IF e.ev = "reqs" THEN x.kind = "free" /\ x.s.in = << >>
         ELSE IF e.ev = "end" THEN \A r \in DOMAIN x.s.in : Finished(x.s, r)
         ELSE StageOK(x.s, e)
    [] x.kind = "hist" -> e.ev = "acc" /\ e.name \in Accessors /\ AccOK(x, e)
    [] x.kind = "race" -> e.ev = "race" /\ e.reports = 0

PStep(x, e) ==
  CASE x.kind \in {"sched", "free"} ->
         IF e.ev = "reqs" THEN [x EXCEPT !.s = InitState(e.reqs)]
         ELSE IF e.ev = "end" THEN x
         ELSE [x EXCEPT !.s = StepState(x.s, e.req)]
    [] x.kind = "hist" -> [x EXCEPT !.m = Call(x.in, x.m, e.name).m]
    [] x.kind = "race" -> x

PWhy(x, e) ==
  CASE x.kind \in {"sched", "free"} ->
         IF e.ev = "end" THEN "a request did not complete its stages"
         ELSE IF e.ev = "reqs" THEN "unexpected reqs"
         ELSE IF e.req \notin DOMAIN x.s.in \/ Finished(x.s, e.req) THEN "event after the request finished"
         ELSE IF e.ev # Stage(x.s, e.req) THEN "unexpected stage (pipeline shape differs)"
         ELSE "observation differs from what this request observes alone (not private)"
    [] x.kind = "hist" -> "accessor result / reuse differs from the memo model"
    [] x.kind = "race" -> "data race reported"

TheTrace == ndJsonDeserialize(IOEnv.TRACE_FILE)
TC == INSTANCE TraceCommon WITH TInit <- PInit, TAllowed <- PAllowed, TStep <- PStep, TWhy <- PWhy,
                                TStateful <- TRUE, Trace <- TheTrace
Spec == TC!Spec
=============================================================================
