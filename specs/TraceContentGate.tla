-------------------------- MODULE TraceContentGate --------------------------
(* Trace validation of the two real content-type gates against ContentGate. *)
(* case  : one API [consumes, default, registry] (+ how the driver declares *)
(*         it and which requests it sends)                                  *)
(* event : gate {method, body, ct, untyped: obs, typed: obs}                *)
(*         obs = [code, consumers, handler, panic]; the same request was    *)
(*         presented to the untyped handler and to Context.BindValidRequest *)
EXTENDS ContentGate, Json, IOUtils

VARIABLES l, st, skipping, fails, cs

GInit(e) == [consumes |-> e.consumes, default |-> e.default, registry |-> e.registry]

Class(code) == IF code \in 200..299 THEN "ok"
               ELSE IF code = 415 THEN "415" ELSE IF code = 400 THEN "400" ELSE IF code = 500 THEN "500" ELSE "other"
ObsOf(o) == [status |-> Class(o.code), consumers |-> o.consumers, handler |-> o.handler]
Req(e)   == [body |-> e.body, ct |-> e.ct]

GAllowed(s, e) ==
  CASE e.ev = "gate" -> /\ ~e.untyped.panic /\ ~e.typed.panic
                        /\ ObsOf(e.untyped) \in GateAllowed(s, Req(e))
                        /\ ObsOf(e.typed) \in GateAllowed(s, Req(e))
                        /\ ObsOf(e.untyped) = ObsOf(e.typed)        \* "accept or refuse the same requests and pick the same consumer"
    [] OTHER -> FALSE

GWhy(s, e) ==
  CASE e.ev = "gate" ->
         IF e.untyped.panic \/ e.typed.panic THEN "panic"
         ELSE IF ObsOf(e.untyped) \notin GateAllowed(s, Req(e)) THEN "untyped:" \o GateWhy(s, Req(e), ObsOf(e.untyped))
         ELSE IF ObsOf(e.typed) \notin GateAllowed(s, Req(e)) THEN "typed:" \o GateWhy(s, Req(e), ObsOf(e.typed))
         ELSE "entry-points-disagree"
    [] OTHER -> "unknown-event"

GStep(s, e) == s

TheTrace == ndJsonDeserialize(IOEnv.TRACE_FILE)
TC == INSTANCE TraceCommon WITH TInit <- GInit, TAllowed <- GAllowed, TStep <- GStep,
                                TWhy <- GWhy, TStateful <- FALSE, Trace <- TheTrace
Spec == TC!Spec
=============================================================================
