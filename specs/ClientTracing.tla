--------------------------- MODULE ClientTracing ---------------------------
(* G01 - client tracing transports (client/opentracing.go,                 *)
(* client/opentelemetry.go, Runtime.WithOpenTracing/WithOpenTelemetry).    *)
(*                                                                         *)
(* Part 1: a faithful state machine of one caller going through            *)
(*   tracing Submit -> inner transport (Runtime.Submit) -> params wrapper  *)
(*   (span creation, tags, inject) -> user's params writer -> auth ->      *)
(*   round trip -> consumer lookup -> reader wrapper (status tags) ->      *)
(*   user's reader -> back in tracing Submit (error tag) -> deferred       *)
(*   Finish -> return,                                                     *)
(*   with an independently enabled fault at every stage of the inner       *)
(*   transport, sequences of Submits of the same operation value (reuse),  *)
(*   and N such callers sharing one tracing transport (CStep is            *)
(*   per caller; the span store and the transport's fields are global).    *)
(* Part 2: the property, declaratively, over the observation of one call   *)
(*   (Prop) - used by MC on the model's observation and by trace           *)
(*   validation on the observation of the real transports.                 *)
EXTENDS Integers, Sequences, FiniteSets, TLC

CONSTANTS
  RestoresOp,        \* normative TRUE: the caller's operation value is as before when Submit returns.
                     \*   FALSE = as-built D50: op.Params/op.Reader stay replaced by the wrappers (they pile up on reuse)
  ClientStatusRule,  \* normative TRUE: OpenTelemetry span status is Error for every status >= 400 (httpconv.ClientStatus).
                     \*   FALSE = as-built D51: httpconv.ServerStatus leaves 4xx Unset
  CopiesOpts,        \* normative TRUE: span.kind is appended to a private copy of the start options.
                     \*   FALSE = as-built D52: append(t.opts, kind) writes into the shared backing array when it has spare capacity
  SharedSpanVar,     \* mutant only (never as-built): the span lives in a field of the transport instead of a local of Submit
  MaxCalls,          \* Submits of the same operation value per caller
  Statuses,          \* HTTP status codes the server may answer
  Unassigned         \* status codes (100..599) without IANA assignment: see UnassignedStatusIsError

Flavors    == {"ot", "otel"}
Ctxs       == {"nil", "plain", "span"}    \* op.Context: nil / a context without span / a context carrying the caller's span
EndsNoResp == {"pre", "params", "auth", "transport"}
EndsResp   == {"noconsumer", "reader", "ok"}
Ends       == EndsNoResp \cup EndsResp

\* a call script: how one Submit is going to end (the environment's choices)
CallScripts(ctxs, ends, sts) ==
  [ctx : ctxs, end : ends \cap EndsNoResp, status : {0}] \cup [ctx : ctxs, end : ends \cap EndsResp, status : sts]

---------------------------------------------------------------------------
(* Part 2 first: what the statement fixes, as functions of flavor and script *)

\* doc comments: "If the context of the client operation does not contain an active span, no span is created"
\* holds for OpenTracing; the OpenTelemetry transport starts a (root) span for any non-nil context.
Traceable(fl, ctx) == IF fl = "ot" THEN ctx = "span" ELSE ctx # "nil"

ReachedParams(sc) == sc.end # "pre"                        \* the inner transport consulted the params writer
ReadResponse(sc)  == sc.end \in {"reader", "ok"}           \* ... and the response reader
SentRequest(sc)   == sc.end \notin {"pre", "params", "auth"}
ReturnsErr(sc)    == sc.end # "ok"

\* NoSpanBeforeParams (named deviation): the span is started when the inner transport asks for the request
\* parameters; a call refused earlier (no producer for the media type) is not traced at all.
WantSpan(fl, sc) == Traceable(fl, sc.ctx) /\ ReachedParams(sc)

\* Two combinations where the statement does not say whether a span is started; both behaviours are accepted
\* (if a span is started every other clause applies to it):
\* OtelRootSpanWithoutParent (named deviation): WithOpenTelemetry's doc comment says "if the context of the client
\*   operation does not contain an active span, no span is created", the code starts a root span;
\* SpanBeforeParamsWriter (named deviation): the code starts the span before it consults the caller's params writer,
\*   so a failing writer leaves a finished, error-flagged span; starting it only once the writer succeeded is as good.
SpanOptional(fl, sc) == Traceable(fl, sc.ctx) /\ ((fl = "otel" /\ sc.ctx = "plain") \/ sc.end = "params")

\* UnassignedStatusIsError (named deviation, OpenTelemetry only): the semconv helper reports codes without IANA
\* assignment (299, 499, ...) as Error whatever their class.
AssignedCodes   == (100..103) \cup (200..208) \cup {226} \cup (300..305) \cup {307, 308} \cup (400..418) \cup (421..426)
                   \cup {428, 429, 431, 451} \cup (500..508) \cup {510, 511}
UnassignedCodes == (100..599) \ AssignedCodes          \* the value of Unassigned for unbounded use (trace validation)
StatusIsError(fl, st)  == st >= 400 \/ (fl = "otel" /\ st \in Unassigned)
ErrExpected(fl, sc)    == ReturnsErr(sc) \/ (ReadResponse(sc) /\ StatusIsError(fl, sc.status))

\* tags every span carries from its start: operation name, method, path, host, client kind, the transport's options
StartKeys == {"name", "method", "path", "host", "kind", "opt"}

\* o = [mine: set of span records started during the call, pcalls, rcalls, err, sent, out, opclean, panic]
P_NoPanic(o)        == ~o.panic
P_Start(fl, sc, o)  == IF WantSpan(fl, sc) THEN Cardinality(o.mine) = 1 \/ (SpanOptional(fl, sc) /\ o.mine = {})
                       ELSE o.mine = {}
P_Child(sc, o)      == \A s \in o.mine : s.parent = (IF sc.ctx = "span" THEN "caller" ELSE "root")
P_Finish(o)         == \A s \in o.mine : (s.fin = 1 /\ ~s.late)
P_Tags(sc, o)       == \A s \in o.mine :
                         /\ StartKeys \subseteq s.keys
                         /\ (("status" \in s.keys) <=> ReadResponse(sc))
                         /\ (ReadResponse(sc) => s.status = sc.status)
P_Error(fl, sc, o)  == \A s \in o.mine : (s.err <=> ErrExpected(fl, sc))
P_Inject(sc, o)     == /\ (o.sent <=> SentRequest(sc))
                       /\ (o.sent => o.out = { s.id : s \in o.mine })
P_User(sc, o)       == /\ o.pcalls = (IF ReachedParams(sc) THEN 1 ELSE 0)
                       /\ o.rcalls = (IF ReadResponse(sc) THEN 1 ELSE 0)
                       /\ o.err = ReturnsErr(sc)
P_Op(o)             == o.opclean

Prop(fl, sc, o) ==
  /\ P_NoPanic(o) /\ P_Start(fl, sc, o) /\ P_Child(sc, o) /\ P_Finish(o) /\ P_Tags(sc, o)
  /\ P_Error(fl, sc, o) /\ P_Inject(sc, o) /\ P_User(sc, o) /\ P_Op(o)

PropWhy(fl, sc, o) ==
  IF ~P_NoPanic(o) THEN "panic"
  ELSE IF ~P_User(sc, o) THEN "params-writer-or-reader-not-invoked-as-without-tracing"
  ELSE IF ~P_Start(fl, sc, o) THEN
       (IF Cardinality(o.mine) > 1 THEN "more-than-one-span-per-call"
        ELSE IF Cardinality(o.mine) = 1 THEN "span-started-without-context-or-parent" ELSE "no-span-started")
  ELSE IF ~P_Child(sc, o) THEN "span-is-not-a-child-of-the-callers-span"
  ELSE IF ~P_Finish(o) THEN
       (IF \E s \in o.mine : s.fin = 0 THEN "span-not-finished-at-return"
        ELSE IF \E s \in o.mine : s.fin > 1 THEN "span-finished-twice" ELSE "span-used-after-finish")
  ELSE IF ~P_Tags(sc, o) THEN
       (IF \E s \in o.mine : ~(StartKeys \subseteq s.keys) THEN "span-lacks-name-method-path-host-kind-or-option-tag"
        ELSE "status-code-tag-not-exactly-when-a-response-was-read")
  ELSE IF ~P_Error(fl, sc, o) THEN
       (IF ErrExpected(fl, sc) THEN "error-not-flagged-on-span" ELSE "error-flagged-without-error-or-status-ge-400")
  ELSE IF ~P_Inject(sc, o) THEN "trace-context-not-injected-exactly-when-a-span-was-started"
  ELSE IF ~P_Op(o) THEN "operation-left-modified" ELSE "ok"

\* projection of an observation on what the statement fixes (model and implementation must agree on it)
SpanProj(s) == [parent |-> s.parent, keys |-> s.keys \cap (StartKeys \cup {"status"}), status |-> s.status,
                err |-> s.err, fin |-> s.fin, late |-> s.late]
\* the model's projection when the optional span (SpanOptional) is not started
NoSpanProj(p) == [p EXCEPT !.spans = {}, !.n = 0]
ObsProj(o) == [spans |-> { SpanProj(s) : s \in o.mine }, n |-> Cardinality(o.mine), pcalls |-> o.pcalls, rcalls |-> o.rcalls,
               err |-> o.err, sent |-> o.sent, inj |-> (o.sent => o.out = { s.id : s \in o.mine }), opclean |-> o.opclean,
               panic |-> o.panic]

---------------------------------------------------------------------------
(* Part 1: the state machine                                              *)

NoScript == [ctx |-> "nil", end |-> "?", status |-> 0]

\* local state of a caller (its operation value, the locals of its Submit frames)
CInit == [pc |-> "idle", k |-> 0, sc |-> NoScript,
          wraps  |-> <<>>,                          \* calls whose wrappers sit on op.Params/op.Reader, innermost first
          var    |-> [j \in 1..MaxCalls |-> 0],     \* `var span` of call j's Submit frame (captured by its wrappers); 0 = nil
          i      |-> 0,                             \* wrapper being unwound
          traced |-> FALSE,                         \* this call took the tracing branch (op.Context # nil)
          pcalls |-> 0, rcalls |-> 0, err |-> FALSE,
          hdr    |-> {},                            \* span ids named by the trace headers of the request being built
          sent   |-> FALSE, out |-> {}]             \* ... as seen by the round tripper

\* state shared by all callers of one tracing transport
GInit == [spans  |-> <<>>,      \* the tracer's spans in creation order
          window |-> {},        \* callers between append(t.opts, kind) and StartSpan reading the options
          race   |-> FALSE,     \* two callers were in the window while one of them wrote the shared slot
          tvar   |-> 0]         \* SharedSpanVar mutant: the transport's span field

NewSpan(id, by, parent) == [id |-> id, by |-> by, parent |-> parent, keys |-> StartKeys, status |-> 0,
                            err |-> FALSE, fin |-> 0, late |-> FALSE]
Use(s) == IF s.fin > 0 THEN [s EXCEPT !.late = TRUE] ELSE s        \* any operation on a finished span

\* reader wrapper: ext.HTTPStatusCode.Set + ext.Error.Set(>=400)  |  SetAttributes(HTTPStatusCode) + SetStatus(ServerStatus)
CodeSetsError(fl, st) ==
  IF fl = "ot" THEN st >= 400
  ELSE st \in Unassigned \/ (IF ClientStatusRule THEN st >= 400 ELSE st >= 500)
SetStatus(fl, s, st) == [s EXCEPT !.keys = @ \cup {"status"}, !.status = st, !.err = @ \/ CodeSetsError(fl, st)]

Ret(c, g) == [c |-> c, g |-> g]
VarOf(c, g, w)     == IF SharedSpanVar THEN g.tvar ELSE c.var[w]
SetVar(c, g, w, v) == IF SharedSpanVar THEN Ret(c, [g EXCEPT !.tvar = v]) ELSE Ret([c EXCEPT !.var[w] = v], g)

\* the fault the environment may inject at a stage of the inner transport
FaultStage(pc) == CASE pc = "inner" -> "pre" [] pc = "uparams" -> "params" [] pc = "auth" -> "auth"
                    [] pc = "send" -> "transport" [] pc = "resp" -> "noconsumer" [] pc = "ureader" -> "reader"
                    [] OTHER -> "-"
Faultable(pc) == FaultStage(pc) # "-"
Fail(c, stage) == [c EXCEPT !.pc = "innerret", !.err = TRUE, !.sc.end = stage]

CanBegin(c) == c.pc \in {"idle", "returned"} /\ c.k < MaxCalls
Begin(c, ctx) == [c EXCEPT !.pc = "enter", !.k = @ + 1, !.sc = [ctx |-> ctx, end |-> "?", status |-> 0], !.i = 0,
                           !.traced = FALSE, !.pcalls = 0, !.rcalls = 0, !.err = FALSE, !.hdr = {}, !.sent = FALSE, !.out = {}]

Running(c) == c.pc \notin {"idle", "returned", "panic"}

\* One step of caller `me`. E = [fl, spare]; f: the environment injects the fault of this stage; st: the status it answers.
CStep(E, me, c, g, f, st) ==
  CASE c.pc = "enter" ->                               \* tracingTransport.Submit / openTelemetryTransport.Submit
         IF c.sc.ctx = "nil"
         THEN Ret([c EXCEPT !.pc = "inner"], g)        \*   if op.Context == nil { return t.transport.Submit(op) }
         ELSE SetVar([c EXCEPT !.pc = "inner", !.traced = TRUE, !.wraps = Append(@, c.k)], g, c.k, 0)
    [] c.pc = "inner" ->                               \* Runtime.createHttpRequest up to buildHTTP
         IF f THEN Ret(Fail(c, "pre"), g)
         ELSE Ret([c EXCEPT !.pc = "wparams", !.i = Len(c.wraps)], g)
    [] c.pc = "wparams" ->                             \* op.Params: the wrappers, outermost first
         IF c.i = 0 THEN Ret([c EXCEPT !.pc = "uparams"], g)
         ELSE IF E.fl = "ot" /\ c.sc.ctx = "nil"
              THEN Ret([c EXCEPT !.pc = "panic"], g)   \*   opentracing.SpanFromContext(nil): only reachable through a left-over wrapper
         ELSE IF E.fl = "ot" /\ c.sc.ctx = "plain"     \*   no parent span: createClientSpan returns nil
              THEN LET r == SetVar(c, g, c.wraps[c.i], 0) IN Ret([r.c EXCEPT !.i = @ - 1], r.g)
         ELSE LET shared == E.fl = "ot" /\ ~CopiesOpts /\ E.spare IN   \* opts = append(opts, ext.SpanKindRPCClient)
              Ret([c EXCEPT !.pc = "mkspan"],
                  IF shared THEN [g EXCEPT !.race = @ \/ (g.window \ {me}) # {}, !.window = @ \cup {me}] ELSE g)
    [] c.pc = "mkspan" ->                              \* StartSpan + start tags + Inject + `span = ...`
         LET id == Len(g.spans) + 1
             \* as-built D52: StartSpanFromContextWithTracer appends ChildOf(parent) into the same shared array; a caller
             \* overlapping with another one may read the other's reference (observed on the real code: 24 of 3200 spans)
             mixed == (g.window \ {me}) # {}
             sp == NewSpan(id, <<me, c.k>>, IF mixed THEN "other" ELSE IF c.sc.ctx = "span" THEN "caller" ELSE "root")
             g1 == [g EXCEPT !.spans = Append(@, sp), !.window = @ \ {me}]
         IN  SetVar([c EXCEPT !.pc = "wparams", !.i = @ - 1, !.hdr = {id}], g1, c.wraps[c.i], id)
    [] c.pc = "uparams" ->                             \* the caller's params writer
         LET c1 == [c EXCEPT !.pcalls = @ + 1] IN
         IF f THEN Ret(Fail(c1, "params"), g) ELSE Ret([c1 EXCEPT !.pc = "auth"], g)
    [] c.pc = "auth" ->                                \* auth writer / rest of buildHTTP
         IF f THEN Ret(Fail(c, "auth"), g) ELSE Ret([c EXCEPT !.pc = "send"], g)
    [] c.pc = "send" ->                                \* client.Do
         LET c1 == [c EXCEPT !.sent = TRUE, !.out = c.hdr] IN
         IF f THEN Ret(Fail(c1, "transport"), g) ELSE Ret([c1 EXCEPT !.pc = "resp", !.sc.status = st], g)
    [] c.pc = "resp" ->                                \* content type / consumer lookup
         IF f THEN Ret(Fail(c, "noconsumer"), g) ELSE Ret([c EXCEPT !.pc = "wreader", !.i = Len(c.wraps)], g)
    [] c.pc = "wreader" ->                             \* op.Reader: the wrappers, outermost first
         IF c.i = 0 THEN Ret([c EXCEPT !.pc = "ureader"], g)
         ELSE LET v == VarOf(c, g, c.wraps[c.i]) IN
              Ret([c EXCEPT !.i = @ - 1],
                  IF v = 0 THEN g ELSE [g EXCEPT !.spans[v] = SetStatus(E.fl, Use(@), c.sc.status)])
    [] c.pc = "ureader" ->                             \* the caller's reader
         LET c1 == [c EXCEPT !.rcalls = @ + 1] IN
         IF f THEN Ret(Fail(c1, "reader"), g) ELSE Ret([c1 EXCEPT !.pc = "innerret", !.sc.end = "ok"], g)
    [] c.pc = "innerret" ->                            \* back in the tracing Submit: if err != nil && span != nil { error tag }
         IF ~c.traced THEN Ret([c EXCEPT !.pc = "returned"], g)
         ELSE LET v == VarOf(c, g, c.k) IN
              Ret([c EXCEPT !.pc = "defer"],
                  IF c.err /\ v # 0 THEN [g EXCEPT !.spans[v] = [Use(@) EXCEPT !.err = TRUE]] ELSE g)
    [] c.pc = "defer" ->                               \* defer: if span != nil { span.Finish() }
         LET v == VarOf(c, g, c.k)
             c1 == [c EXCEPT !.pc = "returned", !.wraps = IF RestoresOp THEN SubSeq(@, 1, Len(@) - 1) ELSE @] IN
         Ret(c1, IF v # 0 THEN [g EXCEPT !.spans[v].fin = @ + 1] ELSE g)

\* functional closure: one whole call following a planned script (used by MC's InvClosure, TG and TV)
RECURSIVE RunToReturn(_, _, _, _, _)
RunToReturn(E, me, c, g, plan) ==
  IF ~Running(c) THEN Ret(c, g)
  ELSE LET r == CStep(E, me, c, g, plan.end = FaultStage(c.pc), plan.status) IN RunToReturn(E, me, r.c, r.g, plan)
RunCall(E, me, c, g, plan) == RunToReturn(E, me, Begin(c, plan.ctx), g, plan)

Mine(c, g, me) == { g.spans[j] : j \in { x \in DOMAIN g.spans : g.spans[x].by = <<me, c.k>> } }
ObsOf(c, g, me) == [mine |-> Mine(c, g, me), pcalls |-> c.pcalls, rcalls |-> c.rcalls, err |-> c.err, sent |-> c.sent,
                    out |-> c.out, opclean |-> c.wraps = <<>>, panic |-> c.pc = "panic"]

\* ---- whole-system invariants (any number of callers)
SpansSane(g)   == \A j \in DOMAIN g.spans : g.spans[j].fin <= 1 /\ ~g.spans[j].late
AllFinished(g) == \A j \in DOMAIN g.spans : g.spans[j].fin = 1
\* at its return a caller has finished everything it ever started, whatever the others do
OwnFinished(c, g, me) == \A j \in DOMAIN g.spans : g.spans[j].by[1] = me => g.spans[j].fin = 1

\* ---- harness gates (params writer, RoundTrip, reader) for concurrent replay
GateOrder == <<"params", "rt", "reader">>
RECURSIVE LegalGates(_, _)
LegalGates(gs, pos) ==
  gs = <<>> \/ (LET h == Head(gs) IN
                /\ h.caller \in DOMAIN pos /\ pos[h.caller] < 3 /\ h.gate = GateOrder[pos[h.caller] + 1]
                /\ LegalGates(Tail(gs), [pos EXCEPT ![h.caller] = @ + 1]))
=============================================================================
