-------------------------- MODULE TraceCredentials --------------------------
(* Trace validation of client auth writers -> real request -> server         *)
(* authenticators against C14.                                               *)
(* case  : a SESSION on one client.Runtime (reset line: the steps, for       *)
(*         replay).  The events tell what the driver did, in order:          *)
(*   configure {def, debug, bstatic}  the application (re)sets               *)
(*         Runtime.DefaultAuthentication, Runtime.Debug and the base path    *)
(*         (with its static query parameters)                                *)
(*   request {op, authz, hdrs, query, form, media, pstatic, transport}       *)
(*         a request is made with the configuration as it is now             *)
(*   auth {a: the authenticator run on that request, o: what its application *)
(*         callback received and what it returned / marked, built: the       *)
(*         client produced (and, for transport "server", delivered) the      *)
(*         request}                                                          *)
(* The model state is what a correct Runtime may remember - its              *)
(* configuration - plus the request being judged: `configure` replaces the   *)
(* configuration, `request` the request; every `auth` must satisfy C14 for   *)
(* the configuration in force when the request was made, whatever was        *)
(* configured or requested before.                                           *)
EXTENDS Credentials, Json, IOUtils

VARIABLES l, st, skipping, fails, cs

CInit(e) == [def |-> <<>>, debug |-> FALSE, bstatic |-> <<>>,
             op |-> <<>>, authz |-> <<>>, hdrs |-> <<>>, query |-> <<>>, form |-> <<>>, media |-> "none",
             pstatic |-> <<>>, transport |-> "direct", requested |-> FALSE]

\* the case the property is stated on: the request with the configuration in force
In(s) == [op |-> s.op, def |-> s.def, authz |-> s.authz, hdrs |-> s.hdrs, query |-> s.query, form |-> s.form, media |-> s.media,
          static |-> s.bstatic \o s.pstatic, debug |-> s.debug, transport |-> s.transport]

CAllowed(s, e) ==
  CASE e.ev = "configure" -> TRUE
    [] e.ev = "request"   -> TRUE
    [] e.ev = "auth"      -> s.requested /\ e.built /\ ~e.o.panic /\ AuthOK(In(s), e.a, e.o)
    [] OTHER -> FALSE

CWhy(s, e) ==
  CASE e.ev = "auth" -> IF ~s.requested THEN "auth-without-request" ELSE IF ~e.built THEN "request-not-built" ELSE IF e.o.panic THEN "panic"
                        ELSE WhyAuth(In(s), e.a, e.o)
    [] OTHER -> "unknown-event"

CStep(s, e) ==
  CASE e.ev = "configure" -> [s EXCEPT !.def = e.def, !.debug = e.debug, !.bstatic = e.bstatic, !.requested = FALSE]
    [] e.ev = "request"   -> [s EXCEPT !.op = e.op, !.authz = e.authz, !.hdrs = e.hdrs, !.query = e.query, !.form = e.form,
                                       !.media = e.media, !.pstatic = e.pstatic, !.transport = e.transport, !.requested = TRUE]
    [] OTHER -> s

TheTrace == ndJsonDeserialize(IOEnv.TRACE_FILE)
TC == INSTANCE TraceCommon WITH TInit <- CInit, TAllowed <- CAllowed, TStep <- CStep,
                                TWhy <- CWhy, TStateful <- FALSE, Trace <- TheTrace
Spec == TC!Spec
=============================================================================
