-------------------------- MODULE TraceCredentials --------------------------
(* Trace validation of client auth writers -> real request -> server         *)
(* authenticators against C14.                                               *)
(* case  : the request description (reset line)                              *)
(* event : auth {a: the authenticator run on the request, o: what its        *)
(*         application callback received and what it returned / marked,      *)
(*         built: the client produced (and, for transport "server",          *)
(*         delivered) the request}                                           *)
EXTENDS Credentials, Json, IOUtils

VARIABLES l, st, skipping, fails, cs

CInit(e) == [op |-> e.op, def |-> e.def, authz |-> e.authz, hdrs |-> e.hdrs, query |-> e.query,
             form |-> e.form, media |-> e.media]

CAllowed(s, e) ==
  CASE e.ev = "auth" -> e.built /\ ~e.o.panic /\ AuthOK(s, e.a, e.o)
    [] OTHER -> FALSE

CWhy(s, e) ==
  CASE e.ev = "auth" -> IF ~e.built THEN "request-not-built" ELSE IF e.o.panic THEN "panic" ELSE WhyAuth(s, e.a, e.o)
    [] OTHER -> "unknown-event"

CStep(s, e) == s

TheTrace == ndJsonDeserialize(IOEnv.TRACE_FILE)
TC == INSTANCE TraceCommon WITH TInit <- CInit, TAllowed <- CAllowed, TStep <- CStep,
                                TWhy <- CWhy, TStateful <- FALSE, Trace <- TheTrace
Spec == TC!Spec
=============================================================================
