-------------------------- MODULE TraceCredentials --------------------------
(* Trace validation of client auth writers -> real request -> server         *)
(* authenticators against C14.                                               *)
(* case  : a SESSION on two client.Runtimes A (1) and B (2) (reset line: the *)
(*         steps, for replay).  The events tell what the driver did:         *)
(*   configure {rt, def, debug, bstatic}  the application (re)sets           *)
(*         DefaultAuthentication, Debug and the base path (with its static   *)
(*         query parameters) of Runtime rt                                   *)
(*   request {rt, opref, op, authz, hdrs, query, form, media, pstatic,       *)
(*         transport}  a request is made through Runtime rt, configured as   *)
(*         it is now, with a fresh ClientOperation value (opref 0) or with   *)
(*         the caller's value number opref, possibly submitted before        *)
(*   returned {before, after, same}  the AuthInfo of the caller's operation  *)
(*         value before and after the request was made ("nil" | "set"; same: *)
(*         it is the very writer the caller put there)                       *)
(*   auth {a: the authenticator run on that request, o: what its application *)
(*         callback received and what it returned / marked, built: the       *)
(*         client produced (and, for transport "server", delivered) the      *)
(*         request}                                                          *)
(* The model state is what correct Runtimes may remember - their             *)
(* configurations - plus the request being judged: `configure` replaces a    *)
(* configuration, `request` the request; every `auth` must satisfy C14 for   *)
(* the configuration in force of the SENDING Runtime when the request was    *)
(* made, whatever was configured, requested or submitted before, and every   *)
(* `returned` must show the caller's operation value untouched.              *)
EXTENDS Credentials, Json, IOUtils

VARIABLES l, st, skipping, fails, cs

RtCfg0 == [def |-> <<>>, debug |-> FALSE, bstatic |-> <<>>]
CInit(e) == [cfgs |-> <<RtCfg0, RtCfg0>>, rt |-> 1,
             op |-> <<>>, authz |-> <<>>, hdrs |-> <<>>, query |-> <<>>, form |-> <<>>, media |-> "none",
             pstatic |-> <<>>, transport |-> "direct", requested |-> FALSE]

\* the case the property is stated on: the request with the configuration in force
In(s) == LET c == s.cfgs[s.rt] IN
         [op |-> s.op, def |-> c.def, authz |-> s.authz, hdrs |-> s.hdrs, query |-> s.query, form |-> s.form, media |-> s.media,
          static |-> c.bstatic \o s.pstatic, debug |-> c.debug, transport |-> s.transport]

\* Submit / CreateHttpRequest leave the caller's ClientOperation as it was
OperationUnchanged(e) == e.after = e.before /\ e.same

CAllowed(s, e) ==
  CASE e.ev = "configure" -> e.rt \in {1, 2}
    [] e.ev = "request"   -> e.rt \in {1, 2}
    [] e.ev = "returned"  -> OperationUnchanged(e)
    [] e.ev = "auth"      -> s.requested /\ e.built /\ ~e.o.panic /\ AuthOK(In(s), e.a, e.o)
    [] OTHER -> FALSE

CWhy(s, e) ==
  CASE e.ev = "auth" -> IF ~s.requested THEN "auth-without-request" ELSE IF ~e.built THEN "request-not-built" ELSE IF e.o.panic THEN "panic"
                        ELSE WhyAuth(In(s), e.a, e.o)
    [] e.ev = "returned" -> "caller-operation-changed"
    [] OTHER -> "unknown-event"

CStep(s, e) ==
  CASE e.ev = "configure" -> [s EXCEPT !.cfgs[e.rt] = [def |-> e.def, debug |-> e.debug, bstatic |-> e.bstatic], !.requested = FALSE]
    [] e.ev = "request"   -> [s EXCEPT !.rt = e.rt, !.op = e.op, !.authz = e.authz, !.hdrs = e.hdrs, !.query = e.query, !.form = e.form,
                                       !.media = e.media, !.pstatic = e.pstatic, !.transport = e.transport, !.requested = TRUE]
    [] OTHER -> s

TheTrace == ndJsonDeserialize(IOEnv.TRACE_FILE)
TC == INSTANCE TraceCommon WITH TInit <- CInit, TAllowed <- CAllowed, TStep <- CStep,
                                TWhy <- CWhy, TStateful <- FALSE, Trace <- TheTrace
Spec == TC!Spec
=============================================================================
