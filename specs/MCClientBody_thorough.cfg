SPECIFICATION Spec
CONSTANTS
  SniffMode = "fixed"
  Mutant = "none"
  Lens = {0, 1, 16, 100, 511, 512, 513, 1500}
  Chunks = {0, 1, 4, 7, 511, 512, 513}
  MaxK = 3
  MaxFileFields = 2
  MaxItems = 1
  MaxFields = 2
  MaxValues = 2
INVARIANTS BodyHolds AuthHolds
CHECK_DEADLOCK FALSE
