--------------------------- MODULE GenClientResp ---------------------------
(* TG: exports every interleaving of the harness gates (params writer,     *)
(* RoundTrip, response reader) of N callers, N in Ns, as ndjson schedules  *)
(* [n, gates: <<[caller, gate], ...>>] for replay on one fresh Runtime.    *)
EXTENDS ClientResp, Json, IOUtils, SequencesExt

CONSTANT Ns
VARIABLE x

RECURSIVE Scheds(_, _)
\* pos[i] = gates already passed by caller i; returns the set of completions
Scheds(n, pos) ==
  IF \A i \in 1..n : pos[i] = 3 THEN { <<>> }
  ELSE UNION { { <<[caller |-> i, gate |-> GateOrder[pos[i] + 1]]>> \o s : s \in Scheds(n, [pos EXCEPT ![i] = @ + 1]) }
               : i \in { j \in 1..n : pos[j] < 3 } }

All == UNION { { [n |-> n, gates |-> s] : s \in Scheds(n, [i \in 1..n |-> 0]) } : n \in Ns }

ASSUME \A r \in All : LegalGates(r.gates, [i \in 1..r.n |-> 0])
ASSUME ndJsonSerialize(IOEnv.OUT_FILE, SetToSeq(All))
ASSUME PrintT(<<"schedules", Cardinality(All)>>)

Init == x = 0
Next == UNCHANGED x
Spec == Init /\ [][Next]_x
=============================================================================
