----------------------------- MODULE ClientBody -----------------------------
(***************************************************************************)
(* C11 - the body the client sends (client/request.go buildHTTP: body      *)
(* source selection, urlencoded form, multipart goroutine with content-    *)
(* type sniffing, producer call, the getBody override shown to auth         *)
(* writers; mangleContentType, escapeQuotes; client_request.go NamedReader).*)
(*                                                                         *)
(* Input record `in`                                                       *)
(*   media   : STRING      the media type chosen by createHttpRequest      *)
(*   method  : STRING      HTTP method of the operation                    *)
(*   presetct: STRING      a Content-Type header set by the params writer  *)
(*                         ("" = none)                                     *)
(*   payload : "none" | "value" | "reader" | "readcloser"                   *)
(*   fields  : Seq([k |-> bytes, vs |-> Seq(bytes)])       distinct keys   *)
(*   files   : Seq([field |-> bytes, items |-> Seq(item)]) distinct fields *)
(*     item  = [name |-> bytes, declared |-> STRING ("" = undeclared),    *)
(*              len |-> Nat, head |-> "text" | "bin" | "png" | "pdf" | "gif",              *)
(*              nul |-> Nat (position of a NUL byte in "text", 0 = none),  *)
(*              chunk |-> Nat (size of the source's first Read; 0 = all),  *)
(*              seekable |-> BOOLEAN, skip |-> Nat (bytes of the source    *)
(*              before the position at which it is handed over; len, head, *)
(*              nul describe what it yields from there)]                   *)
(*   fault   : BOOLEAN     the payload reader fails once, transiently      *)
(*   pseek   : BOOLEAN     the reader payload implements io.Seeker and     *)
(*   pskip   : Nat         was handed over after pskip consumed units; the *)
(*                         payload is what it yields from there            *)
(*   debug   : BOOLEAN     Runtime.Debug (the request is dumped)           *)
(*   auth    : BOOLEAN     the operation has a (body-inspecting) auth writer *)
(*   defauth : BOOLEAN     Runtime.DefaultAuthentication is such a writer  *)
(*                         (in force when the operation has none)          *)
(*   k       : Nat         it calls GetBody k times                        *)
(* Contents are identified by tokens `ids` (MC: indices; TV: len + SHA-256 *)
(* computed by the driver over the bytes it supplied):                      *)
(*   ids.payload, ids.ref (reference encoding of a value payload by the    *)
(*   same producer instance), ids.files[i][j]                              *)
(*                                                                         *)
(* CodeBody is the transcription of the code, BodyOK the property C11 on    *)
(* one observation of what was sent.                                        *)
(***************************************************************************)
EXTENDS Integers, Sequences, FiniteSets, TLC

CONSTANTS SniffMode,   \* "fixed": io.ReadFull + DetectContentType(buf[:n])   (repair of finding D8)
                       \* "asbuilt": one Read into a 512-byte buffer, DetectContentType(buf) zero-padded
          Mutant       \* "none" or the name of a model mutant (non-vacuity)

URLENCODED == "application/x-www-form-urlencoded"
MULTIPART  == "multipart/form-data"
TEXTPLAIN  == "text/plain; charset=utf-8"
OCTET      == "application/octet-stream"
PNG        == "image/png"
SniffWindow == 512

Min(a, b) == IF a < b THEN a ELSE b

---------------------------------------------------------------------------
(* http.DetectContentType on a window of the content.                      *)
(* n = number of content bytes in the window, padded = the window is        *)
(* followed by NUL bytes (the as-built zero-padded buffer).                 *)
SigLen(h)  == CASE h = "png" -> 8 [] h = "pdf" -> 5 [] h = "gif" -> 6 [] OTHER -> 0
SigType(h) == CASE h = "png" -> PNG [] h = "pdf" -> "application/pdf" [] h = "gif" -> "image/gif" [] OTHER -> ""
\* well-formed items: signature heads have len >= 16, so a window shorter than the signature
\* only occurs zero-padded (as-built short first Read)
DetectWindow(item, n, padded) ==
  IF n = 0 THEN (IF padded THEN OCTET ELSE TEXTPLAIN)
  ELSE CASE item.head \in {"png", "pdf", "gif"} -> IF n >= SigLen(item.head) THEN SigType(item.head) ELSE OCTET
         [] item.head = "bin"  -> OCTET
         [] item.head = "text" -> IF padded \/ (item.nul # 0 /\ item.nul <= n) THEN OCTET ELSE TEXTPLAIN

\* The property's reading: the type sniffed from the content = DetectContentType of the content
\* (which looks at its first min(512, len) bytes).
Sniff(item) == DetectWindow(item, Min(SniffWindow, item.len), FALSE)

\* The code's reading.
FirstRead(item) == IF item.chunk = 0 THEN Min(SniffWindow, item.len) ELSE Min(Min(item.chunk, SniffWindow), item.len)
CodeSniff(item) ==
  IF SniffMode = "asbuilt"
  THEN LET n == FirstRead(item) IN DetectWindow(item, n, n < SniffWindow)     \* buf := make([]byte, 512); fi.Read(buf); Detect(buf)
  ELSE DetectWindow(item, Min(SniffWindow, item.len), FALSE)                  \* io.ReadFull(fi, buf); Detect(buf[:n])

---------------------------------------------------------------------------
(* filepath.Base on '/'-separated names                                     *)
RECURSIVE StripSlashes(_)
StripSlashes(s) == IF s # <<>> /\ s[Len(s)] = 47 THEN StripSlashes(SubSeq(s, 1, Len(s) - 1)) ELSE s
RECURSIVE LastSlash(_, _)
LastSlash(s, i) == IF i = 0 THEN 0 ELSE IF s[i] = 47 THEN i ELSE LastSlash(s, i - 1)
BaseName(s) ==
  IF s = <<>> THEN <<46>>
  ELSE LET t == StripSlashes(s) IN
       IF t = <<>> THEN <<47>>
       ELSE SubSeq(t, LastSlash(t, Len(t)) + 1, Len(t))

---------------------------------------------------------------------------
(* Content-Disposition parameters: escapeQuotes on the client, a MIME       *)
(* quoted-string parser on the other side (mime.consumeValue: a backslash   *)
(* followed by a tspecial is an escape, any other backslash is literal)     *)
QUOTE == 34
BSLASH == 92
TSpecials == {40, 41, 60, 62, 64, 44, 59, 58, 92, 34, 47, 91, 93, 63, 61}     \* ( ) < > @ , ; : \ " / [ ] ? =

RECURSIVE EscapeAll(_)
EscapeAll(s) == IF s = <<>> THEN <<>>
                ELSE (IF Head(s) \in {BSLASH, QUOTE} THEN <<BSLASH, Head(s)>> ELSE <<Head(s)>>) \o EscapeAll(Tail(s))
\* strings.NewReplacer("\\", "\\\\", `"`, "\\\"").Replace(s); mutant "quotefastpath": unchanged when s has no quote
EscapeQuotes(s) ==
  IF Mutant = "quotefastpath" /\ \A i \in 1..Len(s) : s[i] # QUOTE THEN s ELSE EscapeAll(s)

\* parse the text after an opening quote: [ok, v]
RECURSIVE ParseQuoted(_, _)
ParseQuoted(w, acc) ==
  IF w = <<>> THEN [ok |-> FALSE, v |-> <<>>]                              \* no closing quote
  ELSE IF Head(w) = QUOTE THEN [ok |-> TRUE, v |-> acc]
  ELSE IF Head(w) = BSLASH /\ Len(w) >= 2 /\ w[2] \in TSpecials THEN ParseQuoted(SubSeq(w, 3, Len(w)), Append(acc, w[2]))
  ELSE ParseQuoted(Tail(w), Append(acc, Head(w)))

\* the name a MIME reader finds in  name="<escaped>"
WireName(n) == LET p == ParseQuoted(EscapeQuotes(n) \o <<QUOTE>>, <<>>) IN IF p.ok THEN <<p.v>> ELSE <<>>
NameSurvives(n) == WireName(n) = <<n>>

---------------------------------------------------------------------------
(* flattening of the caller's maps                                         *)
RECURSIVE FieldPairs(_)
FieldPairs(fields) ==      \* every (key, value) of the form fields
  IF fields = <<>> THEN <<>>
  ELSE [i \in 1..Len(Head(fields).vs) |-> [k |-> Head(fields).k, v |-> Head(fields).vs[i]]] \o FieldPairs(Tail(fields))

RECURSIVE FileRefs(_, _)
FileRefs(files, i) ==      \* every (field index, item index)
  IF i > Len(files) THEN <<>>
  ELSE [j \in 1..Len(files[i].items) |-> <<i, j>>] \o FileRefs(files, i + 1)

BagOf(s) == [x \in {s[i] : i \in 1..Len(s)} |-> Cardinality({i \in 1..Len(s) : s[i] = x})]

---------------------------------------------------------------------------
(* the code                                                                *)
IsMultipart(in) == in.files # <<>> \/ in.media = MULTIPART                  \* request.isMultipart
HasForm(in)     == in.fields # <<>> \/ in.files # <<>>

\* mangleContentType
MangledMedia(media) == IF media = URLENCODED THEN URLENCODED ELSE MULTIPART

CodeKind(in) ==
  IF HasForm(in) THEN (IF IsMultipart(in) THEN "multipart" ELSE "urlencoded")
  ELSE IF in.payload = "none" THEN "empty"
  ELSE IF in.payload \in {"reader", "readcloser"} THEN "raw"
  ELSE "produced"

\* the multipart goroutine: WriteField per value, then per file a part with Content-Disposition
\* (name, filepath.Base(file name)) and Content-Type (declared or sniffed) followed by io.Copy
CodeFilePart(in, ids, ref) ==
  LET f  == in.files[ref[1]]
      it == f.items[ref[2]]
      wn(n) == IF WireName(n) = <<>> THEN <<>> ELSE WireName(n)[1]        \* unparseable -> no such part (empty names)
  IN [field    |-> wn(f.field),
      filename |-> wn(IF Mutant = "nobase" THEN it.name ELSE BaseName(it.name)),
      ctype    |-> IF it.declared # "" /\ Mutant # "nodeclared" THEN it.declared ELSE CodeSniff(it),
      len      |-> it.len,
      \* the part is  sniffed bytes ++ rest of the reader  = what the reader yields from its current position;
      \* mutant "rewindseek": a seekable source is rewound to offset 0, so bytes before its position are sent too
      cid      |-> IF Mutant = "rewindseek" /\ it.seekable /\ it.skip > 0
                   THEN <<0, 0>> ELSE ids.files[ref[1]][ref[2]]]

CodeFileParts(in, ids) ==
  LET refs == FileRefs(in.files, 1)
      ps   == [i \in 1..Len(refs) |-> CodeFilePart(in, ids, refs[i])]
  IN IF Mutant = "dupfile" /\ ps # <<>> THEN Append(ps, ps[1]) ELSE ps

CodeFieldPairs(in) ==
  LET ps == FieldPairs(in.fields)
      \* in a multipart body the field name travels in a quoted-string as well
      qs == IF IsMultipart(in) THEN [i \in 1..Len(ps) |-> [k |-> IF WireName(ps[i].k) = <<>> THEN <<>> ELSE WireName(ps[i].k)[1], v |-> ps[i].v]] ELSE ps
  IN IF Mutant = "dropfield" /\ qs # <<>> THEN Tail(qs) ELSE qs

HasWriter(in) == in.auth \/ in.defauth

\* the getBody override: state [streaming, copied, bodyIsBuf, buf, stream, shown, fault, err]
\* streaming: the request body is not r.buf (reader payload or multipart pipe)
\* fault: the stream fails ONCE (transiently) after delivering `fault` more units (-1 = never)
TakeU(s, n) == SubSeq(s, 1, n)
DropU(s, n) == SubSeq(s, n + 1, Len(s))
GetBodyOnce(s) ==
  IF s.streaming /\ ~s.copied
  THEN IF s.fault >= 0 /\ s.fault < Len(s.stream)
       THEN \* io.Copy fails half way: the prefix is in r.buf, GetBody returns nil and copyErr makes buildHTTP fail
            \* ("error retrieving the response body"); mutant "shadowcopyerr": the error is lost, the build goes on
            [s EXCEPT !.buf = s.buf \o TakeU(s.stream, s.fault), !.stream = DropU(s.stream, s.fault), !.copied = TRUE,
                      !.fault = -1, !.shown = Append(@, <<>>), !.err = (Mutant # "shadowcopyerr")]
       ELSE IF Mutant = "earlybuf"
       THEN [s EXCEPT !.shown = Append(@, s.buf), !.copied = TRUE, !.buf = s.buf \o s.stream, !.stream = <<>>, !.bodyIsBuf = TRUE]
       ELSE [s EXCEPT !.buf = s.buf \o s.stream, !.stream = <<>>, !.copied = TRUE,     \* io.Copy(r.buf, body); close
                      !.bodyIsBuf = (Mutant # "bodynotswitched"),                      \* body = r.buf
                      !.shown = Append(@, s.buf \o s.stream)]
  ELSE [s EXCEPT !.shown = Append(@, s.buf)]                                          \* getRequestBuffer

RECURSIVE GetBodyTimes(_, _)
GetBodyTimes(s, k) == IF k = 0 THEN s ELSE GetBodyTimes(GetBodyOnce(s), k - 1)

\* content: the body as a sequence of abstract units; fault as above
\* Runtime.Debug: httputil.DumpRequestOut(req, true) drains the body and puts a copy back - nothing changes.
\* mutant "debuglategetbody": the dump calls request.GetBody() after http.NewRequest captured the body reader
CodeAuth(in, streaming, content, fault) ==
  LET s0 == [streaming |-> streaming, copied |-> FALSE, bodyIsBuf |-> ~streaming,
             buf |-> IF streaming THEN <<>> ELSE content, stream |-> IF streaming THEN content ELSE <<>>, shown |-> <<>>,
             fault |-> IF streaming THEN fault ELSE -1, err |-> FALSE]
      \* the writer in force - the operation's, else the runtime's default - runs inside buildHTTP, after the body
      \* source was chosen; mutant "defaultupfront": the default runs before anything was built (GetBody = nil)
      upfront == Mutant = "defaultupfront" /\ ~in.auth /\ in.defauth
      s1 == IF HasWriter(in) /\ ~upfront THEN GetBodyTimes(s0, in.k) ELSE s0
      late == in.debug /\ HasWriter(in) /\ ~upfront /\ Mutant = "debuglategetbody"
      s2 == IF late THEN GetBodyOnce(s1) ELSE s1
      \* what the transport reads: the reader captured when the request was created
      \* mutant "rewindpayload": a seekable payload copied for the auth writer is rewound to offset 0 and stays the body,
      \* so the consumed preamble (units 0) is sent in front of the payload
      rewound == Mutant = "rewindpayload" /\ in.payload \in {"reader", "readcloser"} /\ in.pseek /\ s1.copied
      sent == IF rewound THEN [i \in 1..in.pskip |-> 0] \o content
              ELSE IF s1.bodyIsBuf THEN s2.buf ELSE s2.stream
  IN [shown |-> IF upfront THEN [i \in 1..in.k |-> <<>>] ELSE s1.shown, sent |-> sent,
      \* a fault still pending when the transport reads the stream fails the send
      err |-> s1.err \/ (s2.fault >= 0 /\ ~s1.bodyIsBuf /\ s2.fault < Len(s2.stream))]

CodeBody(in, ids) ==
  LET kind == CodeKind(in) IN
  [kind     |-> kind,
   \* r.header.Set(Content-Type, mediaType) in every body branch: a value set by the params writer is replaced.
   \* mutant "latectset": for stream payloads only the fallback after DoneChoosingBodySource sets it
   \* (CanHaveBody(method) and no header yet)
   ctmedia  |-> CASE kind = "empty"     -> in.presetct
                  [] kind = "multipart" -> IF Mutant = "noswitch" THEN in.media ELSE MangledMedia(in.media)
                  [] kind = "raw" /\ Mutant = "latectset" ->
                       IF in.presetct # "" THEN in.presetct
                       ELSE IF in.method \in {"POST", "PUT", "PATCH", "DELETE"} THEN in.media ELSE ""
                  [] OTHER              -> in.media,
   boundary |-> kind = "multipart",
   pairs    |-> IF kind \in {"urlencoded", "multipart"} THEN CodeFieldPairs(in) ELSE <<>>,
   parts    |-> IF kind = "multipart" THEN CodeFileParts(in, ids) ELSE <<>>,
   payload  |-> IF kind \in {"raw", "produced"} THEN <<ids.payload>> ELSE <<>>,
   producers|-> IF kind = "produced" THEN <<in.media>> ELSE <<>>]

---------------------------------------------------------------------------
(* The property C11 on one observation                                     *)
(*  o = [err, ctmedia, boundary, kind, pairs, parts, payload, producers]   *)
(*  kind    : how the sent bytes parsed: "empty" (no bytes), "multipart"   *)
(*            (with the boundary of the Content-Type header), else "bytes" *)
(*  pairs   : decoded (k, v) of an urlencoded body / of the multipart      *)
(*            parts without file name                                      *)
(*  parts   : [field, filename, ctype, len, cid] of the parts with a name  *)
(*  payload : <<id of the sent bytes>> for non-form bodies                 *)

ExpectedKind(in) ==
  IF in.files # <<>> THEN "multipart"
  ELSE IF in.fields # <<>> THEN (IF in.media = MULTIPART THEN "multipart" ELSE "urlencoded")
  ELSE CASE in.payload = "none"  -> "empty"
         [] in.payload = "value" -> "produced"
         [] OTHER                -> "raw"

ExpectedFilePart(in, ids, ref) ==
  LET f  == in.files[ref[1]]
      it == f.items[ref[2]]
  IN [field |-> f.field, filename |-> BaseName(it.name),
      ctype |-> IF it.declared # "" THEN it.declared ELSE Sniff(it),
      len |-> it.len, cid |-> ids.files[ref[1]][ref[2]]]
ExpectedFileParts(in, ids) == LET refs == FileRefs(in.files, 1) IN [i \in 1..Len(refs) |-> ExpectedFilePart(in, ids, refs[i])]

\* named deviation UrlencodedWithFilesKeepsItsName: with files and the urlencoded media type the
\* header is "application/x-www-form-urlencoded; boundary=..." (pinned by the repository's own
\* TestBuildRequest_BuildHTTP_Files_URLEncoded); the boundary parameter must still be the body's.
CtDescribesMultipart(in, o) ==
  /\ o.boundary
  /\ \/ o.ctmedia = MULTIPART
     \/ in.media = URLENCODED /\ o.ctmedia = URLENCODED

BodyOK(in, ids, o) ==
  LET kind == ExpectedKind(in) IN
  /\ ~o.err
  /\ CASE kind = "empty" ->
            o.kind = "empty"                                         \* nothing is sent
       [] kind = "produced" ->
            /\ o.producers = <<in.media>>                            \* the producer registered for the media type, once
            /\ o.payload = <<ids.payload>>                           \* its output is what is sent
            /\ ids.payload = ids.ref                                 \* ... and is THE encoding of the value by that producer
                                                                     \* (a reference encoding made with the same instance)
            /\ o.ctmedia = in.media
       [] kind = "raw" ->
            /\ o.payload = <<ids.payload>>                           \* exactly the reader's bytes
            /\ o.producers = <<>>
            /\ o.ctmedia = in.media
       [] kind = "urlencoded" ->
            /\ o.kind # "multipart"
            /\ BagOf(o.pairs) = BagOf(FieldPairs(in.fields))         \* the URL-encoding of the form fields
            /\ o.ctmedia = in.media
       [] kind = "multipart" ->
            /\ o.kind = "multipart"
            /\ CtDescribesMultipart(in, o)
            /\ BagOf(o.pairs) = BagOf(FieldPairs(in.fields))         \* every form value exactly once
            /\ BagOf(o.parts) = BagOf(ExpectedFileParts(in, ids))    \* every file exactly once: field, base name, type, content

WhyBody(in, ids, o) ==
  LET kind == ExpectedKind(in) IN
  IF o.err THEN "error"
  ELSE IF kind = "empty" THEN "body-sent-without-payload"
  ELSE IF kind \in {"produced", "raw"} THEN
         (IF o.payload # <<ids.payload>> THEN "sent-bytes-differ-from-payload"
          ELSE IF kind = "produced" /\ ids.payload # ids.ref THEN "producer-output-differs-from-its-reference-encoding"
          ELSE IF kind = "produced" /\ o.producers # <<in.media>> THEN "wrong-producer"
          ELSE "content-type-header")
  ELSE IF kind = "urlencoded" THEN
         (IF o.kind = "multipart" \/ BagOf(o.pairs) # BagOf(FieldPairs(in.fields)) THEN "form-fields" ELSE "content-type-header")
  ELSE IF o.kind # "multipart" \/ ~CtDescribesMultipart(in, o) THEN "content-type-header"
  ELSE IF BagOf(o.pairs) # BagOf(FieldPairs(in.fields)) THEN "form-fields"
  ELSE LET exp == ExpectedFileParts(in, ids)
           strip(p) == [field |-> p.field, filename |-> p.filename, len |-> p.len, cid |-> p.cid]
       IN IF BagOf([i \in 1..Len(o.parts) |-> strip(o.parts[i])]) = BagOf([i \in 1..Len(exp) |-> strip(exp[i])])
          THEN "part-content-type" ELSE "file-parts"

\* a payload reader that fails may make the call fail; if the call succeeds everything above holds
\* (in particular: what auth saw = what is sent = the whole payload)
MayFail(in) == in.fault

\* which writer is consulted: the operation's own, else the runtime's default; never both
PlacementOK(in, opSaw, defSaw) ==
  /\ in.auth => defSaw = <<>>
  /\ ~in.auth => opSaw = <<>>
  /\ ~in.defauth => defSaw = <<>>
InForceSaw(in, opSaw, defSaw) == IF in.auth THEN opSaw ELSE defSaw

\* what auth saw is what is sent, however many times it asks
AuthOK(in, shown, sent) ==
  /\ Len(shown) = (IF HasWriter(in) THEN in.k ELSE 0)
  /\ \A i \in 1..Len(shown) : shown[i] = sent
=============================================================================
