SPECIFICATION Spec
CONSTANTS
  Mutant = "redactsent"
  MaxSteps = 3
INVARIANT Holds
CHECK_DEADLOCK FALSE
