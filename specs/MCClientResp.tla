---------------------------- MODULE MCClientResp ----------------------------
EXTENDS ClientResp

CONSTANTS Types

VARIABLES phase, cfg, h, b, cx, ms
vars == <<phase, cfg, h, b, cx, ms>>

CONSTANT MaxOps

Cfgs == { [reg |-> r, star |-> s, default |-> d, defForm |-> f] : r \in SUBSET Types, s \in BOOLEAN, d \in Types, f \in DefForms }
Hdrs == { [form |-> f, t |-> t] : f \in Forms, t \in Types }

Init == phase = "pick" /\ cfg = [reg |-> {}, star |-> FALSE, default |-> CHOOSE t \in Types : TRUE, defForm |-> "plain"]
        /\ h = [form |-> "absent", t |-> CHOOSE t \in Types : TRUE] /\ b = BInit
        /\ cx = [op |-> "nil", rt |-> "nil"] /\ ms = CInitM

PickCfg == phase = "pick" /\ b = BInit /\ \E x \in Cfgs : cfg' = x /\ phase' = "hdr" /\ UNCHANGED <<h, b, cx, ms>>
PickHdr == phase = "hdr" /\ \E x \in Hdrs : h' = x /\ phase' = "checked" /\ UNCHANGED <<cfg, b, cx, ms>>
\* part B runs from the initial phase as an independent branch
Step(i) == phase = "pick" /\ \E t \in BNext(b, i) : b' = t /\ UNCHANGED <<phase, cfg, h, cx, ms>>

\* the context lattice is a third independent branch
PickCtx == phase = "pick" /\ b = BInit /\ \E o \in OpCtxKinds, r \in RtCtxKinds : cx' = [op |-> o, rt |-> r] /\ phase' = "ctx" /\ UNCHANGED <<cfg, h, b, ms>>

\* several Runtimes alive at once, reconfigured in place (a fourth independent branch)
MOps == { [op |-> "new", r |-> 0, mt |-> "", id |-> ""] }
        \cup { [op |-> "set", r |-> r, mt |-> mt, id |-> id] : r \in 1..2, mt \in {"application/json", STAR}, id \in {"x", "y"} }
        \cup { [op |-> "del", r |-> r, mt |-> mt, id |-> ""] : r \in 1..2, mt \in {"application/json", "text/plain"} }
MStepOp == /\ phase \in {"pick", "multi"} /\ b = BInit /\ phase' = "multi"
           /\ Len(ms.at) + Len(ms.own) < 2 * MaxOps
           /\ \E op \in MOps : ((op.op = "new" /\ Len(ms.at) < 2) \/ (op.op # "new" /\ op.r \in DOMAIN ms.at)) /\ ms' = MApply(ms, op)
           /\ UNCHANGED <<cfg, h, b, cx>>

Next == PickCfg \/ PickHdr \/ PickCtx \/ MStepOp \/ \E i \in Callers : Step(i)
Spec == Init /\ [][Next]_vars /\ \A i \in Callers : WF_vars(Step(i))

InvPick      == phase = "checked" => PickAllowed(cfg, h, CodePick(cfg, h))
InvCtx       == phase = "ctx" => CtxAllowed(cx.op, cx.rt, CtxSeen(CodeCtx(cx.op, cx.rt), cx.op, cx.rt))
\* mutant (must violate): an operation context equal to context.Background() is treated as unset
BgUnset(op, rt) == IF op \notin {"nil", "background"} THEN "op" ELSE IF rt # "nil" THEN "rt" ELSE "none"
InvBgUnset   == phase = "ctx" => CtxAllowed(cx.op, cx.rt, CtxSeen(BgUnset(cx.op, cx.rt), cx.op, cx.rt))
InvIsolated  == Isolated(ms) /\ \A r \in DOMAIN ms.at, t \in DefaultTypes \cup {"x/unregistered"} : CodeMLookup(ms, r, t) = OwnLookup(ms, r, t)
InvBody      == \A d \in BOOLEAN, z \in BodySizes : BodyAllowed(d, z, CodeBodySeen(d, z))
InvStutter   == \A r, s \in BOOLEAN, z \in BodySizes : StutterBodySeen(r, s, z) = z
InvStutterEOF == \A r, s \in BOOLEAN, z \in BodySizes : StutterIsEOF(r, s, z) = z                            \* mutant: must violate
InvDebugCaps == \A d \in BOOLEAN, z \in BodySizes : BodyAllowed(d, z, DebugCapsBody(d, z))              \* mutant: must violate
InvStickyCtx == \A o \in BOOLEAN, c1, c2 \in BOOLEAN :                                                    \* mutant: must violate
                  StickyOpCtxSeen(o, [id |-> 1, cancelled |-> c1]) = OpCtxSeen(o, [id |-> 2, cancelled |-> c2])
InvWire      == phase = "ctx" => \A opc \in OpClientKinds, m, j \in BOOLEAN : WireAllowed(opc, m, j, WireSeen(CodeClient(opc), opc, m, j))
InvRetained  == RetainedIntact(b)
\* mutants (must violate)
InvVerbatimDefault == phase = "checked" => PickAllowed(cfg, h, VerbatimDefaultPick(cfg, h))
InvDefaultedWire   == phase = "ctx" => \A opc \in OpClientKinds, m, j \in BOOLEAN : WireAllowed(opc, m, j, DefaultedWireSeen(opc, m, j))
InvOwn       == OwnResponse(b)
InvOneClient == OneClient(b)
AllDone      == <>(\A i \in Callers : b.pc[i] = "done" \/ phase # "pick")

\* non-vacuity witnesses
NeverErr  == phase = "checked" => CodePick(cfg, h).kind # "err"
NeverStar == phase = "checked" => CodePick(cfg, h).id # STAR
\* mutants of the selection the property must reject (checked to be violated)
RawLookup(c, x) == IF x.form \in {"plain", "absent", "empty"} THEN CodePick(c, x)      \* lookup by the raw header value
                   ELSE IF c.star THEN [kind |-> "consumer", id |-> STAR, names_ct |-> FALSE, parse |-> FALSE]
                   ELSE [kind |-> "err", id |-> "", names_ct |-> TRUE, parse |-> FALSE]
InvRawLookup == phase = "checked" => PickAllowed(cfg, h, RawLookup(cfg, h))
=============================================================================
