---------------------------- MODULE MCClientResp ----------------------------
EXTENDS ClientResp

CONSTANTS Types

VARIABLES phase, cfg, h, b
vars == <<phase, cfg, h, b>>

Cfgs == { [reg |-> r, star |-> s, default |-> d] : r \in SUBSET Types, s \in BOOLEAN, d \in Types }
Hdrs == { [form |-> f, t |-> t] : f \in Forms, t \in Types }

Init == phase = "pick" /\ cfg = [reg |-> {}, star |-> FALSE, default |-> CHOOSE t \in Types : TRUE]
        /\ h = [form |-> "absent", t |-> CHOOSE t \in Types : TRUE] /\ b = BInit

PickCfg == phase = "pick" /\ \E x \in Cfgs : cfg' = x /\ phase' = "hdr" /\ UNCHANGED <<h, b>>
PickHdr == phase = "hdr" /\ \E x \in Hdrs : h' = x /\ phase' = "checked" /\ UNCHANGED <<cfg, b>>
\* part B runs from the initial phase as an independent branch
Step(i) == phase = "pick" /\ \E t \in BNext(b, i) : b' = t /\ UNCHANGED <<phase, cfg, h>>

Next == PickCfg \/ PickHdr \/ \E i \in Callers : Step(i)
Spec == Init /\ [][Next]_vars /\ \A i \in Callers : WF_vars(Step(i))

InvPick      == phase = "checked" => PickAllowed(cfg, h, CodePick(cfg, h))
InvOwn       == OwnResponse(b)
InvOneClient == OneClient(b)
AllDone      == <>(\A i \in Callers : b.pc[i] = "done" \/ phase # "pick")

\* non-vacuity witnesses
NeverErr  == phase = "checked" => CodePick(cfg, h).kind # "err"
NeverStar == phase = "checked" => CodePick(cfg, h).id # STAR
\* mutants of the selection the property must reject (checked to be violated)
RawLookup(c, x) == IF x.form \in {"plain", "absent", "empty"} THEN CodePick(c, x)      \* lookup by the raw header value
                   ELSE IF c.star THEN [kind |-> "consumer", id |-> STAR, names_ct |-> FALSE, parse |-> FALSE]
                   ELSE [kind |-> "err", id |-> "", names_ct |-> TRUE, parse |-> FALSE]
InvRawLookup == phase = "checked" => PickAllowed(cfg, h, RawLookup(cfg, h))
=============================================================================
