SPECIFICATION Spec
CONSTANTS
  Mutant = "none"
  Atoms = {97, 47, 37, 43, 32, 63, 35, 58, 42, 123, 125, 59, 38, 61, 46, 195, 9}
  MaxLen = 4
  MaxLenPath = 2
INVARIANTS ValuesAgree RoutingAgrees ResponseAgreesMC
CHECK_DEADLOCK FALSE
