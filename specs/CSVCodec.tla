------------------------------ MODULE CSVCodec ------------------------------
(***************************************************************************)
(* The CSV codec of go-openapi/runtime (csv.go, csv_options.go), C16.      *)
(*                                                                         *)
(* The input is abstract: what the reference parser (encoding/csv with the *)
(* same reader options) yields for the text -                              *)
(*   table  the records it returns before it stops                         *)
(*   bad    TRUE iff it stops with a parse error (malformed input), FALSE  *)
(*          iff it stops at end of input                                   *)
(* Parsing itself is NOT re-specified (trusted abstraction function).      *)
(*                                                                         *)
(* Faithful model, one operator per function of the code:                  *)
(*   PipeCSV, BufferedCSV (skipped lines, EOF handling, streaming vs       *)
(*   all-or-nothing), RecordsWriter (the in-memory container; ReuseRecord  *)
(*   aliasing), StoreRecords (reflect Grow/SetCap/SetLen/Copy into a       *)
(*   pre-populated *[][]string), Consume / Produce (kind dispatch).        *)
(* Property: Delivered = Drop(skip, table) for every kind (hence all kinds *)
(* agree), malformed => error, unsupported / nil / typed-nil => error,     *)
(* never a panic, delivered records never alias.                           *)
(***************************************************************************)
EXTENDS Integers, Sequences, FiniteSets

CONSTANTS SafeStore,        \* TRUE: a pre-populated *[][]string is replaced whatever its length (normative)
                            \* FALSE: as-built, reflect.SetCap panics when it holds more records than delivered (D11a)
          CopyOnReuse,      \* TRUE: records kept in memory are copied when ReuseRecord is on (normative)
                            \* FALSE: as-built, they all alias the reader's buffer (D11b)
          GuardTypedNil,    \* TRUE: typed-nil pointers yield an error; FALSE: as-built reflect panic (D11c)
          BinMarshalerOpts, \* TRUE: the reader options also apply to a BinaryMarshaler source (normative)
                            \* FALSE: as-built, that source is parsed with default options (D24)
          ClonesCapLimited, \* TRUE: a record copied because of ReuseRecord owns its backing array (the code)
                            \* FALSE: mutated model, copies are carved out of a shared chunk without a capacity limit
          ParseErrorWins,   \* TRUE: a malformed input is reported with the parser's error by every kind (normative)
                            \* FALSE: mutated / racy model, an io.WriterTo source that still has text to write
                            \*        reports its "closed pipe" error instead (D54)
          SharedSkipCounter,\* FALSE: every call skips the configured number of lines (the code: options by value)
                            \* TRUE: mutated model, the skip loop counts down the codec's own counter
          FreshStore,       \* TRUE: every Consume into a *[][]string stores a freshly made slice (the code)
                            \* FALSE: mutated model, a destination with enough capacity is resliced in place
          RewindsSeekable,  \* FALSE: a seekable source is read from where the caller left it (the code)
                            \* TRUE: mutated model, the payload is rewound to offset 0 first
          PipeClosedOnStop, \* TRUE: when the records stop being piped (error) the pipe fed by an io.WriterTo source is closed (the code)
                            \* FALSE: mutated model, it is left open: a WriteTo with a Write pending never returns, nor does Produce
          FlagsReset        \* TRUE: LazyQuotes / TrimLeadingSpace / ReuseRecord of a caller-supplied *csv.Reader are set
                            \*       to the option values, on or off (the code)
                            \* FALSE: mutated model, flags are only switched on: a stale flag survives

Drop(s, n) == IF n >= Len(s) THEN <<>> ELSE SubSeq(s, n + 1, Len(s))
Min(a, b) == IF a < b THEN a ELSE b

(***************************************************************************)
(* Reading: the sequence of results of csvReader.Read() is                 *)
(*   table[1] .. table[n], then (IF bad THEN error ELSE io.EOF).           *)
(* out = [err, recs]   recs: records handed to the CSV writer              *)
(***************************************************************************)
(* pipeCSV: skip loop (EOF => return nil, error => return it), then record *)
(* by record; records written before a parse error stay written.           *)
PipeCSV(table, bad, skip) ==
  IF skip > Len(table)
  THEN (IF bad THEN [err |-> "parse", recs |-> <<>>] ELSE [err |-> "none", recs |-> <<>>])
  ELSE [err |-> IF bad THEN "parse" ELSE "none", recs |-> Drop(table, skip)]

(* bufferedCSV: same skip loop, then ReadAll / WriteAll: all or nothing *)
BufferedCSV(table, bad, skip) ==
  IF bad THEN [err |-> "parse", recs |-> <<>>]
  ELSE [err |-> "none", recs |-> Drop(table, skip)]

(* csvRecordsWriter.Write keeps the slice it is given: with ReuseRecord    *)
(* every kept record is the reader's one buffer, i.e. shows the last       *)
(* record read                                                             *)
(* alias: changing one kept record - overwriting a field OR APPENDING to it  *)
(* - shows in another one                                                   *)
RecordsWriter(recs, reuse, lastRead) ==
  IF reuse /\ ~CopyOnReuse /\ Len(recs) >= 1
  THEN [recs |-> [i \in 1..Len(recs) |-> lastRead], alias |-> Len(recs) >= 2]
  ELSE IF reuse /\ ~ClonesCapLimited
  THEN [recs |-> recs, alias |-> Len(recs) >= 2]        \* neighbours in one chunk: append to row i overwrites row i+1
  ELSE [recs |-> recs, alias |-> FALSE]

(* v.Grow(n); v.SetCap(n); v.SetLen(n); reflect.Copy(v, records) *)
StoreRecords(preLen, recs) ==
  IF ~SafeStore /\ preLen > Len(recs) THEN [panic |-> TRUE, stored |-> <<>>]
  ELSE [panic |-> FALSE, stored |-> recs]

(***************************************************************************)
(* Configuration                                                           *)
(*   c = [dir, kind, table, bad, alt, skip, reuse, pre]                    *)
(*   dir   "consume": io.Reader -> destination kind                        *)
(*         "produce": source kind -> io.Writer                             *)
(*   alt   [table, bad]: what the parser yields with DEFAULT options       *)
(*         (= table/bad unless a reader option matters for this text)      *)
(*   pre   number of records a *[][]string destination already holds       *)
(* Outcome o = [err, delivered, alias, panic]                              *)
(***************************************************************************)
DstKinds == {"csvwriter", "customwriter", "writer", "readerfrom", "binunm", "precords", "pbytes", "pstring",
             "nilprecords", "nilpbytes", "nil", "value", "pint"}
DstSupported == {"csvwriter", "customwriter", "writer", "readerfrom", "binunm", "precords", "pbytes", "pstring"}
\* "seekbytes" / "seekstrings": a *bytes.Reader / *strings.Reader the caller has read a preamble from (offset > 0)
SrcKinds == {"csvreader", "customreader", "reader", "readcloser", "seekbytes", "seekstrings", "writerto", "binm", "records", "bytes", "string",
             "precords", "pbytes", "pstring", "nilprecords", "nilpstring", "nil", "int"}
SrcSupported == {"csvreader", "customreader", "reader", "readcloser", "seekbytes", "seekstrings", "writerto", "binm", "records", "bytes", "string",
                 "precords", "pbytes", "pstring"}
StreamingDst == {"csvwriter", "customwriter", "writer"}           \* pipeCSV straight into the destination
StreamingSrc == {"csvreader", "customreader", "reader", "readcloser", "seekbytes", "seekstrings", "writerto", "records", "precords"}

(* c.tail (optional): the malformed input goes on for more than the read buffers after the bad record *)
HasTail(c) == IF "tail" \in DOMAIN c THEN c.tail ELSE FALSE

Stale(c) == IF "stale" \in DOMAIN c THEN c.stale ELSE FALSE
Whole(c) == IF "whole" \in DOMAIN c THEN c.whole ELSE [table |-> c.table, bad |-> c.bad]
SameVar(c) == IF "samevar" \in DOMAIN c THEN c.samevar ELSE FALSE

(* o.hang (optional): the call did not return *)
Hang(o) == IF "hang" \in DOMAIN o THEN o.hang ELSE FALSE

Out(err, delivered, alias, panic) == [err |-> err, delivered |-> delivered, alias |-> alias, panic |-> panic]

LastRead(c) == IF c.table = <<>> THEN <<>> ELSE c.table[Len(c.table)]

Consume(c) ==
  CASE c.kind = "nil" -> Out("other", <<>>, FALSE, FALSE)
    [] c.kind \in StreamingDst ->
         LET r == PipeCSV(c.table, c.bad, c.skip) IN Out(r.err, r.recs, FALSE, FALSE)
    [] c.kind \in {"readerfrom", "binunm", "pbytes", "pstring"} ->
         LET r == BufferedCSV(c.table, c.bad, c.skip) IN Out(r.err, r.recs, FALSE, FALSE)
    [] c.kind = "value" -> Out("other", <<>>, FALSE, FALSE)              \* destination must be a pointer
    [] c.kind \in {"nilprecords", "nilpbytes"} ->
         IF GuardTypedNil THEN Out("other", <<>>, FALSE, FALSE) ELSE Out("none", <<>>, FALSE, TRUE)
    [] c.kind = "precords" ->
         LET r == PipeCSV(c.table, c.bad, c.skip) IN
         IF r.err # "none" THEN Out(r.err, <<>>, FALSE, FALSE)
         ELSE LET w == RecordsWriter(r.recs, c.reuse, LastRead(c))
                  s == StoreRecords(c.pre, w.recs)
              IN Out("none", s.stored, w.alias, s.panic)
    [] OTHER -> Out("other", <<>>, FALSE, FALSE)                          \* pint: not supported

Produce(c) ==
  CASE c.kind = "nil" -> Out("other", <<>>, FALSE, FALSE)
    [] c.kind \in {"customreader", "reader", "readcloser"} ->
         LET r == PipeCSV(c.table, c.bad, c.skip) IN Out(r.err, r.recs, FALSE, FALSE)
    [] c.kind = "csvreader" ->            \* applyToReader on the caller's reader: c.stale = it carries a flag the options do not
         LET t == IF Stale(c) /\ ~FlagsReset THEN c.alt ELSE [table |-> c.table, bad |-> c.bad]
             r == PipeCSV(t.table, t.bad, c.skip)
         IN Out(r.err, r.recs, FALSE, FALSE)
    [] c.kind \in {"seekbytes", "seekstrings"} ->   \* io.Reader at the caller's offset; c.whole = the parse from offset 0
         LET t == IF RewindsSeekable THEN Whole(c) ELSE [table |-> c.table, bad |-> c.bad]
             r == PipeCSV(t.table, t.bad, c.skip)
         IN Out(r.err, r.recs, FALSE, FALSE)
    [] c.kind = "writerto" ->             \* WriteTo feeds a pipe in a goroutine; the reading side's error is the result
         LET r == PipeCSV(c.table, c.bad, c.skip) IN
         [err |-> IF r.err = "parse" /\ HasTail(c) /\ ~ParseErrorWins THEN "other" ELSE r.err, delivered |-> r.recs,
          alias |-> FALSE, panic |-> FALSE, hang |-> r.err # "none" /\ HasTail(c) /\ ~PipeClosedOnStop]
    [] c.kind = "binm" ->                                                 \* csv.NewReader(buf): options not applied
         LET t == IF BinMarshalerOpts THEN [table |-> c.table, bad |-> c.bad] ELSE c.alt
             r == BufferedCSV(t.table, t.bad, c.skip)
         IN Out(r.err, r.recs, FALSE, FALSE)
    [] c.kind \in {"nilprecords", "nilpstring"} ->
         IF GuardTypedNil THEN Out("other", <<>>, FALSE, FALSE) ELSE Out("none", <<>>, FALSE, TRUE)
    [] c.kind \in {"records", "precords"} ->
         LET r == PipeCSV(c.table, FALSE, c.skip) IN Out(r.err, r.recs, FALSE, FALSE)
    [] c.kind \in {"bytes", "string", "pbytes", "pstring"} ->
         LET r == BufferedCSV(c.table, c.bad, c.skip) IN Out(r.err, r.recs, FALSE, FALSE)
    [] OTHER -> Out("other", <<>>, FALSE, FALSE)                          \* int: not supported

Model(c) == IF c.dir = "consume" THEN Consume(c) ELSE Produce(c)

(***************************************************************************)
(* The property.                                                           *)
(***************************************************************************)
Expected(c) == Drop(c.table, c.skip)

Supported(c) == IF c.dir = "consume" THEN c.kind \in DstSupported ELSE c.kind \in SrcSupported

Allowed(c, o) ==
  /\ ~o.panic
  /\ ~Hang(o)                                                \* every call returns
  /\ IF ~Supported(c) THEN o.err # "none"                     \* unsupported, nil, typed-nil, non-pointer: an error
     ELSE IF c.bad THEN o.err = "parse"                       \* the PARSER's error (every kind the same), not partial success
     ELSE /\ o.err = "none"
          /\ o.delivered = Expected(c)                        \* same count, order, field text - for every kind
          /\ ~o.alias                                         \* delivered records are distinct objects

WhyNot(c, o) ==
  IF o.panic THEN "panic"
  ELSE IF Hang(o) THEN "call-did-not-return"
  ELSE IF ~Supported(c) THEN "unsupported-kind-accepted"
  ELSE IF c.bad THEN (IF o.err = "none" THEN "malformed-input-accepted" ELSE "not-the-parsers-error")
  ELSE IF o.err # "none" THEN "unexpected-error"
  ELSE IF o.delivered # Expected(c) THEN "records-differ"
  ELSE "records-alias"
(***************************************************************************)
(* Stress family: the SAME call repeated c.stress.calls times, from        *)
(* several goroutines (the WriterTo branch runs two goroutines per call;   *)
(* which of them reports first must not matter).  One aggregated           *)
(* observation o = [calls, parse, other, none]: how many calls returned    *)
(* the parser's error, another error, no error.  The statement holds for   *)
(* every single call, so for a malformed input all of them return the      *)
(* parser's error.                                                         *)
(***************************************************************************)
StressModel(c, n) ==
  LET o == Model(c) IN
  [hang |-> Hang(o), calls |-> n, parse |-> IF o.err = "parse" THEN n ELSE 0,
   none |-> IF o.err = "none" THEN n ELSE 0, other |-> IF o.err \notin {"parse", "none"} THEN n ELSE 0]

StressAllowed(c, n, o) ==
  /\ ~Hang(o)
  /\ o.calls = n
  /\ c.bad => (o.parse = n /\ o.other = 0 /\ o.none = 0)
  /\ (~c.bad /\ Supported(c)) => (o.none = n /\ o.other = 0 /\ o.parse = 0)

(***************************************************************************)
(* Reuse of ONE codec value for several calls (state machine).  The        *)
(* options belong to the codec; every call must behave like the first.     *)
(*   c.calls = <<[table, bad], ...>>   the inputs of the successive calls   *)
(* The only state a call could leave behind is the skipped-lines counter:  *)
(* the loop  for ; skip > 0; skip-- { Read; on EOF/error return }  leaves   *)
(* skip - n (n = records read) when it runs into the end.                  *)
(***************************************************************************)
CallCfg(c, i) == [c EXCEPT !.table = c.calls[i].table, !.bad = c.calls[i].bad]

LeftAfter(table, skip) == IF skip > Len(table) THEN skip - Len(table) ELSE 0

(* c.samevar: every call stores into the SAME *[][]string variable while the *)
(* caller keeps the table each earlier call delivered (a slice header).    *)
(*   vs = [held, arr, cap, next]: held[j] = [arr, tab] what the header kept *)
(*   after call j shows now; arr/cap: the variable's current array         *)
OverlayTab(old, new) == [k \in 1..Len(old) |-> IF k <= Len(new) THEN new[k] ELSE old[k]]
VsInit == [held |-> <<>>, arr |-> 0, cap |-> 0, next |-> 1]
StoreInVar(vs, recs) ==
  IF ~FreshStore /\ vs.cap >= Len(recs) /\ vs.arr # 0
  THEN [vs EXCEPT !.held = Append([j \in 1..Len(vs.held) |->
                                      IF vs.held[j].arr = vs.arr THEN [vs.held[j] EXCEPT !.tab = OverlayTab(@, recs)] ELSE vs.held[j]],
                                   [arr |-> vs.arr, tab |-> recs])]
  ELSE [held |-> Append(vs.held, [arr |-> vs.next, tab |-> recs]), arr |-> vs.next, cap |-> Len(recs), next |-> vs.next + 1]

RECURSIVE RunCalls(_, _, _, _)
RunCalls(c, i, skipNow, vs) ==
  IF i > Len(c.calls) THEN <<>>
  ELSE LET ci == [CallCfg(c, i) EXCEPT !.skip = skipNow]
           nx == IF SharedSkipCounter /\ Supported(c) THEN LeftAfter(ci.table, skipNow) ELSE c.skip
           o  == Model(ci)
           stores == SameVar(c) /\ o.err = "none" /\ ~o.panic
           vs2 == IF stores THEN StoreInVar(vs, o.delivered) ELSE vs
           ret == [j \in 1..Len(vs.held) |-> vs2.held[j].tab]        \* what the EARLIER headers show after this call
       IN <<[err |-> o.err, delivered |-> o.delivered, alias |-> o.alias, panic |-> o.panic, retained |-> ret]>>
          \o RunCalls(c, i + 1, nx, vs2)

ReuseModel(c) == RunCalls(c, 1, c.skip, VsInit)

(* what the caller kept from call j is still what call j delivered *)
RetainedOK(c, i, retained) ==
  SameVar(c) => retained = [j \in 1..(i - 1) |-> Expected(CallCfg(c, j))]

ReuseAllowed(c, outs) ==
  \A i \in 1..Len(c.calls) : Allowed(CallCfg(c, i), outs[i]) /\ RetainedOK(c, i, outs[i].retained)
=============================================================================
