---------------------------- MODULE MCTLSOptions ----------------------------
(* Exhaustive check over the full option lattice: Config |= ConfigAllowed,  *)
(* and security facts of the handshake sub-model.  Options are chosen slot  *)
(* by slot in Next.                                                         *)
EXTENDS TLSOptions

CONSTANT Mutant    \* "none" | a named mutation of Config the property must reject

VARIABLES o, stage
vars == <<o, stage>>

O0 == [certFile |-> "none", certLoaded |-> "none", keyFile |-> "none", keyLoaded |-> "none", caFile |-> "none",
       caLoaded |-> "none", caPool |-> "none", serverName |-> "none", insecure |-> FALSE, callback |-> FALSE,
       ticketsDisabled |-> FALSE, cache |-> FALSE]

Init == o = O0 /\ stage = 0

Next ==
  /\ stage' = stage + 1
  /\ CASE stage = 0 -> \E a \in CertFiles, b \in CertLoadeds : o' = [o EXCEPT !.certFile = a, !.certLoaded = b]
       [] stage = 1 -> \E a \in KeyFiles, b \in KeyLoadeds : o' = [o EXCEPT !.keyFile = a, !.keyLoaded = b]
       [] stage = 2 -> \E a \in CAFiles, b \in CALoadeds, p \in CAPools : o' = [o EXCEPT !.caFile = a, !.caLoaded = b, !.caPool = p]
       [] stage = 3 -> \E a \in ServerNames, b \in BOOLEAN : o' = [o EXCEPT !.serverName = a, !.insecure = b]
       [] stage = 4 -> \E a, b, d \in BOOLEAN : o' = [o EXCEPT !.callback = a, !.ticketsDisabled = b, !.cache = d]
       [] OTHER -> FALSE

Spec == Init /\ [][Next]_vars

Cfg(x) ==
  LET c == Config(x) IN
  CASE Mutant = "none" -> c
    [] Mutant = "skipverify-not-forced-off" -> IF c.err = "" THEN [c EXCEPT !.skipVerify = x.insecure] ELSE c
    [] Mutant = "ip-servername-dropped" -> IF c.err = "" /\ x.serverName \in {"ipv4", "ipv6"}
                                           THEN [c EXCEPT !.serverName = "none", !.skipVerify = x.insecure] ELSE c
    [] Mutant = "reuse-retunes-session" -> IF c.err = "" THEN [c EXCEPT !.tickets = FALSE, !.cache = TRUE] ELSE c
    [] Mutant = "empty-pool-is-absent" -> IF c.err = "" /\ x.caPool = "empty" /\ x.caLoaded = "none" /\ x.caFile = "none"
                                          THEN [c EXCEPT !.system = TRUE] ELSE c
    [] Mutant = "system-mixed-in" -> IF c.err = "" /\ ~c.system /\ x.caPool = "none" THEN [c EXCEPT !.system = TRUE] ELSE c
    [] Mutant = "key-error-swallowed" -> IF c.err \in {"cert", "key"} THEN [Config([x EXCEPT !.certFile = "none", !.certLoaded = "none"]) EXCEPT !.err = ""] ELSE c
    [] Mutant = "loaded-cert-ignored" -> IF x.certFile = "none" THEN Config([x EXCEPT !.certLoaded = "none"]) ELSE c
    [] OTHER -> c

Done == stage = 5
PropertyHolds == Done => ConfigAllowed(o, Cfg(o))

\* security consequences on the handshake sub-model
NoSilentSkip  == Done /\ o.serverName # "none" => \A n \in DOMAIN Servers : HandshakeOK(Cfg(o), Servers[n]) => Servers[n].nameOK /\ Servers[n].issuer \in SuppliedRoots(o)
UntrustedCA   == Done /\ ~o.insecure => \A n \in DOMAIN Servers : HandshakeOK(Cfg(o), Servers[n]) => Servers[n].issuer \in SuppliedRoots(o)
NeverOldTLS   == Done => ~HandshakeOK(Cfg(o), Servers["E"])
CertPresented == Done /\ HandshakeOK(Cfg(o), Servers["D"]) => Presented(Cfg(o), Servers["D"]) = CertSlot(o) /\ CertSlot(o) # "none"

\* a later handshake presents what was configured, whatever happened to the files since
StableIdentity == Done => \A m \in FileMutations : PresentedAfter(Cfg(o), Servers["D"], m) = Presented(Cfg(o), Servers["D"])
RereadMutant   == Done => \A m \in FileMutations :           \* must be violated
                    RereadPresented(Cfg(o), Servers["D"], o.certFile # "none", m) = Presented(Cfg(o), Servers["D"])

\* non-vacuity witnesses (violated)
NeverErr  == Done => Config(o).err = ""
NeverSkip == Done => ~Config(o).skipVerify
NeverHS   == Done => ~HandshakeOK(Config(o), Servers["D"])
=============================================================================
