SPECIFICATION Spec
CONSTANTS
  RestoresOp = TRUE
  ClientStatusRule = TRUE
  CopiesOpts = FALSE
  SharedSpanVar = FALSE
  MaxCalls = 1
  Statuses = {200, 404}
  Unassigned = {}
  NCallers = 2
  ConcCtxs = {"span"}
  ConcEnds = {"ok"}
  ConcStatuses = {200}
INVARIANTS InvProp

CHECK_DEADLOCK FALSE
