SPECIFICATION Spec
CONSTANTS
  NCallers = 3
  RecyclesWrappers = FALSE
  SharedDefaults = FALSE
  SharedCloser = FALSE
  OnceIsNilCheck = FALSE
  Ns = {2, 3}
CHECK_DEADLOCK FALSE
