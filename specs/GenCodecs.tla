----------------------------- MODULE GenCodecs -----------------------------
(* Case export for C15 (TG).                                                *)
(*  Part A: every consumer / producer configuration of MCCodecs (the same   *)
(*          space TLC model-checks) - replayed by driver c15 on the real    *)
(*          codecs with instrumented streams.                               *)
(*  Part B: the value grammar for the round trip Consume_c(Produce_c(v)),   *)
(*          per codec, x how the produced document is fed back (chunk size, *)
(*          zero-length reads, data+EOF) x cut (document truncated and      *)
(*          followed by a read error).                                      *)
(* One JSON document per line, wrapped in a JSON string (CSVWrite appends). *)
EXTENDS MCCodecs, Json, IOUtils, CSV

CONSTANT Depth2        \* BOOLEAN: also nest lists/maps one level deeper (thorough)

Null      == V("null", <<>>, <<>>, <<>>)
Bool(b)   == V("bool", IF b THEN <<1>> ELSE <<0>>, <<>>, <<>>)
Num(tok)  == V("num", tok, <<>>, <<>>)
Str(s)    == V("str", s, <<>>, <<>>)
List(ks)  == V("list", <<>>, ks, <<>>)
Map(keys, ks) == V("map", <<>>, ks, keys)
Struct(ks) == V("struct", <<>>, ks, <<>>)

(* string classes: empty, ascii, quote, '<', '&', backslash, newline,       *)
(* non-ASCII (2 and 3 byte UTF-8, U+2028), mixed                            *)
ValidStrings == { <<>>, <<97>>, <<34>>, <<60>>, <<38>>, <<92>>, <<10>>, <<32, 97, 32>>, <<195, 169>>, <<226, 130, 172>>,
                  <<226, 128, 168>>, <<97, 60, 38, 34, 195, 169, 62>>, <<60, 47, 97, 62>> }
(* bytes that are not text: invalid UTF-8, NUL - byte codecs only *)
BinaryStrings == { <<255, 254>>, <<0>>, <<97, 0, 255>>, <<195>> }
(* look like other YAML scalars / syntax *)
TrickyStrings == { <<116, 114, 117, 101>>, <<49, 50, 51>>, <<110, 117, 108, 108>>, <<126>>, <<97, 58, 32, 98>>,
                   <<45, 32, 120>>, <<35, 99>>, <<49, 46, 53>>, <<39>> }

(* number tokens: 0, -1, 12, 1.5, 1e3, -0, huge integer, high precision, beyond float64 range *)
SmallInts == { <<48>>, <<45, 49>>, <<49, 50>> }
JsonNums  == SmallInts \cup
             { <<49, 46, 53>>, <<49, 101, 51>>, <<45, 48>>,
               <<49,50,51,52,53,54,55,56,57,48,49,50,51,52,53,54,55,56,57,48,49,50,51,52,53,54,55,56,57,48>>,
               <<48,46,49,50,51,52,53,54,55,56,57,48,49,50,51,52,53,54,55,56,57,48,49,50,51,52,53>>,
               <<49, 69, 52, 48, 48>>,
               <<57,48,48,55,49,57,57,50,53,52,55,52,48,57,57,51>> }    \* 2^53+1

JsonAtoms == {Null, Bool(TRUE), Bool(FALSE)} \cup { Num(n) : n \in JsonNums } \cup { Str(s) : s \in ValidStrings }
YamlAtoms == {Null, Bool(TRUE), Bool(FALSE)} \cup { Num(n) : n \in SmallInts } \cup { Str(s) : s \in ValidStrings \cup TrickyStrings }

FewAtoms(atoms) == { a \in atoms : a.t # "str" \/ a.s \in { <<>>, <<97>>, <<60>>, <<195, 169>>, <<116, 114, 117, 101>> } }

KeyPairs == { << <<107>> >>, << <<>> >>, << <<60>>, <<107>> >>, << <<107>>, <<195, 169>> >> }   \* sorted by bytes

Composites1(atoms) ==
  LET few == FewAtoms(atoms) IN
  { List(<<>>), Map(<<>>, <<>>) }
  \cup { List(<<a>>) : a \in atoms }
  \cup { List(<<a, b>>) : a \in few, b \in few }
  \cup { Map(ks, <<a>>) : ks \in { k \in KeyPairs : Len(k) = 1 }, a \in atoms }
  \cup { Map(ks, <<a, b>>) : ks \in { k \in KeyPairs : Len(k) = 2 }, a \in few, b \in few }

Composites2(atoms) ==
  LET inner == { List(<<>>), List(<<Str(<<97>>)>>), Map(<<>>, <<>>), Map(<< <<107>> >>, <<Num(<<49, 50>>)>>),
                 Map(<< <<107>> >>, <<Null>>), List(<<Null, Bool(TRUE)>>) }
  IN { List(<<x>>) : x \in inner } \cup { List(<<x, y>>) : x \in inner, y \in inner }
     \cup { Map(<< <<107>> >>, <<x>>) : x \in inner } \cup { Map(<< <<60>>, <<107>> >>, <<x, y>>) : x \in inner, y \in inner }

AnyValues(atoms) == atoms \cup Composites1(atoms) \cup (IF Depth2 THEN Composites2(atoms) ELSE {})

(* JSON struct  S{A string; N json.Number; L []string; P *Inner{X string} (omitempty); B bool}  *)
JsonStructs ==
  { Struct(<<Str(a), Num(n), List(l), p, Bool(b)>>) :
      a \in { <<>>, <<97>>, <<97, 60, 38, 34, 195, 169, 62>> },
      n \in { <<48>>, <<49, 46, 53>>, <<49,50,51,52,53,54,55,56,57,48,49,50,51,52,53,54,55,56,57,48,49,50,51,52,53,54,55,56,57,48>> },
      l \in { <<>>, <<Str(<<>>)>>, <<Str(<<97>>), Str(<<60>>)>> },
      p \in { Null, Struct(<<Str(<<>>)>>), Struct(<<Str(<<38>>)>>) },
      b \in BOOLEAN }

(* XML struct  X{A string `xml:"a"`; B int `xml:"b,attr"`; C []string `xml:"c"`; D *Inner{E string `xml:"e"`}}  *)
XmlStructs ==
  { Struct(<<Str(a), Num(n), List(l), p>>) :
      a \in ValidStrings,
      n \in SmallInts,
      l \in { <<>>, <<Str(<<>>)>>, <<Str(<<97>>), Str(<<60, 38, 34>>)>> },
      p \in { Null, Struct(<<Str(<<>>)>>), Struct(<<Str(<<38, 195, 169>>)>>) } }

(* typed JSON destinations with interface{} positions:                       *)
(*   anystruct  S{V interface{}; M map[string]interface{}; L []interface{}}  *)
(*   namedmap   type M map[string]interface{}                                *)
(*   namedlist  type L []interface{}                                         *)
(* carrying the number tokens float64 cannot hold                            *)
BigNums == { <<49, 50>>,
             <<57,48,48,55,49,57,57,50,53,52,55,52,48,57,57,51>>,                        \* 2^53+1
             <<49,56,52,52,54,55,52,52,48,55,51,55,48,57,53,53,49,54,49,53>>,            \* max uint64
             <<48,46,49,50,51,52,53,54,55,56,57,48,49,50,51,52,53,54,55,56,57,48,49,50,51,52,53>>,
             <<49,50,51,52,53,54,55,56,57,48,49,50,51,52,53,54,55,56,57,48,49,50,51,52,53,54,55,56,57,48>> }
TypedPos == { Num(n) : n \in BigNums } \cup { Null, Str(<<97>>) }
JsonTyped ==
  { V("anystruct", <<>>, <<a, Map(<< <<107>> >>, <<b>>), List(<<c>>)>>, <<>>) : a \in TypedPos, b \in TypedPos, c \in TypedPos }
  \cup { V("anystruct", <<>>, <<List(<<a>>), Map(<<>>, <<>>), List(<<>>)>>, <<>>) : a \in TypedPos }
  \cup { V("namedmap", <<>>, <<a>>, << <<107>> >>) : a \in TypedPos }
  \cup { V("namedmap", <<>>, <<a, List(<<b>>)>>, << <<60>>, <<107>> >>) : a \in TypedPos, b \in TypedPos }
  \cup { V("namedlist", <<>>, <<a, b>>, <<>>) : a \in TypedPos, b \in TypedPos }

(* XML documents whose elements are named like HTML void elements:          *)
(*   feed      <entry><title/><link/><meta/><img src=""><alt/></img><after/><br/>*</entry> *)
(*   voidroot  <br><t/></br>                                                 *)
(* with text after them (siblings) and text that looks like an HTML entity   *)
FeedTexts == { <<>>, <<97>>, <<38, 110, 98, 115, 112, 59>>, <<97, 60, 38, 34, 195, 169, 62>> }   \* "", a, &nbsp; , mixed
XmlFeeds ==
  { V("feed", <<>>, <<Str(<<116>>), Str(l), Str(m), img, Str(af), List(br)>>, <<>>) :
      l \in FeedTexts, m \in { <<>>, <<109>> }, img \in { Null, Struct(<<Str(<<115>>), Str(<<97>>)>>) },
      af \in { <<97, 102>>, <<38, 110, 98, 115, 112, 59>> },
      br \in { <<>>, <<Str(<<97>>)>>, <<Str(<<97>>), Str(<<98>>)>> } }
  \cup { V("voidroot", <<>>, <<Str(t)>>, <<>>) : t \in FeedTexts }

RTValues(codec) ==
  CASE codec = "json"  -> AnyValues(JsonAtoms) \cup JsonStructs \cup JsonTyped
    [] codec = "yaml"  -> AnyValues(YamlAtoms)
    [] codec = "xml"   -> XmlStructs \cup XmlFeeds
    [] codec = "text"  -> { Str(s) : s \in ValidStrings \cup BinaryStrings \cup TrickyStrings }
                          \* payloads that are TextMarshaler AND Stringer with different renderings: "dual" (harness type),
                          \* "time" (time.Time, s = its RFC 3339 text)
                          \cup { V("dual", s, <<>>, <<>>) : s \in { <<97>>, <<97, 32, 98>>, <<195, 169>>, <<49, 50, 51>> } }
                          \cup { V("time", s, <<>>, <<>>) : s \in { <<50,48,50,48,45,48,49,45,48,50,84,48,51,58,48,52,58,48,53,90>>,
                                                                     <<49,57,57,57,45,49,50,45,51,49,84,50,51,58,53,57,58,53,57,46,53,43,48,50,58,48,48>> } }
    [] codec = "bytes" -> { Str(s) : s \in ValidStrings \cup BinaryStrings }

(* how the produced document is read back: chunk size (0 = all at once),    *)
(* zero-length reads in between, EOF together with the last chunk; cut: the *)
(* document is cut at cutAt (0 = start, 1 = middle, 2 = two bytes before    *)
(* the end) and followed by a read error; wcut: the producer's writer fails  *)
Feeds == [chunk : {0, 1, 7}, zr : BOOLEAN, withData : BOOLEAN]
RTCfgs(codec) ==
  { [codec |-> codec, v |-> v, chunk |-> f.chunk, zr |-> f.zr, withData |-> f.withData, cut |-> FALSE, cutAt |-> 0, wcut |-> 0, ekind |-> "none"] :
      v \in RTValues(codec), f \in { g \in Feeds : (g.zr => g.chunk = 1) } }
  \cup
  { [codec |-> codec, v |-> v, chunk |-> ch, zr |-> FALSE, withData |-> FALSE, cut |-> TRUE, cutAt |-> at, wcut |-> 0, ekind |-> ek] :
      v \in RTValues(codec), ch \in {0, 1}, at \in {0, 1, 2},
      ek \in (IF codec \in {"text", "bytes"} THEN ErrKinds ELSE {"custom", "ueof"}) }
  \cup  \* the producer's writer fails after 0 bytes / half / all but one byte of the document
  { [codec |-> codec, v |-> v, chunk |-> 0, zr |-> FALSE, withData |-> FALSE, cut |-> FALSE, cutAt |-> 0, wcut |-> w, ekind |-> "none"] :
      v \in RTValues(codec), w \in {1, 2, 3} }

PickRT(codec) == \E r \in RTCfgs(codec) : kind' = "rt" /\ cfg' = r /\ out' = <<>>

Export == CSVWrite("%1$s", <<ToJson([kind |-> kind', cfg |-> cfg'])>>, IOEnv.OUT_FILE)

GNext ==
  \/ Next /\ ((kind' \in {"consume", "produce"} \/ (kind' = "seq" /\ Len(cfg'.hist) >= 2)) => Export)
  \/ /\ kind = "none"
     /\ (PickRT("json") \/ PickRT("yaml") \/ PickRT("xml") \/ PickRT("text") \/ PickRT("bytes"))
     /\ Export

GSpec == Init /\ [][GNext]_vars
=============================================================================
