SPECIFICATION Spec
CONSTANTS
  Mutant = "formfromquery"
  PathAtoms = {97, 98, 47, 37}
  BodyAtoms = {97, 34, 92}
  MaxLenName = 1
  MaxLenBody = 0
  MaxSteps = 1
  MaxUpload = 6
  SniffLen = 2
INVARIANT FormAgreesMC
CHECK_DEADLOCK FALSE
