--------------------------- MODULE TraceRoundTrip ---------------------------
(* Trace validation of client.Runtime -> httptest.Server(middleware.Serve)   *)
(* against C04.                                                              *)
(* case  : API description, the call, the response the handler is to return  *)
(* event : exchange {op, supplied:[{name, loc, kind, vs}], err, handled_op,  *)
(*         received:[{name, vs}], handler:{code, hdrs, body}, seen:{code,    *)
(*         hdrs, body}, wire_path, wire_query, setup}                        *)
(* The scope of the guarantee (non-empty, non-dot path values; transportable *)
(* header values; final non-redirect statuses) is decided by the spec.       *)
EXTENDS RoundTrip, Json, IOUtils

VARIABLES l, st, skipping, fails, cs

XInit(e) == [op |-> e.op]

Call(e) == [op |-> e.op, params |-> e.supplied]
Obs(e)  == [err |-> e.err, handled_op |-> e.handled_op, received |-> e.received, handler |-> e.handler, seen |-> e.seen]

XAllowed(s, e) ==
  CASE e.ev = "exchange" -> e.setup /\ ExchangeOK(Call(e), Obs(e))
    [] OTHER -> FALSE

XWhy(s, e) ==
  CASE e.ev = "exchange" -> IF ~e.setup THEN "api-not-built" ELSE WhyExchange(Call(e), Obs(e))
    [] OTHER -> "unknown-event"

XStep(s, e) == s

TheTrace == ndJsonDeserialize(IOEnv.TRACE_FILE)
TC == INSTANCE TraceCommon WITH TInit <- XInit, TAllowed <- XAllowed, TStep <- XStep,
                                TWhy <- XWhy, TStateful <- FALSE, Trace <- TheTrace
Spec == TC!Spec
=============================================================================
