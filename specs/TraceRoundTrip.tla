--------------------------- MODULE TraceRoundTrip ---------------------------
(* Trace validation of client.Runtime -> httptest.Server(middleware.Serve)   *)
(* against C04.                                                              *)
(* case  : API description and a SESSION: the calls made one after the other  *)
(*         through one client.Runtime to one server (a single call on a      *)
(*         long-lived shared server, or several on a server built for the    *)
(*         case), each with the response the handler is to return; or a      *)
(*         BATCH of calls of one operation made concurrently (conc goroutines *)
(*         at a time), whose events are emitted in call order.  The Runtime   *)
(*         may have static query parameters in its base path, connection     *)
(*         re-use enabled; handlers may deliver the body in pieces; upload   *)
(*         sources may fail.  Other Runtimes of the process may be created   *)
(*         and customised meanwhile (event customise {when, step, what}).    *)
(* event : exchange {step, op, media, supplied:[{name, loc, kind, vs, off}], *)
(*         err, handled_op, received:[{name, vs}], handler:{code, hdrs,      *)
(*         body}, seen:{code, hdrs, body}, wire_path, wire_query, setup}     *)
(* The model state of a session is what a correct client and server may      *)
(* remember between exchanges: the configuration (here: the declared steps)  *)
(* and nothing else - every exchange, whatever came before it, must satisfy  *)
(* C04 on its own.                                                           *)
(* The scope of the guarantee (non-empty, non-dot path values; transportable *)
(* header values; final non-redirect statuses; non-empty text bodies) is     *)
(* decided by the spec.                                                      *)
EXTENDS RoundTrip, Json, IOUtils

CONSTANT StrictEmptyForm    \* FALSE: named deviation EmptyFormCallRefused (open finding candidate, see notes/C04.md round 5) - a call of an
                            \* operation consuming a form media type that supplies NO form field and no file is outside the guarantee:
                            \* the client then sends neither body nor Content-Type and the server's formData binder answers 415

VARIABLES l, st, skipping, fails, cs

EmptyFormCall(e) == /\ e.media \in {"urlencoded", "multipart"}
                    /\ \A i \in 1..Len(e.supplied) : e.supplied[i].loc \notin {"urlform", "multiform", "file"}

\* the declared calls: listed (steps), or - concurrent batches - batch.count calls of batch.op, call i with values of its own
\* (case "race", appended by the runner: the race detector observed the whole run; its report count)
XInit(e) == IF e.kind = "race" THEN [ops |-> <<>>, bop |-> "race", bn |-> 0]
            ELSE [ops |-> [i \in 1..Len(e.steps) |-> e.steps[i].op], bop |-> e.batch.op, bn |-> e.batch.count]

Declared(s, e) == IF s.bn > 0 THEN e.step \in 1..s.bn /\ e.op = s.bop
                  ELSE e.step \in 1..Len(s.ops) /\ s.ops[e.step] = e.op

Call(e) == [op |-> e.op, media |-> e.media, params |-> e.supplied]
Obs(e)  == [err |-> e.err, handled_op |-> e.handled_op, invoked |-> e.invoked, received |-> e.received, handler |-> e.handler, seen |-> e.seen]

XAllowed(s, e) ==
  CASE e.ev = "exchange" -> /\ e.setup
                            /\ Declared(s, e)                                        \* the exchange is the declared step
                            /\ (EmptyFormCall(e) /\ ~StrictEmptyForm) \/ ExchangeOK(Call(e), Obs(e))
    \* a call of a long concurrent batch, recorded by the projection of its exchange to what identifies it: every value it
    \* supplied ends in its tag (sent); handler invocations are filed under the call whose tag their values carry; the handler
    \* echoes the tag of the call it was invoked for in a response header.  C04: that operation's handler is invoked, once,
    \* with this call's values, and its answer reaches this caller.
    [] e.ev = "call" -> /\ s.bn > 0 /\ Declared(s, e)
                        /\ ~e.err /\ e.handled_op = e.op /\ e.invoked = 1 /\ e.echoed = << e.sent >>
    \* the application created ANOTHER Runtime and customised its codec tables: no concern of this session's Runtime,
    \* whose configuration (the state) is unchanged - the exchanges that follow are judged as before
    [] e.ev = "customise" -> TRUE
    [] e.ev = "race" -> s.bop = "race" /\ e.reports = 0       \* no data race among concurrent exchanges (or anywhere else)
    [] OTHER -> FALSE

XWhy(s, e) ==
  CASE e.ev = "exchange" -> IF ~e.setup THEN "api-not-built"
                            ELSE IF ~Declared(s, e) THEN "not-the-declared-step"
                            ELSE IF s.bn > 0 THEN WhyExchange(Call(e), Obs(e)) \o "/concurrent"
                            ELSE IF e.step > 1 THEN WhyExchange(Call(e), Obs(e)) \o "/after-history"
                            ELSE WhyExchange(Call(e), Obs(e))
    [] e.ev = "call" -> IF ~Declared(s, e) THEN "not-the-declared-step" ELSE IF e.err THEN "client-error/concurrent"
                        ELSE IF e.handled_op # e.op THEN "other-operation-or-none-invoked/concurrent"
                        ELSE IF e.invoked # 1 THEN "handler-not-invoked-exactly-once/concurrent"
                        ELSE "answer-of-another-call/concurrent"
    [] e.ev = "race" -> "data-race-reported"
    [] OTHER -> "unknown-event"

XStep(s, e) == s

TheTrace == ndJsonDeserialize(IOEnv.TRACE_FILE)
TC == INSTANCE TraceCommon WITH TInit <- XInit, TAllowed <- XAllowed, TStep <- XStep,
                                TWhy <- XWhy, TStateful <- FALSE, Trace <- TheTrace
Spec == TC!Spec
=============================================================================
