------------------------------- MODULE DocsMW -------------------------------
(***************************************************************************)
(* C20 - the spec and documentation-UI middlewares (middleware/spec.go,     *)
(* ui_options.go, redoc.go, rapidoc.go, swaggerui.go, swaggerui_oauth2.go)  *)
(* and their composition by Context.APIHandler / APIHandlerSwaggerUI /      *)
(* APIHandlerRapiDoc (middleware/context.go uiOptionsForHandler).           *)
(*                                                                         *)
(* Part 1  bytes: path.Clean (general), path.Join, path.Split, escapers     *)
(* Part 2  configurations                                                   *)
(* Part 3  FAITHFUL: option defaulting, document paths, handler chain,      *)
(*         page rendering (html/template contexts; text/template = none)    *)
(* Part 4  DECLARATIVE property: who answers a request, what the answer is, *)
(*         what the next handler sees, page slots, spec-location agreement  *)
(*                                                                         *)
(* A byte string is a sequence of 0..255.                                   *)
(* cfg = [kind     : "spec" | "redoc" | "rapidoc" | "swaggerui" | "oauth2"  *)
(*                   | "api-redoc" | "api-swaggerui" | "api-rapidoc",       *)
(*        base     : bytes   Spec: basePath argument; UI: opts.BasePath;    *)
(*                           api-*: the description's basePath              *)
(*        path     : bytes   Spec: WithSpecPath; UI: opts.Path;             *)
(*                           api-*: WithUIPath ("" = not given)             *)
(*        doc      : bytes   Spec: WithSpecDocument ("" = not given)        *)
(*        specurl  : [kind : "default" | "abspath" | "absurl" | "relative", *)
(*                    dirs : Seq(bytes), doc : bytes, host, query : bytes,  *)
(*                    enc : BOOLEAN]   dirs/doc are the DECODED segments;   *)
(*                           enc: the text given to WithUISpecURL spells     *)
(*                           space and non-ASCII bytes percent-encoded       *)
(*                           the UI's SpecURL option, structured            *)
(*        oauthurl : bytes   SwaggerUIOpts.OAuthCallbackURL ("" = derived)  *)
(*        hasnext  : BOOLEAN a next handler is installed (standalone kinds) *)
(*        custom   : BOOLEAN a custom Template is given                     *)
(*        ops      : Seq(bytes)  api-*: literal templates of GET operations *)
(*        slots    : Seq([name : STRING, payload : bytes])  option values   *)
(*                           the driver set (Title, SpecURL, asset URLs)    *)
(*        specsha  : Seq(Int) digest of the spec bytes]                     *)
(***************************************************************************)
EXTENDS Naturals, Sequences, FiniteSets, TLC

CONSTANT OAuthEscapes  \* TRUE (normative): the OAuth2 callback page is rendered with html/template
                       \* FALSE (as built, finding D13): text/template, nothing is escaped
CONSTANT SpecRouteEscaped \* FALSE (the code): uiOptionsForHandler takes the decoded url.Parse(SpecURL).Path
                          \* TRUE: a mutant taking EscapedPath() - kept to show that TLC finds a violation

SLASH == 47  DOT == 46  PCT == 37  AMP == 38  BSL == 92

Rng(s) == {s[i] : i \in DOMAIN s}
DropN(s, n) == SubSeq(s, n + 1, Len(s))
TakeN(s, n) == SubSeq(s, 1, n)

Docs       == <<100,111,99,115>>                                      \* "docs"
SwaggerDoc == <<115,119,97,103,103,101,114,46,106,115,111,110>>       \* "swagger.json"
OAuthCb    == <<111,97,117,116,104,50,45,99,97,108,108,98,97,99,107>> \* "oauth2-callback"

(***************************************************************************)
(* Part 1 - paths                                                          *)
(***************************************************************************)
RECURSIVE SegLen(_)
SegLen(s) == IF s = <<>> \/ Head(s) = SLASH THEN 0 ELSE 1 + SegLen(Tail(s))

RECURSIVE SplitAll(_)
SplitAll(p) ==      \* split on '/': "a//b/" -> <<a, <<>>, b, <<>>>>
  LET n == SegLen(p) IN
  IF n = Len(p) THEN <<p>> ELSE <<TakeN(p, n)>> \o SplitAll(DropN(p, n + 1))

RECURSIVE CleanSegs(_, _, _)
CleanSegs(segs, acc, rooted) ==
  IF segs = <<>> THEN acc
  ELSE LET s == Head(segs) IN
       CleanSegs(Tail(segs),
                 IF s = <<>> \/ s = <<DOT>> THEN acc
                 ELSE IF s = <<DOT, DOT>>
                      THEN (IF acc # <<>> /\ acc[Len(acc)] # <<DOT, DOT>> THEN SubSeq(acc, 1, Len(acc) - 1)
                            ELSE IF rooted THEN acc ELSE Append(acc, s))
                 ELSE Append(acc, s),
                 rooted)

RECURSIVE JoinSegs(_)
JoinSegs(segs) == IF segs = <<>> THEN <<>> ELSE <<SLASH>> \o Head(segs) \o JoinSegs(Tail(segs))

(* Go's path.Clean *)
PathClean(p) ==
  IF p = <<>> THEN <<DOT>>
  ELSE LET rooted == p[1] = SLASH
           c == CleanSegs(SplitAll(p), <<>>, rooted)
       IN IF rooted THEN (IF c = <<>> THEN <<SLASH>> ELSE JoinSegs(c))
          ELSE (IF c = <<>> THEN <<DOT>> ELSE Tail(JoinSegs(c)))

RECURSIVE Concat(_)
Concat(elems) == IF elems = <<>> THEN <<>>
                 ELSE IF Len(elems) = 1 THEN elems[1]
                 ELSE elems[1] \o <<SLASH>> \o Concat(Tail(elems))

(* Go's path.Join: empty elements are ignored, the rest joined with '/' and cleaned *)
Join(elems) == LET ne == SelectSeq(elems, LAMBDA e : e # <<>>) IN IF ne = <<>> THEN <<>> ELSE PathClean(Concat(ne))

RECURSIVE LastSlash(_, _)
LastSlash(p, i) == IF i = 0 THEN 0 ELSE IF p[i] = SLASH THEN i ELSE LastSlash(p, i - 1)
(* Go's path.Split: directory up to and including the last '/', and the file *)
PathSplit(p) == LET i == LastSlash(p, Len(p)) IN [dir |-> TakeN(p, i), file |-> DropN(p, i)]

(***************************************************************************)
(* escapers of html/template for the three contexts the templates use, and  *)
(* the inverse readings.                                                    *)
(***************************************************************************)
HexVal(c) == IF c \in 48..57 THEN c - 48 ELSE IF c \in 65..70 THEN c - 55 ELSE IF c \in 97..102 THEN c - 87 ELSE 16
HexLow(n) == IF n < 10 THEN 48 + n ELSE 87 + n
Dec2(c) == <<48 + (c \div 10), 48 + (c % 10)>>

EscTextByte(c) ==                    \* HTML text / RCDATA / attribute value
  CASE c = 60 -> <<38,108,116,59>>                 \* &lt;
    [] c = 62 -> <<38,103,116,59>>                 \* &gt;
    [] c = 38 -> <<38,97,109,112,59>>              \* &amp;
    [] c = 34 -> <<38,35>> \o Dec2(34) \o <<59>>   \* &#34;
    [] c = 39 -> <<38,35>> \o Dec2(39) \o <<59>>   \* &#39;
    [] c = 43 -> <<38,35>> \o Dec2(43) \o <<59>>   \* &#43;
    [] OTHER  -> <<c>>
EscURLByte(c) ==                     \* URL in an attribute (normalised, then attribute-escaped)
  CASE c \in {60, 62, 34, 39, 32, 92} -> <<PCT, HexLow(c \div 16), HexLow(c % 16)>>
    [] c = 38 -> <<38,97,109,112,59>>
    [] c = 43 -> <<38,35>> \o Dec2(43) \o <<59>>
    [] OTHER  -> <<c>>
EscJSByte(c) ==                      \* inside a quoted JavaScript string in a script element
  CASE c \in {60, 62, 38, 34, 39, 43} -> <<BSL, 117, 48, 48, HexLow(c \div 16), HexLow(c % 16)>>
    [] c = SLASH -> <<BSL, SLASH>>
    [] c = BSL   -> <<BSL, BSL>>
    [] OTHER  -> <<c>>

RECURSIVE EscapeWith(_, _)
EscapeWith(ctx, s) ==
  IF s = <<>> THEN <<>>
  ELSE (CASE ctx = "text" -> EscTextByte(Head(s)) [] ctx = "url" -> EscURLByte(Head(s))
          [] ctx = "js" -> EscJSByte(Head(s)) [] OTHER -> <<Head(s)>>) \o EscapeWith(ctx, Tail(s))

(* reading an escaped text back.  BAD marks something that is not an escape  *)
BAD == 999
RECURSIVE UntilSemi(_)
UntilSemi(s) == IF s = <<>> THEN 0 ELSE IF Head(s) = 59 THEN 1 ELSE
                  LET n == UntilSemi(Tail(s)) IN IF n = 0 THEN 0 ELSE n + 1
RECURSIVE DecNum(_, _)
DecNum(s, acc) == IF s = <<>> THEN acc ELSE IF Head(s) \in 48..57 THEN DecNum(Tail(s), acc * 10 + Head(s) - 48) ELSE BAD
Entity(name) ==       \* name without '&' and ';'
  CASE name = <<108,116>> -> 60 [] name = <<103,116>> -> 62 [] name = <<97,109,112>> -> 38
    [] name = <<113,117,111,116>> -> 34 [] name = <<97,112,111,115>> -> 39
    [] Len(name) >= 2 /\ name[1] = 35 /\ Len(name) <= 4 -> DecNum(Tail(name), 0)
    [] OTHER -> BAD

RECURSIVE HTMLUnescape(_)
HTMLUnescape(s) ==
  IF s = <<>> THEN <<>>
  ELSE IF Head(s) = AMP
       THEN LET n == UntilSemi(Tail(s)) IN
            IF n = 0 THEN <<BAD>>
            ELSE <<Entity(SubSeq(s, 2, n))>> \o HTMLUnescape(DropN(s, n + 1))
       ELSE <<Head(s)>> \o HTMLUnescape(Tail(s))

RECURSIVE PctUnescape(_)
PctUnescape(s) ==
  IF s = <<>> THEN <<>>
  ELSE IF Head(s) = PCT
       THEN (IF Len(s) >= 3 /\ HexVal(s[2]) < 16 /\ HexVal(s[3]) < 16
             THEN <<HexVal(s[2]) * 16 + HexVal(s[3])>> \o PctUnescape(DropN(s, 3)) ELSE <<BAD>>)
       ELSE <<Head(s)>> \o PctUnescape(Tail(s))

RECURSIVE JSUnescape(_)
JSUnescape(s) ==
  IF s = <<>> THEN <<>>
  ELSE IF Head(s) = BSL
       THEN (IF Len(s) >= 6 /\ s[2] = 117 /\ s[3] = 48 /\ s[4] = 48 /\ HexVal(s[5]) < 16 /\ HexVal(s[6]) < 16
             THEN <<HexVal(s[5]) * 16 + HexVal(s[6])>> \o JSUnescape(DropN(s, 6))
             ELSE IF Len(s) >= 2 /\ s[2] \in {SLASH, BSL, 34, 39} THEN <<s[2]>> \o JSUnescape(DropN(s, 2))
             ELSE <<BAD>>)
       ELSE <<Head(s)>> \o JSUnescape(Tail(s))

Recover(ctx, esc) ==
  CASE ctx = "text" -> HTMLUnescape(esc)
    [] ctx = "url"  -> PctUnescape(HTMLUnescape(esc))
    [] ctx = "js"   -> JSUnescape(esc)

(* no HTML metacharacter of an option value reaches the page raw:           *)
(* < > " ' never (in a JS string a quote only behind a backslash), and '&'   *)
(* only as the start of an entity (never raw in a JS string).               *)
NoRawMeta(ctx, esc) ==
  /\ \A i \in DOMAIN esc : esc[i] \notin {60, 62}
  /\ \A i \in DOMAIN esc : esc[i] \in {34, 39} => (ctx = "js" /\ i > 1 /\ esc[i - 1] = BSL)
  /\ \A i \in DOMAIN esc : esc[i] = AMP => (ctx # "js" /\ UntilSemi(DropN(esc, i)) \in 3..6)

SlotOK(ctx, payload, esc) == NoRawMeta(ctx, esc) /\ Recover(ctx, esc) = payload

(***************************************************************************)
(* Part 2/3 - faithful model                                                *)
(***************************************************************************)
IsAPI(cfg) == cfg.kind \in {"api-redoc", "api-swaggerui", "api-rapidoc"}
UIKind(cfg) == CASE cfg.kind = "api-redoc" -> "redoc" [] cfg.kind = "api-swaggerui" -> "swaggerui"
                 [] cfg.kind = "api-rapidoc" -> "rapidoc" [] OTHER -> cfg.kind

(* percent-encoding of the bytes URLs encode in a path segment (space, non-ASCII) *)
HexUp(n) == IF n < 10 THEN 48 + n ELSE 55 + n
RECURSIVE EncSeg(_)
EncSeg(s) == IF s = <<>> THEN <<>>
             ELSE (IF Head(s) = 32 \/ Head(s) >= 128 THEN <<PCT, HexUp(Head(s) \div 16), HexUp(Head(s) % 16)>> ELSE <<Head(s)>>)
                  \o EncSeg(Tail(s))
EncSegs(segs) == [i \in DOMAIN segs |-> EncSeg(segs[i])]

(* the SpecURL option's URL path: url.Parse(SpecURL).Path (decoded) and, with enc, its percent-encoded spelling *)
SpecURLPathOf(su, enc) ==
  LET dirs == IF enc THEN EncSegs(su.dirs) ELSE su.dirs
      doc  == IF enc THEN EncSeg(su.doc) ELSE su.doc
  IN CASE su.kind = "default"  -> <<>>
       [] su.kind = "relative" -> Concat(dirs \o <<doc>>)
       [] OTHER                -> JoinSegs(dirs) \o <<SLASH>> \o doc        \* abspath, absurl
SpecURLPath(su) == SpecURLPathOf(su, FALSE)

(* the SpecURL option as text: what WithUISpecURL is given and the page must reference *)
SpecURLText(su) ==
  (IF su.kind = "absurl" THEN <<104,116,116,112,115,58,47,47>> \o su.host ELSE <<>>)      \* "https://" host
  \o SpecURLPathOf(su, su.enc) \o (IF su.query = <<>> THEN <<>> ELSE <<63>> \o su.query)

(* Spec(basePath, b, next, WithSpecPath(p), WithSpecDocument(d))            *)
SpecDocPathOf(basePath, optPath, optDoc) ==
  Join(<<IF basePath = <<>> THEN <<SLASH>> ELSE basePath, optPath, IF optDoc = <<>> THEN SwaggerDoc ELSE optDoc>>)

(* uiOptions.EnsureDefaults + path.Join(opts.BasePath, opts.Path)            *)
UIBase(b) == IF b = <<>> THEN <<SLASH>> ELSE b
UIPathDef(p) == IF p = <<>> THEN Docs ELSE p
UIDocPathOf(basePath, optPath) == Join(<<UIBase(basePath), UIPathDef(optPath)>>)

(* SwaggerUIOpts.ensureDefaults: OAuthCallbackURL                            *)
OAuthDocPathOf(basePath, optPath, oauthurl) ==
  IF oauthurl # <<>> THEN oauthurl ELSE Join(<<UIBase(basePath), UIPathDef(optPath), OAuthCb>>)

(* WithUIBasePath(c.BasePath()): a missing leading '/' is added               *)
WithUIBasePath(b) == IF b # <<>> /\ b[1] = SLASH THEN b ELSE <<SLASH>> \o b

(* uiOptionsForHandler: spec route derived from the UI's SpecURL              *)
HandlerSpecPath(cfg) ==
  LET sp == PathSplit(SpecURLPathOf(cfg.specurl, SpecRouteEscaped))
      pth == IF sp.dir = <<DOT>> THEN <<>> ELSE sp.dir
  IN SpecDocPathOf(pth, <<>>, sp.file)

(* the chain of document handlers in front of the last handler, outermost    *)
(* first: <<[who, at]>>                                                      *)
Chain(cfg) ==
  CASE cfg.kind = "spec"   -> <<[who |-> "spec", at |-> SpecDocPathOf(cfg.base, cfg.path, cfg.doc)]>>
    [] cfg.kind = "oauth2" -> <<[who |-> "ui", at |-> OAuthDocPathOf(cfg.base, cfg.path, cfg.oauthurl)]>>
    [] cfg.kind \in {"redoc", "rapidoc", "swaggerui"} -> <<[who |-> "ui", at |-> UIDocPathOf(cfg.base, cfg.path)]>>
    [] OTHER -> <<[who |-> "spec", at |-> HandlerSpecPath(cfg)],
                  [who |-> "ui",   at |-> UIDocPathOf(WithUIBasePath(cfg.base), cfg.path)]>>

RECURSIVE Walk(_, _, _)
Walk(chain, cpath, last) ==
  IF chain = <<>> THEN last
  ELSE IF cpath = Head(chain).at THEN Head(chain).who ELSE Walk(Tail(chain), cpath, last)

(* who answers a request whose decoded path is urlpath: "spec" | "ui" |      *)
(* "next" | "404" | "routes"                                                 *)
Serve(cfg, urlpath) ==
  Walk(Chain(cfg), PathClean(urlpath), IF IsAPI(cfg) THEN "routes" ELSE IF cfg.hasnext THEN "next" ELSE "404")

(* the template contexts of the option slots                                 *)
SlotCtx(cfg, name) ==
  IF cfg.custom THEN (IF name = "Title" THEN "text" ELSE "url")         \* the driver's custom template
  ELSE IF name = "Title" THEN "text"
  ELSE IF UIKind(cfg) = "swaggerui" /\ name \in {"SpecURL", "OAuthCallbackURL"} THEN "js"
  ELSE "url"

Escapes(cfg) == UIKind(cfg) # "oauth2" \/ OAuthEscapes

RenderSlot(cfg, name, value) == IF Escapes(cfg) THEN EscapeWith(SlotCtx(cfg, name), value) ELSE value

(***************************************************************************)
(* Part 4 - the property                                                    *)
(***************************************************************************)
(* the configured document paths, read off the options *)
DeclSpecAt(cfg) ==
  IF IsAPI(cfg)
  THEN (IF cfg.specurl.kind = "default" THEN <<SLASH>> \o SwaggerDoc
        ELSE PathClean(SpecURLPath(cfg.specurl)))         \* the location the page references
  ELSE PathClean(Concat(SelectSeq(<<UIBase(cfg.base), cfg.path, IF cfg.doc = <<>> THEN SwaggerDoc ELSE cfg.doc>>,
                                  LAMBDA e : e # <<>>)))
DeclUIAt(cfg) ==
  IF cfg.kind = "oauth2" /\ cfg.oauthurl # <<>> THEN cfg.oauthurl
  ELSE PathClean(Concat(<<UIBase(IF IsAPI(cfg) THEN WithUIBasePath(cfg.base) ELSE cfg.base), UIPathDef(cfg.path)>>
                        \o (IF cfg.kind = "oauth2" THEN <<OAuthCb>> ELSE <<>>)))

HasSpec(cfg) == cfg.kind = "spec" \/ IsAPI(cfg)
HasUI(cfg)   == cfg.kind # "spec"

(* the statement's claim about the spec location covers absolute locations that name a document *)
SpecLocationClaimed(cfg) ==
  IsAPI(cfg) /\ (cfg.specurl.kind = "default" \/ (cfg.specurl.kind \in {"abspath", "absurl"} /\ cfg.specurl.doc # <<>>))

Who(cfg, urlpath) ==
  LET c == PathClean(urlpath) IN
  IF HasSpec(cfg) /\ c = DeclSpecAt(cfg) THEN "spec"
  ELSE IF HasUI(cfg) /\ c = DeclUIAt(cfg) THEN "ui"
  ELSE IF IsAPI(cfg) THEN "routes" ELSE IF cfg.hasnext THEN "next" ELSE "404"

(* model-level: the faithful chain answers exactly as declared (for API flavours where the claim applies) *)
WhoAgrees(cfg, urlpath) == (IsAPI(cfg) => SpecLocationClaimed(cfg)) => Serve(cfg, urlpath) = Who(cfg, urlpath)

(* model-level: escaping is sound and loses nothing *)
PageOK(cfg, name, value) == SlotOK(SlotCtx(cfg, name), value, RenderSlot(cfg, name, value))

(* trace level: where the statement makes no claim about the spec location of an API handler (relative
   or document-less SpecURL) the code's own route is accepted *)
WhoTV(cfg, urlpath) == IF IsAPI(cfg) /\ ~SpecLocationClaimed(cfg) THEN Serve(cfg, urlpath) ELSE Who(cfg, urlpath)

(* the full path of an operation of an api-* configuration *)
OpPath(cfg, i) == Join(<<WithUIBasePath(cfg.base), cfg.ops[i]>>)
=============================================================================
