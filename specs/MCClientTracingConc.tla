------------------------ MODULE MCClientTracingConc ------------------------
(* N callers, each with its own operation value (own context, own caller    *)
(* span), submit through ONE tracing transport; every interleaving of their *)
(* steps (ClientTracing!CStep), every context kind / fault placement /      *)
(* status of the bounded sets.  Isolation: each caller's observation at its *)
(* return satisfies Prop as if it were alone, it has finished every span it *)
(* started whatever the others are doing, no span is finished twice or used *)
(* after Finish, and no two callers touch the shared option slice           *)
(* unsynchronised.  The SharedSpanVar variant (span kept in a field of the  *)
(* transport) and the as-built D52 variant (append into the shared options) *)
(* must violate.                                                            *)
EXTENDS ClientTracing

CONSTANTS NCallers, ConcCtxs, ConcEnds, ConcStatuses

VARIABLES fl, spare, cs, g
vars == <<fl, spare, cs, g>>

Callers == 1..NCallers
E == [fl |-> fl, spare |-> spare]

Init == /\ fl \in Flavors /\ spare \in BOOLEAN
        /\ cs = [i \in Callers |-> CInit] /\ g = GInit

Submit(i)  == /\ CanBegin(cs[i])
              /\ \E ctx \in ConcCtxs : cs' = [cs EXCEPT ![i] = Begin(cs[i], ctx)]
              /\ UNCHANGED <<fl, spare, g>>
Proceed(i) == /\ Running(cs[i])
              /\ (Faultable(cs[i].pc) /\ cs[i].pc # "send") => (ConcEnds \ {FaultStage(cs[i].pc)}) # {}
              /\ \E st \in (IF cs[i].pc = "send" THEN ConcStatuses ELSE {0}) :
                   LET r == CStep(E, i, cs[i], g, FALSE, st) IN cs' = [cs EXCEPT ![i] = r.c] /\ g' = r.g
              /\ UNCHANGED <<fl, spare>>
Fault(i)   == /\ Running(cs[i]) /\ FaultStage(cs[i].pc) \in ConcEnds
              /\ LET r == CStep(E, i, cs[i], g, TRUE, 0) IN cs' = [cs EXCEPT ![i] = r.c] /\ g' = r.g
              /\ UNCHANGED <<fl, spare>>

Next == \E i \in Callers : Submit(i) \/ Proceed(i) \/ Fault(i)
Spec == Init /\ [][Next]_vars /\ \A i \in Callers : WF_vars(Proceed(i))

Returned(i) == cs[i].pc = "returned"
Quiescent   == \A i \in Callers : ~Running(cs[i])

InvProp      == \A i \in Callers : Returned(i) => Prop(fl, cs[i].sc, ObsOf(cs[i], g, i))
InvOwn       == \A i \in Callers : Returned(i) => OwnFinished(cs[i], g, i)
InvSpans     == SpansSane(g)
InvQuiescent == Quiescent => AllFinished(g)
InvNoRace    == ~g.race
\* one combined invariant for the must-violate configurations (stable name whatever clause TLC reaches first)
InvIsolation == InvProp /\ InvOwn /\ InvSpans /\ InvQuiescent
AllReturn    == \A i \in Callers : [](Running(cs[i]) => <>(~Running(cs[i])))
=============================================================================
