SPECIFICATION Spec
CONSTANTS
  Mutant = "stripkey"
INVARIANT KeyParamBoundMC
CHECK_DEADLOCK FALSE
