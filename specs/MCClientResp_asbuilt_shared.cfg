SPECIFICATION Spec
CONSTANTS
  Types = {"application/json", "text/plain", "application/xml"}
  NCallers = 2
  RecyclesWrappers = FALSE
  SharedDefaults = TRUE
  MaxOps = 4
  SharedCloser = FALSE
  OnceIsNilCheck = FALSE
INVARIANTS InvIsolated
CHECK_DEADLOCK FALSE
