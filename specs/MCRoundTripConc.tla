-------------------------- MODULE MCRoundTripConc --------------------------
(* Concurrent requests of ONE operation on one server (C04): NReq requests,  *)
(* each with values of its own, are served by goroutines of their own whose  *)
(* steps (bind the request; invoke the handler with what was bound; respond) *)
(* interleave freely.  Every handler invocation must get the values of ITS   *)
(* request, whatever the interleaving.                                       *)
EXTENDS RoundTrip

CONSTANTS NReq

Reqs == 1..NReq
Value(r) == <<100 + r>>          \* the (unique) value call r supplies

VARIABLES pc, cells, got
vars == <<pc, cells, got>>

Cells == Reqs \cup {0}
Init == pc = [r \in Reqs |-> "arrived"] /\ cells = [c \in Cells |-> <<>>] /\ got = [r \in Reqs |-> <<>>]

Bind(r)   == pc[r] = "arrived" /\ cells' = BindInto(cells, r, Value(r)) /\ pc' = [pc EXCEPT ![r] = "bound"] /\ UNCHANGED got
Handle(r) == pc[r] = "bound" /\ got' = [got EXCEPT ![r] = HandlerGets(cells, r)] /\ pc' = [pc EXCEPT ![r] = "handled"] /\ UNCHANGED cells

Next == \E r \in Reqs : Bind(r) \/ Handle(r)
Spec == Init /\ [][Next]_vars

\* the handler of every request is invoked with the values that request supplied
EachGetsItsOwn == \A r \in Reqs : pc[r] = "handled" => got[r] = Value(r)
=============================================================================
