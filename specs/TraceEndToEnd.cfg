SPECIFICATION Spec
CONSTANTS
  SharedField = "none"
CHECK_DEADLOCK FALSE
