SPECIFICATION Spec
CONSTANTS
  GuardReserved = TRUE
  GuardNul = TRUE
  UseEscapedPath = TRUE
  MaxOps = 2
  MaxSegs = 3
  Bases = {"empty", "/", "/api", "/api/"}
  TemplateIds = {"a", "ax", "ab", "xb", "axcy", "root", "a/", "x"}
  OpMethods = {"GET", "POST"}
  ReqMethods = {"GET", "gEt", "Post", "DELETE"}
  SegIds = {"a", "b", "c", "api", ":", "a%2Fb", "..", "empty"}
INVARIANTS PropertyHolds
CHECK_DEADLOCK FALSE
