SPECIFICATION Spec
CONSTANTS
  Variant = "producesafterparams"
  Medias = {"application/json", "text/plain", "application/xml; q=0.5"}
  MaxProduces = 2
INVARIANT Holds
CHECK_DEADLOCK FALSE
