SPECIFICATION Spec
CONSTANTS
  RestoresOp = TRUE
  ClientStatusRule = TRUE
  CopiesOpts = TRUE
  SharedSpanVar = FALSE
  MaxCalls = 3
  Statuses = {}
  Unassigned <- UnassignedCodes
CHECK_DEADLOCK FALSE
