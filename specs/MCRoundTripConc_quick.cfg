SPECIFICATION Spec
CONSTANTS
  Mutant = "none"
  NReq = 3
INVARIANT EachGetsItsOwn
CHECK_DEADLOCK FALSE
