SPECIFICATION Spec
CONSTANTS
  SniffMode = "fixed"
  Mutant = "rewindpayload"
  Lens = {0, 1, 16, 511, 512, 513, 1500}
  Chunks = {0, 1, 7, 511, 512, 513}
  MaxK = 2
  MaxFileFields = 1
  MaxItems = 2
  MaxFields = 2
  MaxValues = 1
INVARIANTS BodyHolds AuthHolds
CHECK_DEADLOCK FALSE
