---------------------------- MODULE TraceCodecs ----------------------------
(* Trace validation of the built-in codecs (C15) against the declarative    *)
(* properties of Codecs: one case = one configuration (reset line = kind +  *)
(* cfg as exported by GenCodecs / the seeded generator), one event = the    *)
(* observable outcome of the real Consume / Produce / produce->consume.     *)
EXTENDS Codecs, Json, IOUtils

VARIABLES l, st, skipping, fails, cs

CInit(e) == [kind |-> e.kind, cfg |-> e.cfg]

CAllowed(s, e) ==
  CASE e.ev = "consume" -> s.kind = "consume" /\ ConsumeAllowed(s.cfg, e)
    [] e.ev = "produce" -> s.kind = "produce" /\ ProduceAllowed(s.cfg, e)
    [] e.ev = "rt"      -> s.kind = "rt" /\ RoundTripAllowed(s.cfg, e)
    [] e.ev = "seq"     -> s.kind = "seq" /\ SeqAllowed(s.cfg, e)     \* after step e.i of a history of Consume calls
    [] OTHER -> FALSE

CWhy(s, e) ==
  CASE e.ev = "consume" -> ConsumeWhy(s.cfg, e)
    [] e.ev = "produce" -> ProduceWhy(s.cfg, e)
    [] e.ev = "rt"      -> RoundTripWhy(s.cfg, e)
    [] e.ev = "seq"     -> SeqWhy(s.cfg, e)
    [] OTHER -> "unknown-event"

CStep(s, e) == s

TheTrace == ndJsonDeserialize(IOEnv.TRACE_FILE)
TC == INSTANCE TraceCommon WITH TInit <- CInit, TAllowed <- CAllowed, TStep <- CStep,
                                TWhy <- CWhy, TStateful <- FALSE, Trace <- TheTrace
Spec == TC!Spec
=============================================================================
