---------------------------- MODULE MCRoundTrip ----------------------------
(* Exhaustive check that the two halves' tables are inverse on C04's scope:  *)
(*  values  - every location x every value up to MaxLen over the atom        *)
(*            alphabet (incl. / % + space ? # : * { } ; & = . non-ASCII TAB)  *)
(*  routing - templates x values for their placeholders: the cleaned wire    *)
(*            path is matched by the called template and yields the values   *)
(*  response- status codes x header values: what the reader sees             *)
EXTENDS RoundTrip

CONSTANTS Atoms, MaxLen, MaxLenPath

VARIABLES track, loc, v, w
vars == <<track, loc, v, w>>

Init == track = "start" /\ loc = "path" /\ v = <<>> /\ w = <<>>

PickLoc == /\ track = "start" /\ \E l \in Locs : loc' = l /\ track' = "values" /\ UNCHANGED <<v, w>>
Grow    == /\ track = "values" /\ Len(v) < MaxLen /\ \E a \in Atoms : v' = Append(v, a) /\ UNCHANGED <<track, loc, w>>

\* routing: two placeholders a, b in one of the templates; v and w are their values
Lit(s) == [k |-> "lit", s |-> s, n |-> ""]
Ph(n)  == [k |-> "ph", s |-> <<>>, n |-> n]
Templates == { << Lit(<<105>>), Ph("a") >>,                           \* /i/{a}
               << Lit(<<105>>), Ph("a"), Lit(<<120>>), Ph("b") >>,     \* /i/{a}/x/{b}
               << Ph("a"), Ph("b") >>,                                \* /{a}/{b}
               << Ph("a"), Lit(<<DOT, DOT, DOT>>), Ph("b") >> }        \* /{a}/.../{b}
StartRouting == track = "start" /\ track' = "routing" /\ UNCHANGED <<loc, v, w>>
GrowA == /\ track = "routing" /\ w = <<>> /\ Len(v) < MaxLenPath /\ \E a \in Atoms : v' = Append(v, a) /\ UNCHANGED <<track, loc, w>>
GrowB == /\ track = "routing" /\ Len(w) < MaxLenPath /\ \E a \in Atoms : w' = Append(w, a) /\ UNCHANGED <<track, loc, v>>

\* response: v = a header value, w = <<code>> picked from a pool
Codes == {200, 201, 204, 299, 301, 304, 400, 404, 500, 599}
StartResponse == track = "start" /\ track' = "response" /\ \E c \in Codes : w' = <<c>> /\ UNCHANGED <<loc, v>>
GrowH == /\ track = "response" /\ Len(v) < MaxLen /\ \E a \in Atoms : v' = Append(v, a) /\ UNCHANGED <<track, loc, w>>

Next == PickLoc \/ Grow \/ StartRouting \/ GrowA \/ GrowB \/ StartResponse \/ GrowH
Spec == Init /\ [][Next]_vars

ValuesAgree  == track = "values" => (InScope(loc, v) => RoundTrips(loc, v))
RoutingAgrees == track = "routing" => \A t \in Templates : PathAgrees(t, [a |-> v, b |-> w])
ResponseAgreesMC ==
  track = "response" =>
    LET h == [code |-> w[1], hdrs |-> << [k |-> "X", vs |-> <<v, v>>] >>, body |-> "B"]
        o == [seen |-> ResponseSeen(h), handler |-> h]
    IN ResponseInScope(h) => ResponseAgrees(o)

\* the exclusions are needed: out-of-scope values do break the round trip (non-vacuity, checked violated in development)
ExclusionsUnneeded == track = "values" => RoundTrips(loc, v)
=============================================================================
