------------------------------- MODULE Router -------------------------------
(***************************************************************************)
(* The denco trie router (middleware/denco/router.go).                     *)
(*                                                                         *)
(* Two definitions of a lookup:                                            *)
(*  - CodeLookup: a faithful transcription of doubleArray.lookup over an   *)
(*    abstract trie (a node is the symbol prefix that leads to it; the     *)
(*    double-array packing is abstracted away, the walk / index stack /    *)
(*    deepest-first backtracking / single-before-wildcard order are kept). *)
(*  - LookupAllowed: the declarative property C05 (sound, complete,        *)
(*    static, literal-wins, total), stated over derivations.               *)
(* MCRouter checks CodeLookup |= LookupAllowed for every small table and   *)
(* path; TraceRouter checks observations of the real router against        *)
(* LookupAllowed.                                                          *)
(***************************************************************************)
EXTENDS Naturals, Sequences, FiniteSets, TLC

CONSTANT GuardReserved   \* TRUE: reserved bytes of the *looked-up path* never
                         \* follow a ':' '*' '#' edge and '#' does not end a
                         \* parameter (the repaired code);  FALSE: as-built before
                         \* the fix (finding D1) - kept to show TLC finds D1.

CONSTANT GuardNul        \* TRUE: a NUL byte of the looked-up path never follows an edge (the repaired code);
                         \* FALSE: as-built before the fix (finding D55): CHECK 0 marks the unused slots of the
                         \* double-array, so a NUL byte passes the CHECK comparison of an unused slot and the walk goes
                         \* on from there.  The model has no slot layout: the phantom step is abstracted as "the walk
                         \* stays on its node" (what the failing lookup '/=a/ab/\x00ab' -> /:y/ab/ab did) - enough for
                         \* TLC to show the unsound match, not a prediction of which slot the real walk lands in.

SLASH == 47
COLON == 58
STAR  == 42
HASH  == 35
Reserved == {COLON, STAR, HASH}

(* A pattern is a sequence of tokens                                       *)
(*   [k |-> "lit",   s |-> <<bytes>>, n |-> ""]                            *)
(*   [k |-> "param", s |-> <<>>,      n |-> name]   single segment          *)
(*   [k |-> "wild",  s |-> <<>>,      n |-> name]   rest of path, last      *)
(* A record is [pat |-> pattern, value |-> v].                             *)

IsPlaceholder(t) == t.k \in {"param", "wild"}

Names(pat) == LET ph == SelectSeq(pat, IsPlaceholder) IN [i \in 1..Len(ph) |-> ph[i].n]

IsStaticPat(pat) == \A i \in 1..Len(pat) : pat[i].k = "lit"

RECURSIVE LitBytes(_)
LitBytes(pat) == IF pat = <<>> THEN <<>> ELSE Head(pat).s \o LitBytes(Tail(pat))

DropN(s, n) == SubSeq(s, n + 1, Len(s))
TakeN(s, n) == SubSeq(s, 1, n)
IsPrefixOf(p, s) == Len(p) <= Len(s) /\ TakeN(s, Len(p)) = p

NoSlash(s) == \A i \in 1..Len(s) : s[i] # SLASH

(* Length of the maximal '/'-free prefix of s.                             *)
RECURSIVE SegLen(_)
SegLen(s) == IF s = <<>> \/ Head(s) = SLASH THEN 0 ELSE 1 + SegLen(Tail(s))

(***************************************************************************)
(* Declarative reading: the set of text tuples with which `path`            *)
(* instantiates `pat`.  A single-segment text contains no '/'; with        *)
(* allowEmpty = FALSE every text is non-empty.                             *)
(***************************************************************************)
RECURSIVE Derivs(_, _, _)
Derivs(pat, path, allowEmpty) ==
  IF pat = <<>> THEN (IF path = <<>> THEN {<<>>} ELSE {})
  ELSE LET t == Head(pat) IN
    CASE t.k = "lit" ->
           IF IsPrefixOf(t.s, path) THEN Derivs(Tail(pat), DropN(path, Len(t.s)), allowEmpty) ELSE {}
      [] t.k = "wild" ->
           IF Len(pat) = 1 /\ (allowEmpty \/ path # <<>>) THEN {<<path>>} ELSE {}
      [] t.k = "param" ->
           LET lo == IF allowEmpty THEN 0 ELSE 1
               hi == SegLen(path)
           IN UNION { { <<TakeN(path, k)>> \o d : d \in Derivs(Tail(pat), DropN(path, k), allowEmpty) } : k \in lo..hi }

(* Per-byte alignment of a derivation: "l" literal, "p" placeholder text.  *)
RECURSIVE Kinds(_, _)
Kinds(pat, texts) ==
  IF pat = <<>> THEN <<>>
  ELSE LET t == Head(pat) IN
       IF t.k = "lit" THEN [i \in 1..Len(t.s) |-> "l"] \o Kinds(Tail(pat), texts)
       ELSE [i \in 1..Len(Head(texts)) |-> "p"] \o Kinds(Tail(pat), Tail(texts))

(* d1 beats d2: at the first byte where the alignments differ d1 is literal *)
Beats(k1, k2) ==
  \E i \in 1..Len(k1) : /\ i <= Len(k2)
                        /\ k1[i] = "l" /\ k2[i] = "p"
                        /\ \A j \in 1..(i-1) : k1[j] = k2[j]

NoObs == [found |-> FALSE, value |-> 0, names |-> <<>>, texts |-> <<>>, panic |-> FALSE]

RecIdx(records, v) == {i \in DOMAIN records : records[i].value = v}

Sound(records, path, obs) ==
  obs.found => \E i \in RecIdx(records, obs.value) :
                  /\ Names(records[i].pat) = obs.names
                  /\ obs.texts \in Derivs(records[i].pat, path, TRUE)

Complete(records, path, obs) ==
  (~obs.found) => \A i \in DOMAIN records : Derivs(records[i].pat, path, FALSE) = {}

Static(records, path, obs) ==
  \A i \in DOMAIN records :
     (IsStaticPat(records[i].pat) /\ LitBytes(records[i].pat) = path)
        => (obs.found /\ obs.value = records[i].value /\ obs.texts = <<>>)

LiteralWins(records, path, obs) ==
  obs.found =>
    \A i \in RecIdx(records, obs.value) :
      (obs.texts \in Derivs(records[i].pat, path, TRUE)) =>
        LET ko == Kinds(records[i].pat, obs.texts) IN
        \A j \in DOMAIN records :
          \A d \in Derivs(records[j].pat, path, FALSE) : ~Beats(Kinds(records[j].pat, d), ko)

Total(obs) == obs.panic = FALSE

LookupAllowed(records, path, obs) ==
  /\ Total(obs)
  /\ Sound(records, path, obs)
  /\ Complete(records, path, obs)
  /\ Static(records, path, obs)
  /\ LiteralWins(records, path, obs)

WhyNot(records, path, obs) ==
  IF ~Total(obs) THEN "panic"
  ELSE IF ~Sound(records, path, obs) THEN "unsound"
  ELSE IF ~Complete(records, path, obs) THEN "incomplete"
  ELSE IF ~Static(records, path, obs) THEN "static"
  ELSE IF ~LiteralWins(records, path, obs) THEN "literal-does-not-win"
  ELSE "ok"

(***************************************************************************)
(* Well-formed tables (what C05 quantifies over, "accepted by Build").      *)
(***************************************************************************)
Shape(pat) == [i \in 1..Len(pat) |-> IF IsPlaceholder(pat[i]) THEN [k |-> pat[i].k, s |-> <<>>, n |-> ""] ELSE pat[i]]

DupNames(pat) == \E i, j \in 1..Len(Names(pat)) : i # j /\ Names(pat)[i] = Names(pat)[j]

(***************************************************************************)
(* Faithful model of the built trie and of doubleArray.lookup.              *)
(***************************************************************************)
RECURSIVE Syms(_)
Syms(pat) ==
  IF pat = <<>> THEN <<HASH>>
  ELSE LET t == Head(pat) IN
       CASE t.k = "lit"   -> t.s \o Syms(Tail(pat))
         [] t.k = "param" -> <<COLON>> \o Syms(Tail(pat))
         [] t.k = "wild"  -> <<STAR>>     \* r.Key = "" after a wildcard: a leaf

ParamRecs(records) == {i \in DOMAIN records : ~IsStaticPat(records[i].pat)}

NodeExists(records, n) == \E i \in ParamRecs(records) : IsPrefixOf(n, Syms(records[i].pat))
HasEdge(records, n, c) == NodeExists(records, Append(n, c))
LeafOf(records, n) == CHOOSE i \in ParamRecs(records) : Syms(records[i].pat) = n

(* the byte walk may follow edge c                                          *)
WalkEdge(records, n, c) == HasEdge(records, n, c) /\ (GuardReserved => c \notin Reserved) /\ c # 0
PhantomNul(records, n, c) == ~GuardNul /\ c = 0

RECURSIVE NextSep(_, _)
NextSep(path, i) ==   \* 1-based index of the next separator at or after i, or Len+1
  IF i > Len(path) THEN i
  ELSE IF path[i] = SLASH \/ (~GuardReserved /\ path[i] = HASH) THEN i
  ELSE NextSep(path, i + 1)

RECURSIVE LitWalk(_, _, _, _, _)
LitWalk(records, n, path, i, stack) ==
  IF i > Len(path) THEN [node |-> n, stack |-> stack, done |-> TRUE]
  ELSE LET st2 == IF HasEdge(records, n, COLON) \/ HasEdge(records, n, STAR)
                  THEN Append(stack, [i |-> i, node |-> n]) ELSE stack
       IN IF WalkEdge(records, n, path[i])
          THEN LitWalk(records, Append(n, path[i]), path, i + 1, st2)
          ELSE IF PhantomNul(records, n, path[i])
          THEN LitWalk(records, n, path, i + 1, st2)
          ELSE [node |-> n, stack |-> st2, done |-> FALSE]

NotFoundRes == [found |-> FALSE, rec |-> 0, texts |-> <<>>]

RECURSIVE DALookup(_, _, _, _), Backtrack(_, _, _, _, _)
DALookup(records, n, path, texts) ==
  LET w == LitWalk(records, n, path, 1, <<>>) IN
  IF w.done /\ HasEdge(records, w.node, HASH)
  THEN [found |-> TRUE, rec |-> LeafOf(records, Append(w.node, HASH)), texts |-> texts]
  ELSE Backtrack(records, path, w.stack, Len(w.stack), texts)

Backtrack(records, path, stack, j, texts) ==
  IF j = 0 THEN NotFoundRes
  ELSE LET i == stack[j].i
           nd == stack[j].node
           nx == NextSep(path, i)
           single == IF HasEdge(records, nd, COLON)
                     THEN DALookup(records, Append(nd, COLON), DropN(path, nx - 1),
                                   Append(texts, SubSeq(path, i, nx - 1)))
                     ELSE NotFoundRes
       IN IF single.found THEN single
          ELSE IF HasEdge(records, nd, STAR)
               THEN [found |-> TRUE, rec |-> LeafOf(records, Append(nd, STAR)),
                     texts |-> Append(texts, DropN(path, i - 1))]
               ELSE Backtrack(records, path, stack, j - 1, texts)

StaticHit(records, path) == {i \in DOMAIN records : IsStaticPat(records[i].pat) /\ LitBytes(records[i].pat) = path}

CodeLookup(records, path) ==
  IF StaticHit(records, path) # {}
  THEN LET i == CHOOSE k \in StaticHit(records, path) : TRUE
       IN [found |-> TRUE, value |-> records[i].value, names |-> <<>>, texts |-> <<>>, panic |-> FALSE]
  ELSE IF ParamRecs(records) = {} THEN NoObs
  ELSE LET r == DALookup(records, <<>>, path, <<>>) IN
       IF r.found
       THEN [found |-> TRUE, value |-> records[r.rec].value, names |-> Names(records[r.rec].pat),
             texts |-> r.texts, panic |-> FALSE]
       ELSE NoObs
=============================================================================
