SPECIFICATION Spec
CONSTANTS
  RestoresOp = TRUE
  ClientStatusRule = TRUE
  CopiesOpts = TRUE
  SharedSpanVar = FALSE
  MaxCalls = 3
  Statuses = {100, 200, 299, 302, 400, 404, 499, 500}
  Unassigned = {299, 499}
INVARIANTS InvProp InvSpans InvFinished InvNoPanic InvNoRace InvClosure
CHECK_DEADLOCK FALSE
