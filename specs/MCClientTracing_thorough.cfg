SPECIFICATION Spec
CONSTANTS
  RestoresOp = TRUE
  ClientStatusRule = TRUE
  CopiesOpts = TRUE
  SharedSpanVar = FALSE
  MaxCalls = 3
  Statuses = {200, 299, 404, 500}
  Unassigned = {299}
INVARIANTS InvProp InvSpans InvFinished InvNoPanic InvNoRace InvClosure
CHECK_DEADLOCK FALSE
