SPECIFICATION Spec
CONSTANTS
  SharedField = "none"
  NReqs = 2
  MaxSwitches = 3
POSTCONDITION Written
CHECK_DEADLOCK FALSE
