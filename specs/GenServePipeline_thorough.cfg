SPECIFICATION Spec
CONSTANTS
  SharedField = "none"
  NReqs = 2
  MaxSwitches = 4
POSTCONDITION Written
CHECK_DEADLOCK FALSE
