-------------------------- MODULE MCClientTracing --------------------------
(* Exhaustive check of ClientTracing, one caller: every flavor x option     *)
(* capacity x every sequence of <= MaxCalls Submits of the same operation   *)
(* value x every context kind x every fault placement x every status; the   *)
(* context, the fault of each stage and the status are chosen step by step  *)
(* by independently enabled actions.  Safety at return: Prop on the model's *)
(* observation; span store sane at every state.                             *)
EXTENDS ClientTracing

VARIABLES fl, spare, c, g, prev
vars == <<fl, spare, c, g, prev>>

E == [fl |-> fl, spare |-> spare]

Init == /\ fl \in Flavors /\ spare \in BOOLEAN
        /\ c = CInit /\ g = GInit /\ prev = Ret(CInit, GInit)

\* the caller submits the operation (again), with some context
Submit  == /\ CanBegin(c)
           /\ \E ctx \in Ctxs : c' = Begin(c, ctx)
           /\ prev' = Ret(c, g) /\ UNCHANGED <<fl, spare, g>>
\* a stage completes without fault (the server picks the status at the send stage)
Proceed == /\ Running(c)
           /\ \E st \in (IF c.pc = "send" THEN Statuses ELSE {0}) :
                LET r == CStep(E, 1, c, g, FALSE, st) IN c' = r.c /\ g' = r.g
           /\ UNCHANGED <<fl, spare, prev>>
\* the fault of the current stage fires
Fault   == /\ Running(c) /\ Faultable(c.pc)
           /\ LET r == CStep(E, 1, c, g, TRUE, 0) IN c' = r.c /\ g' = r.g
           /\ UNCHANGED <<fl, spare, prev>>

Next == Submit \/ Proceed \/ Fault
Spec == Init /\ [][Next]_vars /\ WF_vars(Proceed)

Returned == c.pc = "returned"

InvProp     == Returned => Prop(fl, c.sc, ObsOf(c, g, 1))
InvSpans    == SpansSane(g)
InvFinished == Returned => AllFinished(g)
InvNoPanic  == c.pc # "panic"
InvNoRace   == ~g.race
\* the functional closure used by TG / TV agrees with the explored graph
InvClosure  == Returned => RunCall(E, 1, prev.c, prev.g, c.sc) = Ret(c, g)
\* every call returns
Terminates  == [](Running(c) => <>(~Running(c)))

\* single-clause variants for the must-violate configurations (one invariant per cfg so that the reported name is stable)
InvOpClean  == Returned => P_Op(ObsOf(c, g, 1))
InvError    == Returned => P_Error(fl, c.sc, ObsOf(c, g, 1))

\* non-vacuity witnesses (each must be violated; checked during development)
NeverSpan     == Returned => ObsOf(c, g, 1).mine = {}
NeverErrTag   == \A j \in DOMAIN g.spans : ~g.spans[j].err
NeverReader   == c.rcalls = 0
NeverSecond   == c.k < 2
=============================================================================
