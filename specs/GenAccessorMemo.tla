--------------------------- MODULE GenAccessorMemo ---------------------------
(* TG: every accessor history of length HistLen for every request kind.      *)
EXTENDS AccessorMemo, Json, IOUtils
CONSTANT HistLen
CONSTANT FreshVariants   \* TRUE: histories also use AuthorizeFresh / BindAndValidateFresh; FALSE: the eight plain accessors only
GenAccessors == IF FreshVariants THEN Accessors ELSE Accessors \ {"AuthorizeFresh", "BindAndValidateFresh"}
VARIABLES in, hist, done
vars == <<in, hist, done>>
Init == in \in Kinds /\ hist = << >> /\ done = FALSE /\ TLCSet(1, << >>)
Extend == /\ Len(hist) < HistLen /\ \E a \in GenAccessors : hist' = Append(hist, a)
          /\ UNCHANGED <<in, done>>
Export == /\ Len(hist) = HistLen /\ ~done
          /\ TLCSet(1, Append(TLCGet(1), [req |-> in, hist |-> hist]))
          /\ done' = TRUE /\ UNCHANGED <<in, hist>>
Next == Extend \/ Export
Spec == Init /\ [][Next]_vars
Written == ndJsonSerialize(IOEnv.OUT_FILE, TLCGet(1))
=============================================================================
