--------------------------- MODULE MCCredentials ---------------------------
(* Exhaustive small-scope check of Credentials: what the client writers put *)
(* on the wire, read back by the coded server authenticators, satisfies     *)
(* C14.  Two tracks:                                                        *)
(*  strings   - one basic / apikey / bearer writer with every user,         *)
(*              password, token over the atom alphabet up to MaxLen, read   *)
(*              by the matching authenticator                               *)
(*  structure - operation auth (none / one / composed two) x default auth x *)
(*              preset Authorization header x access_token placements       *)
(*              (header, query, urlencoded / multipart form, several at     *)
(*              once) x every authenticator of the pool                     *)
EXTENDS Credentials

CONSTANTS Atoms, MaxLen

VARIABLES track, in, A
vars == <<track, in, A>>

W(t, name, loc, u, p) == [t |-> t, name |-> name, in |-> loc, u |-> u, p |-> p]
Basic(u, p)      == W("basic", <<>>, "", u, p)
APIKey(n, loc, v) == W("apikey", n, loc, <<>>, v)
Bearer(t)        == W("bearer", <<>>, "", <<>>, t)

XKEY == <<88, 45, 75, 101, 121>>   \* "X-Key"
xkey == <<120, 45, 107, 101, 121>> \* "x-key"
KQ   == <<107>>                    \* "k"

In0 == [op |-> <<>>, def |-> <<>>, authz |-> <<>>, hdrs |-> <<>>, query |-> <<>>, form |-> <<>>, media |-> "none",
        static |-> <<>>, debug |-> FALSE, transport |-> "direct"]
Auth(kind, name, loc, realm, scopes, cberr) == [kind |-> kind, name |-> IF kind = "bearer" THEN <<>> ELSE name, scheme |-> IF kind = "bearer" THEN name ELSE "",
                                               in |-> loc, realm |-> realm, scopes |-> scopes, cberr |-> cberr]
A0 == Auth("basic", <<>>, "", "", <<>>, FALSE)

Init == track = "start" /\ in = In0 /\ A = A0

\* ---- strings track
StartStrings ==
  /\ track = "start"
  /\ \E k \in {"basic", "apikey-h", "apikey-q", "bearer"}, e \in BOOLEAN :
       /\ track' = k
       /\ in' = [in EXCEPT !.op = << CASE k = "basic" -> Basic(<<>>, <<>>) [] k = "apikey-h" -> APIKey(XKEY, "header", <<>>)
                                        [] k = "apikey-q" -> APIKey(KQ, "query", <<>>) [] OTHER -> Bearer(<<>>) >>]
       /\ A' = CASE k = "basic" -> Auth("basic", <<>>, "", "r", <<>>, e) [] k = "apikey-h" -> Auth("apikey", xkey, "header", "", <<>>, e)
                 [] k = "apikey-q" -> Auth("apikey", KQ, "query", "", <<>>, e) [] OTHER -> Auth("bearer", "oauth", "", "", <<"s1", "s2">>, e)
GrowString ==
  /\ track \in {"basic", "apikey-h", "apikey-q", "bearer"}
  /\ \/ /\ Len(in.op[1].p) < MaxLen
        /\ \E a \in Atoms : in' = [in EXCEPT !.op[1].p = Append(@, a)]
     \/ /\ track = "basic" /\ Len(in.op[1].u) < MaxLen /\ in.op[1].p = <<>>
        /\ \E a \in Atoms \ {COLON} : in' = [in EXCEPT !.op[1].u = Append(@, a)]
  /\ UNCHANGED <<track, A>>

\* ---- structure track
T(n) == <<116, 48 + n>>    \* distinct tokens "t1".."t9" by origin
WriterPool == { Basic(<<117>>, <<112, COLON, 113>>), APIKey(XKEY, "header", T(1)), APIKey(KQ, "query", T(2)),
                APIKey(ACCESS, "query", T(3)), Bearer(T(4)), Bearer(<<>>), W("absent", <<>>, "", <<>>, <<>>) }
DefPool    == { Basic(<<100>>, <<101>>), APIKey(xkey, "header", T(5)), Bearer(T(6)) }
AuthPool   == { Auth("basic", <<>>, "", r, <<>>, e) : r \in {"", "realm"}, e \in BOOLEAN }
              \cup { Auth("apikey", n, "header", "", <<>>, e) : n \in {XKEY, xkey}, e \in BOOLEAN }
              \cup { Auth("apikey", n, "query", "", <<>>, e) : n \in {KQ, ACCESS}, e \in BOOLEAN }
              \cup { Auth("bearer", "oauth", "", "", sc, e) : sc \in {<<>>, <<"read", "write">>}, e \in BOOLEAN }

SK(n) == <<115, 48 + n>>   \* "s1".."s3": values of static query parameters
StaticPool == { <<[k |-> KQ, v |-> SK(1)]>>, <<[k |-> ACCESS, v |-> SK(2)]>>, <<[k |-> KQ, v |-> SK(1)], [k |-> KQ, v |-> SK(3)]>> }

StartStructure == track = "start" /\ track' = "structure" /\ UNCHANGED <<in, A>>
AddOp ==
  /\ track = "structure" /\ Len(in.op) < 2 /\ in.def = <<>>
  /\ \E w \in WriterPool : in' = [in EXCEPT !.op = Append(@, w)]
  /\ UNCHANGED <<track, A>>
SetDefault ==
  /\ track = "structure" /\ in.def = <<>>
  /\ \E w \in DefPool : in' = [in EXCEPT !.def = <<w>>]
  /\ UNCHANGED <<track, A>>
Preset ==
  /\ track = "structure"
  /\ \/ in.authz = <<>> /\ in' = [in EXCEPT !.authz = <<67, 32, 120>>]                                  \* "C x"
     \/ in.hdrs = <<>> /\ in' = [in EXCEPT !.hdrs = <<[k |-> XKEY, v |-> T(7)]>>]
     \/ in.query = <<>> /\ \E v \in {T(8), <<>>} : in' = [in EXCEPT !.query = <<[k |-> ACCESS, v |-> v]>>]
     \/ in.form = <<>> /\ \E m \in {"urlencoded", "multipart", "none"} : in' = [in EXCEPT !.form = <<[k |-> ACCESS, v |-> T(9)]>>, !.media = m]
     \* static query parameters of the base path / path pattern named like a query API key or like the bearer token parameter
     \/ in.static = <<>> /\ \E st \in StaticPool : in' = [in EXCEPT !.static = st]
  /\ UNCHANGED <<track, A>>
PickAuth ==
  /\ track = "structure"
  /\ \E a \in AuthPool : A' = a
  /\ track' = "structure-done"
  /\ UNCHANGED in

Next == StartStrings \/ GrowString \/ StartStructure \/ AddOp \/ SetDefault \/ Preset \/ PickAuth
Spec == Init /\ [][Next]_vars

Holds == AuthOK(in, A, SrvAuth(Wire(in), A))

\* non-vacuity witnesses (development): violated when checked
NeverApplies == ~SrvAuth(Wire(in), A).applies
=============================================================================
