SPECIFICATION GenSpec
CONSTANTS
  SkipsUnregistered = FALSE
  Schemes <- SchemesABC
  MaxAlts = 2
  MaxPerAlt = 3
  Schemes2 <- SchemesAB
  MaxAlts2 = 3
CHECK_DEADLOCK FALSE
