--------------------------- MODULE TraceNegotiate ---------------------------
(* Trace validation of the real negotiation code against the declarative   *)
(* side of Negotiate (BestOffer / BestEncoding / SpecsOf).                  *)
(*                                                                         *)
(* case kinds (reset line = the abstract case, enough to re-execute it):   *)
(*  "ct"     lines (structured Accept header), olists (offer lists),       *)
(*           defaults (default offers), adef (API default offer), api      *)
(*     parse {values, rank, zero, one, finite, panic}   header.ParseAccept *)
(*     ct    {k, d, result, panic}       NegotiateContentType(olists[k], defaults[d]) *)
(*     api   {k, produces, status, ran, ctype, panic}   full API handler,  *)
(*           operation `method /t` with the single declared response       *)
(*           `success` (200 / 201 / 204 / default), produces = olists[k],  *)
(*           DefaultProduces = adef;                                       *)
(*           produces = the route's Produces as built (map order)          *)
(*  "enc"    lines (structured Accept-Encoding), olists (coding lists)     *)
(*     parse as above;  enc {k, result, panic}  NegotiateContentEncoding   *)
(*  "opaque" hdrs (arbitrary bytes), offers, dflt: only totality and       *)
(*           result \in offers \cup {default}                              *)
(*     oparse {panic}; oparse2 {panic}; oct {result, panic};               *)
(*     oenc {result, panic};                                               *)
(*     oapi {status, panic}                                                *)
EXTENDS Negotiate, Json, IOUtils

VARIABLES l, st, skipping, fails, cs

NInit(e) == e

Rng(s) == { s[i] : i \in DOMAIN s }

ParseOK(s, e) ==
  LET sp == SpecsOf(s.lines) IN
  /\ ~e.panic
  /\ e.finite
  /\ Len(e.values) = Len(sp)
  /\ \A k \in DOMAIN sp : e.values[k] = sp[k].v
  /\ \A k \in DOMAIN sp : e.zero[k] = QIsZero(sp[k].q)
  /\ \A k \in DOMAIN sp : e.one[k] = QEq(sp[k].q, QOne)
  /\ \A k1 \in DOMAIN sp : \A k2 \in DOMAIN sp : (e.rank[k1] < e.rank[k2]) = QLess(sp[k1].q, sp[k2].q)

ParseWhy(s, e) ==
  LET sp == SpecsOf(s.lines) IN
  IF e.panic THEN "parse-panics"
  ELSE IF ~e.finite THEN "parse-q-not-a-finite-number"
  ELSE IF Len(e.values) # Len(sp) THEN "parse-number-of-ranges"
  ELSE IF \E k \in DOMAIN sp : e.values[k] # sp[k].v THEN "parse-range-value"
  ELSE IF \E k \in DOMAIN sp : e.zero[k] # QIsZero(sp[k].q) THEN "parse-q-zero"
  ELSE IF \E k \in DOMAIN sp : e.one[k] # QEq(sp[k].q, QOne) THEN "parse-q-one"
  ELSE "parse-q-order-differs-from-denoted-numbers"

CTOK(s, e) ==
  LET offers == s.olists[e.k]  dflt == s.defaults[e.d] IN
  /\ ~e.panic
  /\ e.result = ResultText(BestOffer(SpecsOf(s.lines), offers), offers, dflt)

CTWhy(s, e) ==
  LET offers == s.olists[e.k]  dflt == s.defaults[e.d]  sp == SpecsOf(s.lines) IN
  IF e.panic THEN "negotiate-panics"
  ELSE IF e.result \notin ({dflt} \cup { Raw(offers[i]) : i \in DOMAIN offers }) THEN "result-neither-offer-nor-default"
  ELSE IF sp = <<>> THEN "no-accept-header-must-select-first-offer"
  ELSE IF Cands(sp, offers) = {} THEN "nothing-acceptable-must-give-default"
  ELSE "result-is-not-the-best-offer"

(* The route's Produces is the operation's produces (a set: the analyzer returns it in map order,  *)
(* duplicates collapsed) plus the API default unless contained.  Respond negotiates over "the       *)
(* produces list plus the API's default type, last": the non-default entries in the route's order,  *)
(* then the default.                                                                                *)
\* status of an accepted request by the operation's declared success response.  DefaultOnlyIs500 (named deviation, the
\* statement is silent): an operation declaring only a `default` response runs its handler and answers 500.
SuccessStatus(success) ==
  CASE success = "201" -> 201 [] success = "204" -> 204 [] success = "default" -> 500 [] OTHER -> 200

APIOK(s, e) ==
  LET decl == s.olists[e.k]
      recs == Rng(decl) \cup {s.adef}
      all  == { Raw(o) : o \in recs }
      obs  == e.produces
      dr   == Raw(s.adef)
      order == Append(SelectSeq(obs, LAMBDA p : p # dr), dr)
  IN
  /\ ~e.panic
  /\ Rng(obs) = all /\ Cardinality(all) = Len(obs)
  /\ (dr \notin { Raw(o) : o \in Rng(decl) }) => obs[Len(obs)] = dr
  /\ LET offers == [i \in DOMAIN order |-> CHOOSE o \in recs : Raw(o) = order[i]]
         k == BestOffer(SpecsOf(s.lines), offers)
     IN IF k = 0 THEN e.status = 406 /\ ~e.ran          \* whatever the method and the declared success response
        ELSE /\ e.ran
             /\ e.status = SuccessStatus(s.success)
             /\ s.success # "default" => e.ctype = order[k]

APIWhy(s, e) ==
  IF e.panic THEN "api-panics"
  ELSE IF e.status = 406 /\ e.ran THEN "406-but-handler-ran"
  ELSE IF e.status = 406 THEN "406-but-an-offered-type-is-acceptable"
  ELSE "api-handler-run-status-or-content-type-differs-from-best-offer"

EncOK(s, e) ==
  LET offers == s.olists[e.k] IN
  /\ ~e.panic
  /\ e.result = EncResultText(BestEncoding(SpecsOf(s.lines), offers), offers)

IDENTITY == <<105, 100, 101, 110, 116, 105, 116, 121>>

NAllowed(s, e) ==
  CASE e.ev = "parse"  -> ParseOK(s, e)
    [] e.ev = "ct"     -> CTOK(s, e)
    [] e.ev = "api"    -> APIOK(s, e)
    [] e.ev = "enc"    -> EncOK(s, e)
    [] e.ev = "oparse" -> ~e.panic
    [] e.ev = "oparse2" -> ~e.panic          \* header.ParseAccept2 / ParseList / ParseValueAndParams on the same lines
    [] e.ev = "oct"    -> ~e.panic /\ e.result \in (Rng(s.offers) \cup {s.dflt})
    [] e.ev = "oenc"   -> ~e.panic /\ e.result \in (Rng(s.offers) \cup {IDENTITY, <<>>})
    [] e.ev = "oapi"   -> ~e.panic /\ e.status \in {200, 406}
    [] OTHER -> FALSE

NWhy(s, e) ==
  CASE e.ev = "parse"  -> ParseWhy(s, e)
    [] e.ev = "ct"     -> CTWhy(s, e)
    [] e.ev = "api"    -> APIWhy(s, e)
    [] e.ev = "enc"    -> IF e.panic THEN "encoding-panics" ELSE "encoding-result-is-not-the-best-coding"
    [] e.ev \in {"oparse", "oparse2", "oct", "oenc", "oapi"} ->
         IF e.panic THEN "arbitrary-bytes-panic" ELSE "arbitrary-bytes-result-neither-offer-nor-default"
    [] OTHER -> "unknown-event"

NStep(s, e) == s

TheTrace == ndJsonDeserialize(IOEnv.TRACE_FILE)
TC == INSTANCE TraceCommon WITH TInit <- NInit, TAllowed <- NAllowed, TStep <- NStep,
                                TWhy <- NWhy, TStateful <- FALSE, Trace <- TheTrace
Spec == TC!Spec
=============================================================================
